#!/usr/bin/env python3
"""design_table.py : prints the as-built table of DESIGN.md sec. 7.7 from the evidence files and the corpus"""
import glob, json, os, re
V = os.path.dirname(os.path.dirname(os.path.abspath(__file__)))
muts = {}
for p in glob.glob(os.path.join(V, "mutants", "*.patch")):
    for l in open(p):
        if l.startswith("# property:"):
            pid = l.split(":")[1].strip()
            muts[pid] = muts.get(pid, 0) + 1
            break
seeds = {}
for d in sorted(os.listdir(os.path.join(V, "seeded"))):
    seeds.setdefault(d[:3], []).append(d)
print("| property | rules: instances discharged (floor) | violating patches | seeds |")
print("|---|---|---|---|")
for i in range(1, 21):
    pid = "C%02d" % i
    e = json.load(open(os.path.join(V, "evidence", pid + ".json")))
    rules = "; ".join("%s: %d (%d)" % (r["id"].split(".")[1], r["instances"], r["floor"]) for r in e["coverage"]["rules"])
    print("| %s | %s | %d | %s |" % (pid, rules, muts.get(pid, 0), ", ".join(seeds.get(pid, []))))
print()
print("benign refactorings (every check must stay silent): %d" % muts.get("ALL", 0))
