#!/usr/bin/env python3
"""mkmutant.py NAME PROPERTY RULE EXPECT_REGEX FILE OLD NEW [FILE OLD NEW ...]
Creates mutants/NAME.patch: a unified diff against /repo HEAD produced by exact one-shot string
replacements, with a header naming the property, the rule expected to fire and a regex the
violation key must match. /repo is left untouched."""
import os
import subprocess
import sys
import tempfile

name, prop, rule, expect = sys.argv[1:5]
edits = sys.argv[5:]
assert len(edits) % 3 == 0 and edits
REPO = "/repo"
files = {}
orig = {}
for i in range(0, len(edits), 3):
    f, old, new = edits[i:i + 3]
    if f not in files:
        src = subprocess.run(["git", "-C", REPO, "show", "HEAD:" + f], stdout=subprocess.PIPE, check=True, text=True).stdout
        files[f] = src
        orig[f] = src
    if files[f].count(old) != 1:
        sys.exit("pattern occurs %d times in %s: %r" % (files[f].count(old), f, old[:60]))
    files[f] = files[f].replace(old, new)
out = []
for f in files:
    with tempfile.TemporaryDirectory() as d:
        a = os.path.join(d, "a"); b = os.path.join(d, "b")
        os.makedirs(os.path.dirname(os.path.join(a, f))); os.makedirs(os.path.dirname(os.path.join(b, f)))
        open(os.path.join(a, f), "w").write(orig[f]); open(os.path.join(b, f), "w").write(files[f])
        r = subprocess.run(["diff", "-u", os.path.join("a", f), os.path.join("b", f)], cwd=d, stdout=subprocess.PIPE, text=True)
        out.append(r.stdout)
hdr = "# property: %s\n# rule: %s\n# expect: %s\n" % (prop, rule, expect)
path = os.path.join(os.path.dirname(os.path.dirname(os.path.abspath(__file__))), "mutants", name + ".patch")
open(path, "w").write(hdr + "".join(out))
print("wrote", path)
