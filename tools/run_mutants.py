#!/usr/bin/env python3
"""run_mutants.py [--jobs N] [--only REGEX] [--prop ID]
Checker self-validation (E4): applies every mutants/*.patch to a scratch copy of /repo's current
working tree (outside /repo and /verif, removed afterwards), runs the property's check on it and
records whether the expected rule reports a violation whose key matches. Prints a table and writes
out/mutants.json. Never touches /repo or the evidence directory."""
import argparse
import concurrent.futures
import json
import os
import re
import shutil
import subprocess
import sys
import tempfile
import time

HERE = os.path.dirname(os.path.dirname(os.path.abspath(__file__)))
REPO = os.environ.get("VERIF_REPO", "/repo")


def parse(path):
    if path.endswith("patch.diff"):
        # a seeded change kept under seeded/<ID>/: any violation of its property counts
        pid = os.path.basename(os.path.dirname(path))[:3]      # seeded/C07 and seeded/C07b are both seeds for C07
        return {"property": pid, "rule": "", "expect": ".", "seed": "1"}
    meta = {}
    for l in open(path):
        if l.startswith("# "):
            k, _, v = l[2:].partition(":")
            meta[k.strip()] = v.strip()
        else:
            break
    return meta


AS_PROP = None


def run_one(path, keep=False):
    meta = parse(path)
    if AS_PROP:
        meta["property"] = AS_PROP
    name = os.path.basename(path)[:-6] if not meta.get("seed") else "seed_" + os.path.basename(os.path.dirname(path))
    t0 = time.time()
    tmp = tempfile.mkdtemp(prefix="discv5-mut-")
    res = {"mutant": name, "property": meta.get("property"), "rule": meta.get("rule"), "expect": meta.get("expect")}
    try:
        scratch = os.path.join(tmp, "repo")
        subprocess.run(["rsync", "-a", "--exclude", "target", "--exclude", ".git", REPO + "/", scratch + "/"], check=True)
        body = "".join(l for l in open(path) if not l.startswith("# "))
        p = subprocess.run(["patch", "-p1", "--no-backup-if-mismatch"], cwd=scratch, input=body, text=True,
                           stdout=subprocess.PIPE, stderr=subprocess.STDOUT)
        if p.returncode != 0:
            res["status"] = "skipped: patch does not apply"
            res["detail"] = p.stdout[-300:]
            return res
        env = dict(os.environ)
        evd = os.path.join(tmp, "evidence")
        env.update({"VERIF_REPO": scratch, "VERIF_EVIDENCE_DIR": evd, "VERIF_OUT_DIR": os.path.join(tmp, "out"),
                    "VERIF_FACTS_LABEL": "mut", "VERIF_FACTS_DIR": os.path.join(tmp, "facts"), "VERIF_NO_SELFTEST": "1"})
        props = meta["property"]
        if props == "ALL":
            props = ",".join("C%02d" % i for i in range(1, 21))
        out = ""
        rc = 0
        for pid in props.split(","):
            c = subprocess.run([os.path.join(HERE, "check"), pid.strip(), "--tier", "quick"], cwd=HERE, env=env,
                               stdout=subprocess.PIPE, stderr=subprocess.STDOUT, text=True)
            out += c.stdout
            rc = rc or c.returncode
        keys = re.findall(r"^\s+key: (.*)$", out, re.M)
        if "fact export failed" in out:
            res["status"] = "skipped: mutant does not compile"
            res["detail"] = out[-400:]
            return res
        res["keys"] = keys
        if meta.get("expect") == "none":
            # behaviour-preserving refactoring: every check must stay silent
            res["status"] = "silent" if not keys and rc == 0 else "FALSE-ALARM"
            if keys or rc:
                res["detail"] = "\n".join(keys) or out[-600:]
            res["exit"] = rc
            return res
        exp = re.compile(meta.get("expect", "."))
        rule = meta.get("rule", "")
        hit = [k for k in keys if (k.startswith(rule + "|") or not rule) and exp.search(k)]
        other = [k for k in keys if k not in hit]
        if hit:
            res["status"] = "caught"
        elif keys:
            res["status"] = "caught-by-other-rule"
        else:
            res["status"] = "MISSED"
            res["detail"] = out[-600:]
        res["exit"] = rc
    finally:
        shutil.rmtree(tmp, ignore_errors=True)
        res["wall_s"] = round(time.time() - t0, 1)
    return res


_MODS = {}


def benign_is_relevant(path, pid):
    """does the patch touch a source file of a module in which the property's check analysed a function (last evidence file)?"""
    if pid not in _MODS:
        mods = None
        try:
            ev = json.load(open(os.path.join(os.environ.get("VERIF_EVIDENCE_DIR") or os.path.join(HERE, "evidence"), pid + ".json")))
            mods = set()
            for f in ev["coverage"].get("functions_analysed") or []:
                for m in re.findall(r"crate((?:::[a-z_][a-z0-9_]*)+)::", f):
                    mods.add(m)
        except Exception:
            mods = None
        _MODS[pid] = mods
    mods = _MODS[pid]
    if not mods:
        return True
    if re.search(r"zz_benign_agent2?_%s_" % pid, os.path.basename(path)):
        return True
    for l in open(path):
        m = re.match(r"\+\+\+ b/src/(.*)\.rs", l)
        if m:
            mod = "::" + m.group(1).replace("/", "::")
            mod = re.sub(r"::mod$", "", mod)
            mod = re.sub(r"^::lib$", "", mod)
            if any(x == mod or x.startswith(mod + "::") or mod.startswith(x + "::") for x in mods):
                return True
    return False


def main():
    ap = argparse.ArgumentParser()
    ap.add_argument("--jobs", type=int, default=6)
    ap.add_argument("--only")
    ap.add_argument("--prop")
    ap.add_argument("--as-prop", help="run only this property's check; selects its mutants and every benign refactoring")
    ap.add_argument("--json", help="write the result table here")
    ap.add_argument("--relevant-benign", action="store_true",
                    help="with --as-prop: of the benign refactorings, only those that touch a module the property's check analyses "
                         "(read from its last evidence file; all of them if there is none)")
    a = ap.parse_args()
    global AS_PROP
    d = os.path.join(HERE, "mutants")
    paths = sorted(os.path.join(d, f) for f in os.listdir(d) if f.endswith(".patch"))
    sd = os.path.join(HERE, "seeded")
    paths += sorted(os.path.join(sd, x, "patch.diff") for x in os.listdir(sd) if os.path.exists(os.path.join(sd, x, "patch.diff")))
    if a.only:
        paths = [p for p in paths if re.search(a.only, os.path.basename(p) if not p.endswith("patch.diff") else "seed_" + os.path.basename(os.path.dirname(p)))]
    if a.prop:
        paths = [p for p in paths if parse(p).get("property") == a.prop]
    if a.as_prop:
        AS_PROP = a.as_prop
        paths = [p for p in paths if a.as_prop in parse(p).get("property", "").split(",") or parse(p).get("property") == "ALL"]
        if a.relevant_benign:
            paths = [p for p in paths if parse(p).get("property") != "ALL" or benign_is_relevant(p, a.as_prop)]
    results = []

    def report(r):
        results.append(r)
        print("%-44s %-6s %-10s %-22s %5.1fs" % (r["mutant"], r["property"], r.get("rule") or "-", r["status"], r["wall_s"]))
        if r["status"] in ("MISSED", "FALSE-ALARM"):
            print("     " + (r.get("detail") or "").replace("\n", "\n     ")[-500:])
        sys.stdout.flush()
    # the scratch copies share their dependencies: the first export leaves a target directory without the crate's own artefacts in a
    # scratch place (harness.export_facts, VERIF_DEPS_TEMPLATE), the others start from a copy of it and compile only the crate
    import shutil
    deps = tempfile.mkdtemp(prefix="discv5-deps-")
    os.environ["VERIF_DEPS_TEMPLATE"] = deps
    try:
        if paths:
            report(run_one(paths[0]))
        with concurrent.futures.ThreadPoolExecutor(max_workers=a.jobs) as ex:
            for r in ex.map(run_one, paths[1:]):
                report(r)
    finally:
        shutil.rmtree(deps, ignore_errors=True)
    os.makedirs(os.path.join(HERE, "out"), exist_ok=True)
    if not a.only and not a.prop and not a.as_prop:
        json.dump(results, open(os.path.join(HERE, "out", "mutants.json"), "w"), indent=1)
    if a.json:
        json.dump(results, open(a.json, "w"), indent=1)
    missed = [r for r in results if r["status"] == "MISSED"]
    fa = [r for r in results if r["status"] == "FALSE-ALARM"]
    print("benign refactorings: %d silent, %d false alarms" % (sum(r["status"] == "silent" for r in results), len(fa)))
    print("%d mutants: %d caught, %d caught by another rule, %d missed, %d skipped" % (
        sum(r.get("expect") != "none" for r in results), sum(r["status"] == "caught" for r in results),
        sum(r["status"] == "caught-by-other-rule" for r in results), len(missed),
        sum(r["status"].startswith("skipped") for r in results)))
    return 0


if __name__ == "__main__":
    sys.exit(main())
