#!/usr/bin/env python3
"""stress_facts.py [--mode rename|lines|blocks|all] [--seed N]
Checker self-validation at the fact level (no rebuild): applies a behaviour-preserving transformation to the exported facts of the
current tree and evaluates every property's rules on the result. A rule that alarms here depends on an accident of the representation:

  rename  every let-bound variable gets another name (then facts.normalise_names maps them back by position, as it would for a real edit)
  lines   every source line number is shifted (keys and verdicts must not depend on positions)
  blocks  the basic blocks of every body are renumbered by a random permutation that keeps the entry block (rules must reason by
          dominance / reachability, never by block order)
  locals  the locals beyond the parameters are renumbered by a random permutation (rules must not depend on local indices)
  mirror  every ordering comparison is written the other way round (`a < b` becomes `b > a`)

Prints one line per property; exit 0 iff no rule alarms."""
import argparse
import importlib
import os
import random
import sys

HERE = os.path.dirname(os.path.dirname(os.path.abspath(__file__)))
sys.path.insert(0, os.path.join(HERE, "rules"))


def local_crate(p):
    return p.startswith("crate::") or p.startswith("<crate::")


def do_rename(facts):
    import facts as F
    for p, b in facts.bodies.items():
        if not local_crate(p):
            continue
        for i, loc in enumerate(b.j["locals"]):
            if i > b.j["arg_count"] and loc.get("name"):
                loc["name"] = loc["name"] + "_rn"
        b._blocks = None
    F.normalise_names(facts)


def do_lines(facts, delta=137):
    for p, b in facts.bodies.items():
        if not local_crate(p):
            continue
        b.j["line"] = b.j["line"] + delta
        b.line = b.j["line"]
        for blk in b.j["blocks"]:
            for st in blk["st"]:
                if "s" in st and st["s"]:
                    st["s"][0] += delta
            t = blk["term"]
            if "s" in t and t["s"]:
                t["s"][0] += delta
            if "fl" in t and isinstance(t["fl"], int):
                t["fl"] += delta
        b._blocks = None


def do_blocks(facts, rnd):
    for p, b in facts.bodies.items():
        if not local_crate(p):
            continue
        n = len(b.j["blocks"])
        if n < 3:
            continue
        perm = list(range(1, n))
        rnd.shuffle(perm)
        new_of = {0: 0}
        for new, old in enumerate(perm, start=1):
            new_of[old] = new
        blocks = [None] * n
        for old, blk in enumerate(b.j["blocks"]):
            t = blk["term"]
            for key in ("t", "else", "imag", "drop"):
                if key in t and isinstance(t[key], int):
                    t[key] = new_of[t[key]]
            if "vals" in t:
                t["vals"] = [[v, new_of[x]] for v, x in t["vals"]]
            blocks[new_of[old]] = blk
        b.j["blocks"] = blocks
        b._blocks = None
        b._preds = None
        b._reach = None
        b._idom = None
        if hasattr(b, "_vt"):
            del b._vt


def do_locals(facts, rnd):
    """renumber the locals beyond the parameters by a random permutation"""
    from facts import _each_place
    for p, b in facts.bodies.items():
        if not local_crate(p):
            continue
        n = len(b.j["locals"])
        first = b.j["arg_count"] + 1
        if n - first < 2:
            continue
        idx = list(range(first, n))
        sh = idx[:]
        rnd.shuffle(sh)
        new_of = {i: i for i in range(first)}
        new_of.update({old: new for old, new in zip(idx, sh)})
        locs = [None] * n
        for old, d in enumerate(b.j["locals"]):
            locs[new_of[old]] = d
        b.j["locals"] = locs
        seen = set()
        for pl in _each_place(b.j):
            if id(pl) in seen:
                continue
            seen.add(id(pl))
            pl[0] = new_of[pl[0]]
            for e in pl[1]:
                if isinstance(e, list) and e[0] == "i":
                    e[1] = new_of[e[1]]
        for blk in b.j["blocks"]:
            for st in blk["st"]:
                if st["k"] in ("dead", "live") and isinstance(st.get("l"), int):
                    st["l"] = new_of[st["l"]]
        b.locals = b.j["locals"]
        b._blocks = None
        if hasattr(b, "_vt"):
            del b._vt


def do_mirror(facts):
    """every ordering comparison `a < b` is rewritten as `b > a` (operators and PartialOrd calls alike)"""
    import re
    mop = {"Lt": "Gt", "Le": "Ge", "Gt": "Lt", "Ge": "Le"}
    mcall = {"lt": "gt", "le": "ge", "gt": "lt", "ge": "le"}
    for p, b in facts.bodies.items():
        if not local_crate(p):
            continue
        for blk in b.j["blocks"]:
            for st in blk["st"]:
                if st["k"] == "a" and st["r"].get("k") == "bin" and st["r"].get("op") in mop:
                    r = st["r"]
                    r["op"] = mop[r["op"]]
                    r["a"], r["b"] = r["b"], r["a"]
            t = blk["term"]
            if t["k"] == "call" and t.get("fn") and len(t.get("args", ())) == 2:
                names = [t["fn"].get(k) or "" for k in ("decl", "inst")]
                m = re.search(r"(PartialOrd|Ord)(<.*>)?>?::(lt|le|gt|ge)$|cmp::impls::.*::(lt|le|gt|ge)$", names[0]) or \
                    re.search(r"(PartialOrd|Ord)(<.*>)?>?::(lt|le|gt|ge)$|cmp::impls::.*::(lt|le|gt|ge)$", names[1])
                if m:
                    for k in ("decl", "inst", "decl_full", "inst_full"):
                        v = t["fn"].get(k)
                        if v:
                            mm = re.search(r"::(lt|le|gt|ge)$", v)
                            if mm:
                                t["fn"][k] = v[:mm.start(1)] + mcall[mm.group(1)]
                    t["args"] = [t["args"][1], t["args"][0]]
        b._blocks = None
        if hasattr(b, "_vt"):
            del b._vt


def main():
    ap = argparse.ArgumentParser()
    ap.add_argument("--mode", default="all")
    ap.add_argument("--seed", type=int, default=int(os.environ.get("VERIF_SEED", "1") or 1))
    ap.add_argument("--only", help="property id: evaluate only this property's rules")
    a = ap.parse_args()
    modes = ["rename", "lines", "blocks", "locals", "mirror"] if a.mode == "all" else [a.mode]
    bad = 0
    for mode in modes:
        os.environ["VERIF_NO_RENAME"] = "1" if mode == "rename" else ""
        if not os.environ["VERIF_NO_RENAME"]:
            del os.environ["VERIF_NO_RENAME"]
        for m in [k for k in sys.modules if k in ("harness", "facts", "analysis", "aff", "queryx", "inline") or (len(k) == 3 and k[0] == "c" and k[1:].isdigit())]:
            del sys.modules[m]
        import harness
        ctx = harness.Ctx("quick")
        f = ctx.facts
        if "VERIF_NO_RENAME" in os.environ:
            del os.environ["VERIF_NO_RENAME"]
        if mode == "rename":
            do_rename(f)
        elif mode == "lines":
            do_lines(f)
        elif mode == "blocks":
            do_blocks(f, random.Random(a.seed))
        elif mode == "locals":
            do_locals(f, random.Random(a.seed))
        elif mode == "mirror":
            do_mirror(f)
        for i in range(1, 21):
            pid = "c%02d" % i
            if a.only and a.only.lower() != pid:
                continue
            mod = importlib.import_module(pid)
            try:
                rules = mod.run(ctx)
                keys = [v.full_key() for r in rules for v in r.finish().violations]
            except Exception as e:      # noqa: BLE001 - a crash is a finding about the checker
                keys = ["EXCEPTION %r" % (e,)]
            if keys:
                bad += 1
                print("%-7s %s ALARM %s" % (mode, pid.upper(), keys[:5]))
        print("%-7s done" % mode)
    print("stress: %d alarm(s)" % bad)
    return 1 if bad else 0


if __name__ == "__main__":
    sys.exit(main())
