#!/bin/bash
# confirm_seed.sh <worktree> <seed-dir> <test-name-filter>
# Confirms in a scratch worktree that a seeded change (patch.diff) compiles and passes the existing
# suite, and that its demonstration (demo.diff) fails with the change and passes without it.
set -u
WT=$1; SD=$2; T=$3
cd "$WT" || exit 2
git checkout -q -- . && git clean -fdq -e target
export CARGO_NET_OFFLINE=true
echo "== apply patch only: full suite"
git apply "$SD/patch.diff" || { echo "PATCH DOES NOT APPLY"; exit 2; }
cargo test --workspace --no-fail-fast --offline 2>&1 | grep -E "^test result|FAILED|warning: unused|error(\[|:)" | head -8
echo "== patch + demo: demo test"
git apply "$SD/demo.diff" || { echo "DEMO DOES NOT APPLY"; exit 2; }
cargo test --offline --lib "$T" 2>&1 | grep -E "^test .*$T|^test result" | head -6
echo "== demo only (patch reverted): demo test"
git apply -R "$SD/patch.diff"
cargo test --offline --lib "$T" 2>&1 | grep -E "^test .*$T|^test result" | head -6
git checkout -q -- . && git clean -fdq -e target
