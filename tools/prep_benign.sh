#!/bin/bash
# prep_benign.sh <ID>... : scratch worktree /tmp/wt-<ID> and prompt /tmp/seed-<ID>/prompt.txt asking for three behaviour-preserving refactorings
for p in "$@"; do
git -C /repo worktree add -q --detach /tmp/wt-$p HEAD && mkdir -p /tmp/seed-$p && python3 - <<PY
import json, random
for l in open('/verif/properties.jsonl'):
    d=json.loads(l)
    if d['id']=='$p': prop=json.dumps(d,indent=1)
s=open('/verif/notes/benign_prompt.txt').read()
s=s.replace('__WT__','/tmp/wt-$p').replace('__OUT__','/tmp/seed-$p').replace('__PROPERTY__',prop)
s+="\nNote: several agents run concurrently on this machine and some existing tests bind fixed UDP ports (5000-5011, 9000-9500 range, 10001-10010); if a test of the existing suite fails with AddrInUse or a port clash, re-run it before concluding anything.\n"
open('/tmp/seed-$p/prompt.txt','w').write(s)
PY
done
