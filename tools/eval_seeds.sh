#!/bin/bash
# eval_seeds.sh <ID>... : run each property's check against /tmp/seed-<ID>/patch.diff applied to a scratch copy of /repo
# (never touches /repo itself, so checks running concurrently are not disturbed)
for p in "$@"; do
  echo "## $p"
  d=$(mktemp -d /tmp/evalseed-XXXXXX)
  rsync -a --exclude /target --exclude /.git /repo/ $d/repo/
  if (cd $d/repo && patch -p1 -s < /tmp/seed-$p/patch.diff); then
    (cd /verif && VERIF_REPO=$d/repo VERIF_EVIDENCE_DIR=$d/evidence VERIF_OUT_DIR=$d/out VERIF_FACTS_DIR=$d/facts VERIF_FACTS_LABEL=seed VERIF_NO_SELFTEST=1 ./check ${p:0:3} | grep -E "key:|^OK|^VIOLATION" | cut -c1-220)
  else
    echo "PATCH DOES NOT APPLY"
  fi
  rm -rf $d
done
