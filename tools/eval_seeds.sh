#!/bin/bash
# eval_seeds.sh <ID>... : run each property's check against /tmp/seed-<ID>/patch.diff (applied to /repo, undone straight afterwards)
for p in "$@"; do
  echo "## $p"
  if git -C /repo apply /tmp/seed-$p/patch.diff; then
    (cd /verif && ./check $p | grep -E "key:|^OK|^VIOLATION" | cut -c1-220)
    git -C /repo checkout -- .
    git -C /repo clean -fdq -- src
  else
    echo "PATCH DOES NOT APPLY"
  fi
done
git -C /repo status --short
