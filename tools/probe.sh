#!/bin/bash
# probe.sh <mutant-name> <PROP>... : apply mutants/<name>.patch to a persistent scratch copy /tmp/probe-<name> (created once) and run the
# given checks against it, printing violations with their messages. Remove the directory afterwards (tools/probe.sh --clean).
if [ "$1" = "--clean" ]; then rm -rf /tmp/probe-*; exit 0; fi
n=$1; shift
d=/tmp/probe-$n
if [ ! -d $d ]; then mkdir -p $d; rsync -a --exclude /target --exclude /.git /repo/ $d/repo/; (cd $d/repo && grep -v "^#" /verif/mutants/$n.patch | patch -p1 -s) || exit 2; fi
cd /verif
for p in "$@"; do
  VERIF_REPO=$d/repo VERIF_EVIDENCE_DIR=$d/ev VERIF_OUT_DIR=$d/out VERIF_FACTS_DIR=$d/facts VERIF_FACTS_LABEL=probe VERIF_NO_SELFTEST=1 ./check $p | grep -E "violated|key:|^OK|helpers" | cut -c1-${COLS:-330}
done
