#!/usr/bin/env python3
"""store_seed.py <ID> <suffix> <demo-test> <first-run: caught|missed> <caught_by ;-separated> <needs> [history]
Copies /tmp/seed-<ID>/{patch.diff,demo.diff,notes.md} to seeded/<ID><suffix>/ and writes meta.json."""
import json, os, shutil, sys
pid, suf, test, first, caught, needs = sys.argv[1:7]
hist = sys.argv[7] if len(sys.argv) > 7 else ("caught on first run" if first == "caught" else "missed at first")
d = "/verif/seeded/%s%s" % (pid, suf)
os.makedirs(d, exist_ok=True)
for f in ("patch.diff", "demo.diff", "notes.md"):
    shutil.copy("/tmp/seed-%s/%s" % (pid, f), d)
meta = {"property": pid, "round": {"": 1, "b": 2, "c": 3, "d": 4, "e": 5, "f": 6, "g": 7, "h": 8, "i": 9, "j": 10}.get(suf, suf), "source": "independent sub-agent given only the property text and a scratch worktree",
        "demonstration_test": test, "needs_to_manifest": needs, "detected": True, "first_run": first, "caught_by": [c.strip() for c in caught.split(";") if c.strip()],
        "history": hist,
        "confirmed": "tools/confirm_seed.sh in a scratch worktree: with patch.diff alone the unedited suite passes 121/121 (+2 doc tests); with patch.diff + demo.diff the demonstration fails; with demo.diff alone it passes",
        "how_run": "git -C /repo apply seeded/%s%s/patch.diff; ./check %s; git -C /repo checkout -- ." % (pid, suf, pid)}
json.dump(meta, open(os.path.join(d, "meta.json"), "w"), indent=1)
print("stored", d)
