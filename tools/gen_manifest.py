#!/usr/bin/env python3
"""Regenerates MANIFEST.json from the rule modules that exist (rules/cNN.py) so that the manifest
is always valid and never claims a property without a check."""
import importlib
import json
import os
import sys

HERE = os.path.dirname(os.path.dirname(os.path.abspath(__file__)))
sys.path.insert(0, os.path.join(HERE, "rules"))

props = [json.loads(l) for l in open(os.path.join(HERE, "properties.jsonl"))]
checks = []
na = []
# properties deliberately not claimed (reason given); filled in as the work progresses
DECLINED = {}
for p in props:
    pid = p["id"]
    modname = pid.lower()
    if not os.path.exists(os.path.join(HERE, "rules", modname + ".py")):
        na.append({"property_id": pid, "reason": DECLINED.get(
            pid, "no static rule for this property is armed yet in this revision of the framework (see DESIGN.md sec. 3 for the plan)")})
        continue
    if pid in DECLINED:
        na.append({"property_id": pid, "reason": DECLINED[pid]})
        continue
    mod = importlib.import_module(modname)
    checks.append({
        "property_id": pid,
        "quick_cmd": "./check %s --tier quick" % pid,
        "thorough_cmd": "./check %s --tier thorough" % pid,
        "evidence_file": "evidence/%s.json" % pid,
        "replay_cmd_template": "cat {path}",
        "engine": "mir-rules",
        "level_claimed": {
            "category": "other",
            "text": mod.EXPLANATION + " NOT decided: " + "; ".join(mod.NOT_DECIDED) + ".",
            "design_ref": "DESIGN.md sec. 3, %s" % pid,
        },
        "level_note": "Trusted: rustc's mir_built is faithful; callee resolution; " + "; ".join(getattr(mod, "TRUSTED", [])) +
                      ". Decides the named structural clauses (necessary conditions), not the runtime behaviour.",
        "technique": getattr(mod, "TECHNIQUE", "static analysis over type-checked MIR (custom rustc_private fact exporter + dominance / provenance / path rules)"),
    })
manifest = {
    "version": 1,
    "setup_cmd": "cd driver && CARGO_NET_OFFLINE=true cargo +nightly build --release --offline",
    "hooks": {
        "guard": "--cfg discv5_verif",
        "enable": "none needed: the analysis reads the crate as it is (no instrumentation commits)",
        "baseline_off_cmd": "cd /repo && cargo test --workspace --no-fail-fast --offline",
        "source_commits": [],
        "add_only": True,
    },
    "engines": [
        {"name": "mir-facts-driver", "path": "driver", "serves_properties": [c["property_id"] for c in checks],
         "kind_free_text": "rustc_private driver (RUSTC_WORKSPACE_WRAPPER) exporting mir_built CFGs, resolved callees, ADT/const facts as JSON"},
        {"name": "mir-rules", "path": "rules", "serves_properties": [c["property_id"] for c in checks],
         "kind_free_text": "Python rule engine: guard dominance / edge-cut reachability, provenance expressions, finite-state path and conservation analyses, who-may-call, sibling tables, affine guard entailment"},
    ],
    "checks": checks,
    "notes": "Static analysis only: no check executes discv5 code. Each check decides structural clauses that are necessary conditions of its property; see DESIGN.md.",
    "not_applicable": na,
}
with open(os.path.join(HERE, "MANIFEST.json"), "w") as f:
    json.dump(manifest, f, indent=1)
    f.write("\n")
print("checks:", [c["property_id"] for c in checks])
print("not_applicable:", [n["property_id"] for n in na])
