#!/bin/bash
# prep_seed.sh <ID>... : create a scratch worktree /tmp/wt-<ID> of /repo HEAD and the prompt file /tmp/seed-<ID>/prompt.txt
for p in "$@"; do
git -C /repo worktree add -q --detach /tmp/wt-$p HEAD && mkdir -p /tmp/seed-$p && python3 - <<PY
import json, random
for l in open('/verif/properties.jsonl'):
    d=json.loads(l)
    if d['id']=='$p': prop=json.dumps(d,indent=1)
s=open('/verif/notes/seed_prompt.txt').read()
s=s.replace('__WT__','/tmp/wt-$p').replace('__OUT__','/tmp/seed-$p').replace('__PROPERTY__',prop)
base=20000+random.randrange(0,20000)
s+="\nNote: several agents run concurrently on this machine and some existing tests bind fixed UDP ports (5000-5011, 9000-9500 range, 10001-10010); if a test of the existing suite fails with AddrInUse or a port clash, re-run it before concluding anything. For any new test that binds sockets choose ports in the range %d-%d.\n" % (base, base+20)
import os
st=os.environ.get('STEER')
if st:
    a,b=json.load(open(st))['$p']
    s+="\nThis exercise has been run several times already for this property. The earlier changes were made at these sites - do NOT use them again: "+a+". Sites and clauses of the property that have not been used yet include: "+b+" (you may also pick something else entirely, as long as it is not one of the used sites).\n"
open('/tmp/seed-$p/prompt.txt','w').write(s)
PY
done
