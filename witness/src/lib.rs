//! E3 — type-level witnesses for C20, compiled against discv5 as an external user sees it.
//! Each `compile_fail` witness has a compiling twin that differs only by the offending line, so a
//! witness that fails for an unrelated reason (a wrong path, a renamed item) is noticed.
//! Run with `cargo +nightly test --doc --offline` (stable ignores the error codes).

/// A TALK request cannot be answered twice: `respond` consumes it.
///
/// ```compile_fail,E0382
/// fn second_respond_is_rejected(req: discv5::TalkRequest) {
///     let _ = req.respond(vec![1]);
///     let _ = req.respond(vec![2]); // use of moved value
/// }
/// ```
pub struct SecondRespondIsRejected;

/// Twin of [`SecondRespondIsRejected`]: a single `respond` type-checks.
///
/// ```
/// fn single_respond_compiles(req: discv5::TalkRequest) {
///     let _ = req.respond(vec![1]);
/// }
/// ```
pub struct SingleRespondCompiles;

/// A TALK request cannot be duplicated.
///
/// ```compile_fail,E0599
/// fn clone_is_rejected(req: discv5::TalkRequest) -> (discv5::TalkRequest, discv5::TalkRequest) {
///     let other = req.clone(); // no method named `clone`
///     (req, other)
/// }
/// ```
pub struct CloneIsRejected;

/// Twin of [`CloneIsRejected`]: moving the request without cloning type-checks.
///
/// ```
/// fn move_without_clone_compiles(req: discv5::TalkRequest) -> (discv5::TalkRequest, ()) {
///     let other = ();
///     (req, other)
/// }
/// ```
pub struct MoveWithoutCloneCompiles;
