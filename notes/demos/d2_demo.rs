
/// D2: requests queued behind an outstanding WHOAREYOU are neither sent nor failed when the
/// handshake re-keys an already existing session.
#[tokio::test]
async fn verif_demo_d2_pending_not_released_on_rekey() {
    let (_recv, mut handler, _exit, _send) = demo_handler(5321).await;
    let remote_key = CombinedKey::generate_secp256k1();
    let remote_enr = Enr::builder()
        .ip4("127.0.0.1".parse().unwrap())
        .udp4(5322)
        .build(&remote_key)
        .unwrap();
    let contact: NodeContact = remote_enr.clone().into();
    let node_address = contact.node_address();
    let mk_session = |handler: &Handler| {
        let data = ChallengeData::try_from(&[9u8; 63][..]).unwrap();
        Session::encrypt_with_header(
            &contact,
            handler.key.clone(),
            None,
            &handler.node_id,
            handler.protocol_identity,
            &data,
            &[1, 2, 3],
        )
        .unwrap()
        .1
    };
    // a session with the peer exists ...
    let s1 = mk_session(&handler);
    handler.sessions.insert(node_address.clone(), s1);
    // ... and we have challenged the peer (WHOAREYOU outstanding)
    handler
        .send_challenge(WhoAreYouRef(node_address.clone(), [1u8; 12]), None)
        .await;
    // the application submits a request: it is queued behind the challenge
    handler
        .send_request(
            contact.clone(),
            HandlerReqId::External(RequestId(vec![1])),
            RequestBody::Ping { enr_seq: 1 },
        )
        .await
        .unwrap();
    assert_eq!(handler.pending_requests.get(&node_address).map(|v| v.len()), Some(1));
    // the peer answers the challenge: handle_auth_message consumes it and calls new_session
    handler.active_challenges.remove(&node_address).unwrap();
    let s2 = mk_session(&handler);
    handler.new_session(node_address.clone(), s2, None).await;
    // nothing is left that would ever release the queued request
    assert!(handler.active_challenges.is_empty());
    assert!(
        handler.pending_requests.is_empty(),
        "request still queued with no challenge outstanding: it gets neither a response nor a failure"
    );
}
