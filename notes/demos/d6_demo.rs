
// ---- verification demos (development aid, never committed to the repository) ----

async fn demo_handler(port: u16) -> (mpsc::Receiver<HandlerOut>, Handler, oneshot::Sender<()>, mpsc::UnboundedSender<HandlerIn>) {
    let ip = "127.0.0.1".parse().unwrap();
    let key = CombinedKey::generate_secp256k1();
    let enr = Enr::builder().ip4(ip).udp4(port).build(&key).unwrap();
    let cfg = ConfigBuilder::new(ListenConfig::Ipv4 { ip, port }).build();
    let (exit, send, recv, handler) = build_handler(enr, key, cfg).await;
    (recv, handler, exit, send)
}

/// D6a: a second WHOAREYOU for a request that already answered one fails the request but leaves
/// the sender's address exempt from the packet filter for ever.
#[tokio::test]
async fn verif_demo_d6_second_whoareyou() {
    let (_recv, mut handler, _exit, _send) = demo_handler(5311).await;
    let remote_key = CombinedKey::generate_secp256k1();
    let remote_enr = Enr::builder()
        .ip4("127.0.0.1".parse().unwrap())
        .udp4(5312)
        .build(&remote_key)
        .unwrap();
    let contact: NodeContact = remote_enr.clone().into();
    let node_address = contact.node_address();
    handler
        .send_request(
            contact,
            HandlerReqId::External(RequestId(vec![1])),
            RequestBody::Ping { enr_seq: 1 },
        )
        .await
        .unwrap();
    assert_eq!(handler.filter_expected_responses.read().get(&node_address.socket_addr), Some(&1));
    let nonce = *handler.active_requests.get(&node_address).unwrap()[0]
        .packet()
        .message_nonce();
    let data = ChallengeData::try_from(&[7u8; 63][..]).unwrap();
    handler
        .handle_challenge(node_address.socket_addr, nonce, 0, ChallengeData::try_from(&[7u8; 63][..]).unwrap())
        .await;
    // the request was re-inserted with the handshake packet
    let nonce2 = *handler.active_requests.get(&node_address).unwrap()[0]
        .packet()
        .message_nonce();
    assert_ne!(nonce, nonce2);
    // second WHOAREYOU: the request is failed
    handler
        .handle_challenge(node_address.socket_addr, nonce2, 0, data)
        .await;
    assert!(handler.active_requests.get(&node_address).is_none());
    assert!(handler.active_challenges.is_empty());
    assert!(handler.pending_requests.is_empty());
    // nothing is outstanding any more, so no exemption may remain
    assert!(
        handler.filter_expected_responses.read().is_empty(),
        "exemption left behind: {:?}",
        handler.filter_expected_responses.read()
    );
}

/// D6c: a handshake that consumes our challenge but fails for a reason other than a bad
/// signature leaves the exemption added for the WHOAREYOU behind.
#[tokio::test]
async fn verif_demo_d6_bad_handshake() {
    let (_recv, mut handler, _exit, _send) = demo_handler(5313).await;
    let remote_key = CombinedKey::generate_secp256k1();
    let remote_enr = Enr::builder().ip4("127.0.0.1".parse().unwrap()).udp4(5314).build(&remote_key).unwrap();
    let node_address = NodeAddress::new("127.0.0.1:5314".parse().unwrap(), remote_enr.node_id());
    handler.send_challenge(WhoAreYouRef(node_address.clone(), [1u8; 12]), None).await;
    assert_eq!(handler.filter_expected_responses.read().get(&node_address.socket_addr), Some(&1));
    // handshake with a garbage ephemeral key and no ENR: establish_from_challenge fails
    handler.handle_auth_message(node_address.clone(), [2u8; 12], &[0u8; 64], &[0u8; 33], None, &[0u8; 32], &[0u8; 70]).await;
    assert!(handler.active_challenges.is_empty());
    assert!(handler.filter_expected_responses.read().is_empty(), "exemption left behind: {:?}", handler.filter_expected_responses.read());
}
