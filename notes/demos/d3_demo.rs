
    /// D3: bucket 0 is yielded twice by the closest-bucket walk whenever bit 0 of the target's
    /// distance is set (or the distance is 0/1), so the nodes stored there are returned twice.
    #[test]
    fn verif_demo_d3_bucket0_yielded_twice() {
        let mut local = [0u8; 32];
        local[0] = 0x80;
        let local_key: Key<NodeId> = Key::from(NodeId::new(&local));
        let mut table = KBucketsTable::<_, ()>::new(
            local_key,
            Duration::from_secs(5),
            MAX_NODES_PER_BUCKET,
            None,
            None,
        );
        // ids differing from the local id in low bits only: buckets 0, 1, 2, ...
        for low in 1u8..=63 {
            let mut id = local;
            id[31] = low;
            let key = Key::from(NodeId::new(&id));
            if let Entry::Absent(e) = table.entry(&key) {
                let _ = e.insert((), connected_state());
            }
        }
        let mut expected_keys: Vec<_> = table
            .buckets
            .iter()
            .flat_map(|t| t.iter().map(|n| n.key.clone()))
            .collect();
        let mut bad = 0;
        for t in 0u16..256 {
            let mut id = local;
            id[31] = t as u8;
            let target_key: Key<NodeId> = Key::from(NodeId::new(&id));
            let keys = table.closest_keys(&target_key).collect::<Vec<_>>();
            expected_keys.sort_by_key(|k| k.distance(&target_key));
            if keys != expected_keys {
                bad += 1;
            }
        }
        assert_eq!(bad, 0, "closest_keys differs from the sorted full scan for {} of 256 targets", bad);
    }
