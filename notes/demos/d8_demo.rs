
    /// D8: the table filter does not count pending nodes, so after a pending node is promoted the
    /// table holds 11 nodes of one /24 although the limit is 10.
    #[test]
    fn verif_demo_d8_pending_not_counted_by_table_filter() {
        use crate::Enr;
        use enr::CombinedKey;
        use std::net::Ipv4Addr;

        let local_key: Key<NodeId> = Key::from(NodeId::new(&[0u8; 32]));
        let mut table = KBucketsTable::<NodeId, Enr>::new(
            local_key.clone(),
            Duration::from_millis(1),
            MAX_NODES_PER_BUCKET,
            Some(Box::new(filter::IpTableFilter)),
            None,
        );
        // an ENR whose id falls into (`far` = true) / outside bucket 255
        let mk = |ip: Ipv4Addr, far: bool| loop {
            let key = CombinedKey::generate_secp256k1();
            let enr = Enr::builder().ip4(ip).udp4(9000).build(&key).unwrap();
            let in_255 = enr.node_id().raw()[0] & 0x80 != 0;
            if in_255 == far {
                return enr;
            }
        };
        // fill bucket 255 with 16 disconnected nodes of 16 different subnets
        for i in 0..MAX_NODES_PER_BUCKET {
            let enr = mk(Ipv4Addr::new(10, i as u8, 0, 1), true);
            let k: Key<NodeId> = enr.node_id().into();
            assert!(matches!(table.insert_or_update(&k, enr, disconnected_state()), InsertResult::Inserted));
        }
        // a connected node of subnet 1.1.1.0/24 becomes pending in that bucket
        let pending = mk(Ipv4Addr::new(1, 1, 1, 100), true);
        let pk: Key<NodeId> = pending.node_id().into();
        assert!(matches!(table.insert_or_update(&pk, pending, connected_state()), InsertResult::Pending { .. }));
        // ten more nodes of 1.1.1.0/24 go into other buckets
        let mut accepted = 0;
        for i in 1..=10u8 {
            let enr = mk(Ipv4Addr::new(1, 1, 1, i), false);
            let k: Key<NodeId> = enr.node_id().into();
            if matches!(table.insert_or_update(&k, enr, connected_state()), InsertResult::Inserted) {
                accepted += 1;
            }
        }
        std::thread::sleep(Duration::from_millis(20));
        // any access applies the pending node
        let same_subnet = table
            .iter()
            .filter(|e| e.node.value.ip4().map(|ip| ip.octets()[0..3] == [1, 1, 1]).unwrap_or(false))
            .count();
        assert!(
            same_subnet <= 10,
            "{} nodes of 1.1.1.0/24 in the table ({} accepted next to the pending one)",
            same_subnet,
            accepted
        );
    }
