
/// D5: a node whose record is rejected by the configured table filter enters the routing table
/// through an established session.
#[tokio::test]
async fn verif_demo_d5_session_bypasses_table_filter() {
    let enr_key = CombinedKey::generate_secp256k1();
    let local_enr = Enr::builder().ip4(Ipv4Addr::LOCALHOST).udp4(10111).build(&enr_key).unwrap();
    let (mut service, _rx, _tx) = build_non_handler_service(Arc::new(RwLock::new(local_enr)), Arc::new(RwLock::new(enr_key)), false);
    // the application only wants nodes that advertise a TCP port
    service.config.table_filter = |enr| enr.tcp4().is_some();

    let peer_key = CombinedKey::generate_secp256k1();
    let peer_enr = Enr::builder().ip4(Ipv4Addr::LOCALHOST).udp4(10112).build(&peer_key).unwrap();
    assert!(!(service.config.table_filter)(&peer_enr));
    let socket = SocketAddr::new(Ipv4Addr::LOCALHOST.into(), 10112);
    service.inject_session_established(peer_enr.clone(), &socket, ConnectionDirection::Incoming);
    let in_table = service.kbuckets.write().iter().any(|e| e.node.key.preimage() == &peer_enr.node_id());
    assert!(!in_table, "a record rejected by config.table_filter is in the routing table");
}
