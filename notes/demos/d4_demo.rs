
/// D4: a responder that answers a request for distances [1, 2, 0] as this implementation itself
/// does (its own record for distance 0) is banned.
#[tokio::test]
async fn verif_demo_d4_honest_responder_banned() {
    let enr_key = CombinedKey::generate_secp256k1();
    let local_enr = Enr::builder().ip4(Ipv4Addr::LOCALHOST).udp4(10101).build(&enr_key).unwrap();
    let (mut service, _rx, _tx) = build_non_handler_service(Arc::new(RwLock::new(local_enr)), Arc::new(RwLock::new(enr_key)), false);

    // the responder
    let peer_key = CombinedKey::generate_secp256k1();
    let peer_enr = Enr::builder().ip4(Ipv4Addr::LOCALHOST).udp4(10102).build(&peer_key).unwrap();
    let peer_id = peer_enr.node_id();
    // a lookup target at log2 distance 1 from the responder: this node asks for [1, 2, 0]
    let mut t = peer_id.raw();
    t[31] ^= 1;
    let target = NodeId::new(&t);
    let (cb, _cb_recv) = oneshot::channel();
    let qi = QueryInfo {
        query_type: QueryType::FindNode(target),
        untrusted_enrs: Default::default(),
        callback: cb,
        distances_to_request: 3,
    };
    let request_body = qi.rpc_request(peer_id);
    assert_eq!(request_body, RequestBody::FindNode { distances: vec![1, 2, 0] });

    let contact: NodeContact = peer_enr.clone().into();
    let node_address = contact.node_address();
    service.active_requests.insert(
        RequestId(vec![7]),
        ActiveRequest { contact, request_body, query_id: None, callback: None },
    );
    // the honest answer: nothing at distances 1 and 2, its own record for distance 0
    service.handle_rpc_response(
        node_address.clone(),
        Response { id: RequestId(vec![7]), body: ResponseBody::Nodes { total: 1, nodes: vec![peer_enr] } },
    );
    let banned = crate::discv5::PERMIT_BAN_LIST.read().ban_nodes.contains_key(&peer_id)
        || crate::discv5::PERMIT_BAN_LIST.read().ban_ips.contains_key(&node_address.socket_addr.ip());
    crate::discv5::PERMIT_BAN_LIST.write().ban_nodes.remove(&peer_id);
    crate::discv5::PERMIT_BAN_LIST.write().ban_ips.remove(&node_address.socket_addr.ip());
    assert!(!banned, "an honest responder was banned for returning its own record at requested distance 0");
}
