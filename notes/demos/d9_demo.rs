    /// D9: a NODES response whose inner record list is followed, inside the outer list, by a further item
    /// (here: a second record after a list that declares only the first) is accepted, although every other
    /// message type rejects trailing items inside the outer list.
    #[test]
    fn verif_demo_d9_nodes_trailing_item_after_record_list() {
        use alloy_rlp::{Encodable, Header};
        let key = CombinedKey::generate_secp256k1();
        let enr1: Enr<CombinedKey> = Enr::builder().ip4("127.0.0.1".parse().unwrap()).udp4(500).build(&key).unwrap();
        let enr2: Enr<CombinedKey> = Enr::builder().ip4("127.0.0.1".parse().unwrap()).udp4(501).build(&key).unwrap();
        let mut inner = Vec::new();
        enr1.encode(&mut inner);
        let mut extra = Vec::new();
        enr2.encode(&mut extra);
        let mut list = Vec::new();
        (&[1u8][..]).encode(&mut list); // request id
        1u64.encode(&mut list); // total
        Header { list: true, payload_length: inner.len() }.encode(&mut list); // record list: exactly one record
        list.extend_from_slice(&inner);
        list.extend_from_slice(&extra); // trailing 4th item after the record list
        let mut data = vec![4u8];
        Header { list: true, payload_length: list.len() }.encode(&mut data);
        data.extend_from_slice(&list);
        assert!(Message::decode(&data).is_err(), "accepted: {:?}", Message::decode(&data));
    }
