
/// D1: a party that lacks X's key establishes a session keyed to X by attaching its own record
/// to the handshake and signing with its own key.
#[tokio::test]
async fn verif_demo_d1_forged_identity() {
    let (mut recv, mut handler, _exit, _send) = demo_handler(5331).await;
    let local_enr = handler.enr.read().clone();
    // the victim identity X: we only know its node id
    let victim_key = CombinedKey::generate_secp256k1();
    let victim_enr = Enr::builder().ip4("127.0.0.1".parse().unwrap()).udp4(5339).build(&victim_key).unwrap();
    let x = victim_enr.node_id();
    // the attacker has its own key and record, and sends from its own address
    let attacker_key = CombinedKey::generate_secp256k1();
    let attacker_addr: SocketAddr = "127.0.0.1:5332".parse().unwrap();
    let attacker_enr = Enr::builder().ip4("127.0.0.1".parse().unwrap()).udp4(5332).build(&attacker_key).unwrap();
    assert_ne!(attacker_enr.node_id(), x);
    let claimed = NodeAddress::new(attacker_addr, x);
    // packet 1 (a random message claiming to come from X) makes us challenge "X" at the attacker's address
    handler.send_challenge(WhoAreYouRef(claimed.clone(), [3u8; 12]), None).await;
    let challenge_data = {
        let c = handler.active_challenges.get(&claimed).unwrap();
        ChallengeData::try_from(c.data.as_ref()).unwrap()
    };
    // packet 2: the attacker answers with a handshake claiming src_id = X, its own record, its own signature
    let (auth_packet, _attacker_session) = Session::encrypt_with_header(
        &NodeContact::try_from_enr(local_enr, IpMode::default()).unwrap(),
        Arc::new(RwLock::new(attacker_key)),
        Some(attacker_enr.clone()),
        &x,
        handler.protocol_identity,
        &challenge_data,
        &Message::Request(Request { id: RequestId(vec![1]), body: RequestBody::Ping { enr_seq: 1 } }).encode(),
    )
    .unwrap();
    let authenticated_data = auth_packet.authenticated_data();
    let message = auth_packet.message.clone();
    let message_nonce = auth_packet.header.message_nonce;
    match auth_packet.header.kind {
        PacketKind::Handshake { src_id, id_nonce_sig, ephem_pubkey, enr_record } => {
            assert_eq!(src_id, x);
            handler
                .handle_auth_message(claimed.clone(), message_nonce, &id_nonce_sig, &ephem_pubkey, enr_record, &message, &authenticated_data)
                .await;
        }
        _ => unreachable!(),
    }
    // drain what the handler told the application
    let mut attributed_to_x = false;
    while let Ok(ev) = recv.try_recv() {
        match ev {
            HandlerOut::Request(addr, _) if addr.node_id == x => attributed_to_x = true,
            HandlerOut::UnverifiableEnr { node_id, .. } if node_id == x => attributed_to_x = true,
            _ => {}
        }
    }
    assert!(
        handler.sessions.get(&claimed).is_none() && !attributed_to_x,
        "a session keyed to X exists / events were attributed to X although the peer never proved X's key"
    );
}
