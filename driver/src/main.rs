//! E1 — MIR fact exporter for the discv5 static checks.
//!
//! A `rustc_private` driver used as `RUSTC_WORKSPACE_WRAPPER`. For the crates named in
//! `FACTS_CRATES` (comma separated, default `discv5`) it hooks `after_expansion`, reads
//! `tcx.mir_built(def)` for every local body and writes one JSON line per body, plus ADT, impl and
//! constant facts, to `$FACTS_OUT/<crate>-<pid>.jsonl` with a single write.
//!
//! The driver only exports. It decides nothing.
#![feature(rustc_private)]

extern crate rustc_abi;
extern crate rustc_driver;
extern crate rustc_hir;
extern crate rustc_interface;
extern crate rustc_middle;
extern crate rustc_span;

use rustc_driver::{Callbacks, Compilation};
use rustc_hir::def::DefKind;
use rustc_hir::def_id::{DefId, LocalDefId};
use rustc_middle::mir::{
    AggregateKind, BasicBlock, Body, BorrowKind, Const, ConstOperand, Operand, Place, PlaceElem,
    Rvalue, StatementKind, TerminatorKind, VarDebugInfoContents,
};
use rustc_middle::ty::print::{with_crate_prefix, with_no_trimmed_paths};
use rustc_middle::ty::{self, GenericArgsRef, Instance, Ty, TyCtxt, TypingEnv};
use rustc_span::{ExpnKind, Span};
use std::collections::HashMap;
use std::fmt::Write as _;

// ---------------------------------------------------------------- JSON helpers

fn esc(s: &str) -> String {
    let mut o = String::with_capacity(s.len() + 2);
    o.push('"');
    for c in s.chars() {
        match c {
            '"' => o.push_str("\\\""),
            '\\' => o.push_str("\\\\"),
            '\n' => o.push_str("\\n"),
            '\r' => o.push_str("\\r"),
            '\t' => o.push_str("\\t"),
            c if (c as u32) < 0x20 => {
                let _ = write!(o, "\\u{:04x}", c as u32);
            }
            c => o.push(c),
        }
    }
    o.push('"');
    o
}

fn arr(items: impl IntoIterator<Item = String>) -> String {
    let mut o = String::from("[");
    let mut first = true;
    for i in items {
        if !first {
            o.push(',');
        }
        first = false;
        o.push_str(&i);
    }
    o.push(']');
    o
}

fn opt_str(s: Option<String>) -> String {
    match s {
        Some(s) => esc(&s),
        None => "null".into(),
    }
}

// ---------------------------------------------------------------- exporter

struct Ex<'tcx> {
    tcx: TyCtxt<'tcx>,
}

struct BodyCx<'a, 'tcx> {
    tcx: TyCtxt<'tcx>,
    body: &'a Body<'tcx>,
    env: TypingEnv<'tcx>,
    def: LocalDefId,
    tys: Vec<String>,
    ty_ix: HashMap<Ty<'tcx>, usize>,
}

fn path_of(tcx: TyCtxt<'_>, did: DefId) -> String {
    with_crate_prefix!(with_no_trimmed_paths!(tcx.def_path_str(did)))
}

fn path_with_args<'tcx>(tcx: TyCtxt<'tcx>, did: DefId, args: GenericArgsRef<'tcx>) -> String {
    with_crate_prefix!(with_no_trimmed_paths!(tcx.def_path_str_with_args(did, args)))
}

fn ty_str(ty: Ty<'_>) -> String {
    with_crate_prefix!(with_no_trimmed_paths!(ty.to_string()))
}

/// (file, line, expansion chain innermost→outermost)
fn span_info(tcx: TyCtxt<'_>, span: Span) -> (String, usize, Option<String>) {
    let mut exp: Option<String> = None;
    if span.from_expansion() {
        let mut names = Vec::new();
        for ed in span.macro_backtrace() {
            let n = match ed.kind {
                ExpnKind::Macro(_, name) => name.to_string(),
                ExpnKind::Desugaring(k) => format!("desugar:{:?}", k),
                ExpnKind::AstPass(k) => format!("astpass:{:?}", k),
                ExpnKind::Root => "root".to_string(),
            };
            names.push(n);
        }
        exp = Some(names.join("<"));
    }
    let cs = span.source_callsite();
    let sm = tcx.sess.source_map();
    let loc = sm.lookup_char_pos(cs.lo());
    let file = match &loc.file.name {
        rustc_span::FileName::Real(r) => match r.local_path() {
            Some(p) => p.to_string_lossy().to_string(),
            None => format!("{:?}", loc.file.name),
        },
        other => format!("{:?}", other),
    };
    (file, loc.line, exp)
}

impl<'a, 'tcx> BodyCx<'a, 'tcx> {
    fn ty(&mut self, ty: Ty<'tcx>) -> usize {
        if let Some(i) = self.ty_ix.get(&ty) {
            return *i;
        }
        let i = self.tys.len();
        self.tys.push(ty_str(ty));
        self.ty_ix.insert(ty, i);
        i
    }

    fn span(&self, span: Span) -> String {
        let (_f, line, exp) = span_info(self.tcx, span);
        match exp {
            Some(e) => format!("[{},{}]", line, esc(&e)),
            None => format!("[{}]", line),
        }
    }

    fn place(&mut self, p: &Place<'tcx>) -> String {
        let tcx = self.tcx;
        let mut pty = rustc_middle::mir::PlaceTy::from_ty(self.body.local_decls[p.local].ty);
        let mut projs = Vec::new();
        for elem in p.projection.iter() {
            let s = match elem {
                PlaceElem::Deref => "\"*\"".to_string(),
                PlaceElem::Field(f, fty) => {
                    let name = self.field_name(pty, f.as_usize());
                    let t = self.ty(fty);
                    format!("[\"f\",{},{},{}]", f.as_usize(), esc(&name), t)
                }
                PlaceElem::Downcast(sym, v) => {
                    let name = match sym {
                        Some(s) => s.to_string(),
                        None => match pty.ty.kind() {
                            ty::Adt(adt, _) if adt.is_enum() => {
                                adt.variant(v).name.to_string()
                            }
                            _ => format!("{}", v.as_usize()),
                        },
                    };
                    format!("[\"d\",{},{}]", esc(&name), v.as_usize())
                }
                PlaceElem::Index(l) => format!("[\"i\",{}]", l.as_usize()),
                PlaceElem::ConstantIndex { offset, min_length, from_end } => {
                    format!("[\"ci\",{},{},{}]", offset, min_length, from_end)
                }
                PlaceElem::Subslice { from, to, from_end } => {
                    format!("[\"s\",{},{},{}]", from, to, from_end)
                }
                PlaceElem::OpaqueCast(_) => "[\"o\"]".to_string(),
                PlaceElem::UnwrapUnsafeBinder(_) => "[\"ub\"]".to_string(),
            };
            projs.push(s);
            pty = pty.projection_ty(tcx, elem);
        }
        format!("[{},{}]", p.local.as_usize(), arr(projs))
    }

    fn field_name(&self, pty: rustc_middle::mir::PlaceTy<'tcx>, idx: usize) -> String {
        let tcx = self.tcx;
        match pty.ty.kind() {
            ty::Adt(adt, _) => {
                let v = match pty.variant_index {
                    Some(v) => adt.variant(v),
                    None => {
                        if adt.is_enum() {
                            return format!("{}", idx);
                        }
                        adt.non_enum_variant()
                    }
                };
                v.fields
                    .iter()
                    .nth(idx)
                    .map(|f| f.name.to_string())
                    .unwrap_or_else(|| format!("{}", idx))
            }
            ty::Closure(did, _) | ty::Coroutine(did, _) | ty::CoroutineClosure(did, _) => {
                let names = tcx.closure_saved_names_of_captured_variables(*did);
                names
                    .iter()
                    .nth(idx)
                    .map(|s| s.to_string())
                    .unwrap_or_else(|| format!("{}", idx))
            }
            _ => format!("{}", idx),
        }
    }

    fn constant(&mut self, c: &ConstOperand<'tcx>) -> String {
        let tcx = self.tcx;
        let ty = c.const_.ty();
        let mut o = String::from("{");
        let t = self.ty(ty);
        let _ = write!(o, "\"ty\":{}", t);
        match ty.kind() {
            ty::FnDef(did, args) => {
                let _ = write!(o, ",\"fn\":{}", self.fn_ref(*did, args));
            }
            _ => {
                if let Const::Unevaluated(uv, _) = c.const_ {
                    let _ = write!(o, ",\"def\":{}", esc(&path_of(tcx, uv.def)));
                    if uv.promoted.is_some() {
                        o.push_str(",\"promoted\":true");
                    }
                }
                let is_scalar = ty.is_integral() || ty.is_bool() || ty.is_char();
                if ty.is_floating_point() && !matches!(c.const_, Const::Unevaluated(uv, _) if uv.promoted.is_some()) {
                    // float literals / constants: exported under their own key as shortest round-trip decimal text
                    if let Some(si) = c.const_.try_eval_scalar_int(tcx, self.env) {
                        let size = si.size();
                        let v = if size.bytes() == 8 {
                            format!("{:?}", f64::from_bits(si.to_uint(size) as u64))
                        } else {
                            format!("{:?}", f32::from_bits(si.to_uint(size) as u32))
                        };
                        let _ = write!(o, ",\"fv\":{}", esc(&v));
                    }
                }
                if is_scalar {
                    // Promoteds of generic bodies cannot be evaluated here; skip them.
                    let skip = matches!(c.const_, Const::Unevaluated(uv, _) if uv.promoted.is_some());
                    if !skip {
                        if let Some(si) = c.const_.try_eval_scalar_int(tcx, self.env) {
                            let size = si.size();
                            let v = if ty.is_signed() {
                                format!("{}", si.to_int(size))
                            } else {
                                format!("{}", si.to_uint(size))
                            };
                            let _ = write!(o, ",\"v\":{}", esc(&v));
                        }
                    }
                }
            }
        }
        o.push('}');
        o
    }

    fn fn_ref(&mut self, did: DefId, args: GenericArgsRef<'tcx>) -> String {
        let tcx = self.tcx;
        let mut o = String::from("{");
        let _ = write!(o, "\"decl\":{}", esc(&path_of(tcx, did)));
        let _ = write!(o, ",\"decl_full\":{}", esc(&path_with_args(tcx, did, args)));
        let _ = write!(o, ",\"local\":{}", did.is_local());
        let gargs: Vec<String> = args
            .iter()
            .filter_map(|a| a.as_type())
            .map(|t| esc(&ty_str(t)))
            .collect();
        let _ = write!(o, ",\"targs\":{}", arr(gargs));
        // Resolve through the trait system where possible.
        let dk = tcx.def_kind(did);
        if matches!(dk, DefKind::Fn | DefKind::AssocFn) {
            let norm = tcx.try_normalize_erasing_regions(self.env, ty::Unnormalized::new_wip(args));
            let resolved = match norm {
                Ok(nargs) => {
                    let has_infer = nargs.iter().any(|a| {
                        use rustc_middle::ty::TypeVisitableExt;
                        a.has_infer() || a.has_placeholders()
                    });
                    if has_infer {
                        None
                    } else {
                        Instance::try_resolve(tcx, self.env, did, nargs).ok().flatten()
                    }
                }
                Err(_) => None,
            };
            if let Some(inst) = resolved {
                let idid = inst.def_id();
                let _ = write!(o, ",\"inst\":{}", esc(&path_of(tcx, idid)));
                let _ = write!(
                    o,
                    ",\"inst_full\":{}",
                    esc(&path_with_args(tcx, idid, inst.args))
                );
                let _ = write!(o, ",\"inst_local\":{}", idid.is_local());
                let kind = match inst.def {
                    ty::InstanceKind::Item(_) => "item",
                    ty::InstanceKind::Virtual(..) => "virtual",
                    ty::InstanceKind::Intrinsic(_) => "intrinsic",
                    ty::InstanceKind::ClosureOnceShim { .. } => "closure_once_shim",
                    ty::InstanceKind::FnPtrShim(..) => "fn_ptr_shim",
                    ty::InstanceKind::CloneShim(..) => "clone_shim",
                    ty::InstanceKind::DropGlue(..) => "drop_glue",
                    _ => "other",
                };
                let _ = write!(o, ",\"ikind\":{}", esc(kind));
            }
        }
        o.push('}');
        o
    }

    fn operand(&mut self, op: &Operand<'tcx>) -> String {
        match op {
            Operand::Copy(p) => format!("[\"c\",{}]", self.place(p)),
            Operand::Move(p) => format!("[\"m\",{}]", self.place(p)),
            Operand::Constant(c) => format!("[\"k\",{}]", self.constant(c)),
            _ => "[\"rt\"]".to_string(),
        }
    }

    fn rvalue(&mut self, rv: &Rvalue<'tcx>) -> String {
        let tcx = self.tcx;
        match rv {
            Rvalue::Use(op, ..) => format!("{{\"k\":\"use\",\"op\":{}}}", self.operand(op)),
            Rvalue::Repeat(op, ct) => {
                let n = match ct.try_to_target_usize(tcx) {
                    Some(n) => format!("{}", n),
                    None => "null".to_string(),
                };
                format!("{{\"k\":\"repeat\",\"op\":{},\"n\":{}}}", self.operand(op), n)
            }
            Rvalue::Ref(_, bk, p) => {
                let b = match bk {
                    BorrowKind::Shared => "shared",
                    BorrowKind::Fake(_) => "fake",
                    BorrowKind::Mut { .. } => "mut",
                };
                format!("{{\"k\":\"ref\",\"bk\":\"{}\",\"pl\":{}}}", b, self.place(p))
            }
            Rvalue::ThreadLocalRef(d) => {
                format!("{{\"k\":\"tls\",\"def\":{}}}", esc(&path_of(tcx, *d)))
            }
            Rvalue::RawPtr(_, p) => format!("{{\"k\":\"rawptr\",\"pl\":{}}}", self.place(p)),
            Rvalue::Cast(ck, op, ty) => {
                let t = self.ty(*ty);
                format!(
                    "{{\"k\":\"cast\",\"ck\":{},\"op\":{},\"ty\":{}}}",
                    esc(&format!("{:?}", ck)),
                    self.operand(op),
                    t
                )
            }
            Rvalue::BinaryOp(op, ab) => {
                let (a, b) = &**ab;
                format!(
                    "{{\"k\":\"bin\",\"op\":\"{:?}\",\"a\":{},\"b\":{}}}",
                    op,
                    self.operand(a),
                    self.operand(b)
                )
            }
            Rvalue::UnaryOp(op, a) => {
                format!("{{\"k\":\"un\",\"op\":\"{:?}\",\"a\":{}}}", op, self.operand(a))
            }
            Rvalue::Discriminant(p) => format!("{{\"k\":\"discr\",\"pl\":{}}}", self.place(p)),
            Rvalue::Aggregate(ak, ops) => {
                let opsj = arr(ops.iter().map(|o| self.operand(o)).collect::<Vec<_>>());
                match &**ak {
                    AggregateKind::Array(_) => format!("{{\"k\":\"agg\",\"ak\":\"array\",\"ops\":{}}}", opsj),
                    AggregateKind::Tuple => format!("{{\"k\":\"agg\",\"ak\":\"tuple\",\"ops\":{}}}", opsj),
                    AggregateKind::Adt(did, vidx, _args, _, active) => {
                        let adt = tcx.adt_def(*did);
                        let v = adt.variant(*vidx);
                        let fields: Vec<String> = match active {
                            Some(f) => vec![esc(&v.fields[*f].name.to_string())],
                            None => v.fields.iter().map(|f| esc(&f.name.to_string())).collect(),
                        };
                        format!(
                            "{{\"k\":\"agg\",\"ak\":\"adt\",\"def\":{},\"variant\":{},\"vidx\":{},\"fields\":{},\"ops\":{}}}",
                            esc(&path_of(tcx, *did)),
                            esc(&v.name.to_string()),
                            vidx.as_usize(),
                            arr(fields),
                            opsj
                        )
                    }
                    AggregateKind::Closure(did, _) => {
                        let names = tcx.closure_saved_names_of_captured_variables(*did);
                        format!(
                            "{{\"k\":\"agg\",\"ak\":\"closure\",\"def\":{},\"fields\":{},\"ops\":{}}}",
                            esc(&path_of(tcx, *did)),
                            arr(names.iter().map(|s| esc(&s.to_string())).collect::<Vec<_>>()),
                            opsj
                        )
                    }
                    AggregateKind::Coroutine(did, _) | AggregateKind::CoroutineClosure(did, _) => {
                        let names = tcx.closure_saved_names_of_captured_variables(*did);
                        format!(
                            "{{\"k\":\"agg\",\"ak\":\"coroutine\",\"def\":{},\"fields\":{},\"ops\":{}}}",
                            esc(&path_of(tcx, *did)),
                            arr(names.iter().map(|s| esc(&s.to_string())).collect::<Vec<_>>()),
                            opsj
                        )
                    }
                    AggregateKind::RawPtr(..) => format!("{{\"k\":\"agg\",\"ak\":\"rawptr\",\"ops\":{}}}", opsj),
                }
            }
            Rvalue::CopyForDeref(p) => format!("{{\"k\":\"use\",\"op\":[\"c\",{}],\"cfd\":true}}", self.place(p)),
            Rvalue::WrapUnsafeBinder(op, _) => format!("{{\"k\":\"use\",\"op\":{}}}", self.operand(op)),
        }
    }

    fn bb(b: BasicBlock) -> usize {
        b.as_usize()
    }

    fn export(&mut self) -> String {
        let tcx = self.tcx;
        let body = self.body;
        let did = self.def.to_def_id();
        let mut o = String::from("{\"t\":\"body\"");
        let _ = write!(o, ",\"path\":{}", esc(&path_of(tcx, did)));
        let dk = tcx.def_kind(did);
        let _ = write!(o, ",\"defkind\":{}", esc(&format!("{:?}", dk)));
        let is_cor = tcx.is_coroutine(did);
        let _ = write!(o, ",\"coroutine\":{}", is_cor);
        if is_cor {
            let _ = write!(
                o,
                ",\"coroutine_kind\":{}",
                esc(&format!("{:?}", tcx.coroutine_kind(did)))
            );
        }
        let parent = tcx.opt_parent(did).map(|p| path_of(tcx, p));
        let _ = write!(o, ",\"parent\":{}", opt_str(parent));
        let (file, line, _) = span_info(tcx, body.span);
        let _ = write!(o, ",\"file\":{},\"line\":{}", esc(&file), line);
        let _ = write!(o, ",\"arg_count\":{}", body.arg_count);
        if matches!(dk, DefKind::Fn | DefKind::AssocFn) {
            let vis = tcx.visibility(did);
            let _ = write!(o, ",\"vis\":{}", esc(&format!("{:?}", vis)));
        }
        if matches!(dk, DefKind::Closure) {
            let names = tcx.closure_saved_names_of_captured_variables(did);
            let _ = write!(
                o,
                ",\"upvars\":{}",
                arr(names.iter().map(|s| esc(&s.to_string())).collect::<Vec<_>>())
            );
        }
        // locals
        let mut names: HashMap<usize, String> = HashMap::new();
        for vdi in &body.var_debug_info {
            if let VarDebugInfoContents::Place(p) = &vdi.value {
                if let Some(l) = p.as_local() {
                    names.entry(l.as_usize()).or_insert_with(|| vdi.name.to_string());
                }
            }
        }
        let mut locals = Vec::new();
        for (l, decl) in body.local_decls.iter_enumerated() {
            let t = self.ty(decl.ty);
            let adt = {
                let mut ty = decl.ty;
                while let ty::Ref(_, inner, _) = ty.kind() {
                    ty = *inner;
                }
                match ty.kind() {
                    ty::Adt(a, _) => Some(path_of(tcx, a.did())),
                    _ => None,
                }
            };
            let user = decl.is_user_variable();
            locals.push(format!(
                "{{\"ty\":{},\"name\":{},\"adt\":{},\"user\":{}}}",
                t,
                opt_str(names.get(&l.as_usize()).cloned()),
                opt_str(adt),
                user
            ));
        }
        let _ = write!(o, ",\"locals\":{}", arr(locals));
        // blocks
        let mut blocks = Vec::new();
        for (_bb, data) in body.basic_blocks.iter_enumerated() {
            let mut stmts = Vec::new();
            for st in &data.statements {
                match &st.kind {
                    StatementKind::Assign(b) => {
                        let (pl, rv) = &**b;
                        let l = self.place(pl);
                        let r = self.rvalue(rv);
                        stmts.push(format!(
                            "{{\"k\":\"a\",\"l\":{},\"r\":{},\"s\":{}}}",
                            l,
                            r,
                            self.span(st.source_info.span)
                        ));
                    }
                    StatementKind::SetDiscriminant { place, variant_index } => {
                        let l = self.place(place);
                        stmts.push(format!(
                            "{{\"k\":\"sd\",\"l\":{},\"v\":{},\"s\":{}}}",
                            l,
                            variant_index.as_usize(),
                            self.span(st.source_info.span)
                        ));
                    }
                    StatementKind::StorageDead(l) => {
                        stmts.push(format!("{{\"k\":\"dead\",\"l\":{}}}", l.as_usize()));
                    }
                    _ => {}
                }
            }
            let term = data.terminator();
            let sp = self.span(term.source_info.span);
            let t = match &term.kind {
                TerminatorKind::Goto { target } => {
                    format!("{{\"k\":\"goto\",\"t\":{},\"s\":{}}}", Self::bb(*target), sp)
                }
                TerminatorKind::FalseEdge { real_target, imaginary_target } => format!(
                    "{{\"k\":\"goto\",\"t\":{},\"imag\":{},\"s\":{}}}",
                    Self::bb(*real_target),
                    Self::bb(*imaginary_target),
                    sp
                ),
                TerminatorKind::FalseUnwind { real_target, .. } => format!(
                    "{{\"k\":\"goto\",\"t\":{},\"fu\":true,\"s\":{}}}",
                    Self::bb(*real_target),
                    sp
                ),
                TerminatorKind::SwitchInt { discr, targets } => {
                    let d = self.operand(discr);
                    let dty = discr.ty(&body.local_decls, tcx);
                    let t = self.ty(dty);
                    let vals: Vec<String> = targets
                        .iter()
                        .map(|(v, b)| format!("[{},{}]", esc(&format!("{}", v)), Self::bb(b)))
                        .collect();
                    format!(
                        "{{\"k\":\"switch\",\"d\":{},\"dty\":{},\"vals\":{},\"else\":{},\"s\":{}}}",
                        d,
                        t,
                        arr(vals),
                        Self::bb(targets.otherwise()),
                        sp
                    )
                }
                TerminatorKind::UnwindResume => format!("{{\"k\":\"resume\",\"s\":{}}}", sp),
                TerminatorKind::UnwindTerminate(_) => format!("{{\"k\":\"abort\",\"s\":{}}}", sp),
                TerminatorKind::Return => format!("{{\"k\":\"ret\",\"s\":{}}}", sp),
                TerminatorKind::Unreachable => format!("{{\"k\":\"unreachable\",\"s\":{}}}", sp),
                TerminatorKind::CoroutineDrop => format!("{{\"k\":\"cordrop\",\"s\":{}}}", sp),
                TerminatorKind::Drop { place, target, .. } => format!(
                    "{{\"k\":\"drop\",\"pl\":{},\"t\":{},\"s\":{}}}",
                    self.place(place),
                    Self::bb(*target),
                    sp
                ),
                TerminatorKind::Call { func, args, destination, target, fn_span, .. } => {
                    let f = match func {
                        Operand::Constant(c) => match c.const_.ty().kind() {
                            ty::FnDef(d, a) => self.fn_ref(*d, a),
                            _ => "null".to_string(),
                        },
                        _ => "null".to_string(),
                    };
                    let fop = self.operand(func);
                    let argsj = arr(args.iter().map(|a| self.operand(&a.node)).collect::<Vec<_>>());
                    let dest = self.place(destination);
                    let dty = destination.ty(&body.local_decls, tcx).ty;
                    let dt = self.ty(dty);
                    let (_, fl, _) = span_info(tcx, *fn_span);
                    format!(
                        "{{\"k\":\"call\",\"fn\":{},\"fop\":{},\"args\":{},\"dest\":{},\"dty\":{},\"t\":{},\"fl\":{},\"s\":{}}}",
                        f,
                        if f == "null" { fop } else { "null".to_string() },
                        argsj,
                        dest,
                        dt,
                        match target {
                            Some(t) => format!("{}", Self::bb(*t)),
                            None => "null".to_string(),
                        },
                        fl,
                        sp
                    )
                }
                TerminatorKind::TailCall { .. } => format!("{{\"k\":\"tailcall\",\"s\":{}}}", sp),
                TerminatorKind::Assert { cond, expected, msg, target, .. } => {
                    let m = format!("{:?}", msg);
                    let kind = m.split(|c: char| c == '(' || c == ' ' || c == '{').next().unwrap_or("").to_string();
                    format!(
                        "{{\"k\":\"assert\",\"cond\":{},\"exp\":{},\"msg\":{},\"msgfull\":{},\"t\":{},\"s\":{}}}",
                        self.operand(cond),
                        expected,
                        esc(&kind),
                        esc(&m),
                        Self::bb(*target),
                        sp
                    )
                }
                TerminatorKind::Yield { value, resume, resume_arg, drop } => format!(
                    "{{\"k\":\"yield\",\"v\":{},\"t\":{},\"arg\":{},\"drop\":{},\"s\":{}}}",
                    self.operand(value),
                    Self::bb(*resume),
                    self.place(resume_arg),
                    match drop {
                        Some(d) => format!("{}", Self::bb(*d)),
                        None => "null".to_string(),
                    },
                    sp
                ),
                TerminatorKind::InlineAsm { .. } => format!("{{\"k\":\"asm\",\"s\":{}}}", sp),
            };
            blocks.push(format!(
                "{{\"cleanup\":{},\"st\":{},\"term\":{}}}",
                data.is_cleanup,
                arr(stmts),
                t
            ));
        }
        let _ = write!(o, ",\"blocks\":{}", arr(blocks));
        let _ = write!(
            o,
            ",\"tys\":{}",
            arr(self.tys.iter().map(|s| esc(s)).collect::<Vec<_>>())
        );
        o.push('}');
        o
    }
}

impl<'tcx> Ex<'tcx> {
    fn run(&self) -> Vec<String> {
        let tcx = self.tcx;
        let mut lines = Vec::new();
        let crate_name = tcx.crate_name(rustc_hir::def_id::LOCAL_CRATE).to_string();
        let mut nbodies = 0usize;
        // First clone every built body: later queries (opaque-type reveal, const eval) may run
        // borrowck on some bodies, which steals their `mir_built`.
        let mut bodies: Vec<(LocalDefId, Body<'tcx>)> = Vec::new();
        for def in tcx.mir_keys(()).iter().copied() {
            let did = def.to_def_id();
            let dk = tcx.def_kind(did);
            // Constants / statics / anon consts are evaluated, not analysed as code.
            if !matches!(dk, DefKind::Fn | DefKind::AssocFn | DefKind::Closure) {
                continue;
            }
            if tcx.is_constructor(did) {
                continue;
            }
            let steal = tcx.mir_built(def);
            let body = steal.borrow().clone();
            bodies.push((def, body));
        }
        for (def, body) in bodies.iter() {
            let def = *def;
            let did = def.to_def_id();
            let env = TypingEnv::post_analysis(tcx, did);
            let mut cx = BodyCx {
                tcx,
                body,
                env,
                def,
                tys: Vec::new(),
                ty_ix: HashMap::new(),
            };
            lines.push(cx.export());
            nbodies += 1;
        }
        // ADT facts, constants, impls
        let items = tcx.hir_crate_items(());
        for ldid in items.definitions() {
            let did = ldid.to_def_id();
            match tcx.def_kind(did) {
                DefKind::Struct | DefKind::Enum | DefKind::Union => {
                    let adt = tcx.adt_def(did);
                    let mut variants = Vec::new();
                    for v in adt.variants() {
                        let fields: Vec<String> = v
                            .fields
                            .iter()
                            .map(|f| {
                                let fty = tcx.type_of(f.did).instantiate_identity().skip_norm_wip();
                                format!(
                                    "{{\"name\":{},\"ty\":{},\"vis\":{}}}",
                                    esc(&f.name.to_string()),
                                    esc(&ty_str(fty)),
                                    esc(&format!("{:?}", f.vis))
                                )
                            })
                            .collect();
                        variants.push(format!(
                            "{{\"name\":{},\"fields\":{}}}",
                            esc(&v.name.to_string()),
                            arr(fields)
                        ));
                    }
                    let (file, line, _) = span_info(tcx, tcx.def_span(did));
                    lines.push(format!(
                        "{{\"t\":\"adt\",\"path\":{},\"kind\":{},\"variants\":{},\"vis\":{},\"file\":{},\"line\":{}}}",
                        esc(&path_of(tcx, did)),
                        esc(&format!("{:?}", tcx.def_kind(did))),
                        arr(variants),
                        esc(&format!("{:?}", tcx.visibility(did))),
                        esc(&file),
                        line
                    ));
                }
                DefKind::Const { .. } | DefKind::AssocConst { .. } => {
                    let ty = tcx.type_of(did).instantiate_identity().skip_norm_wip();
                    let scalar = ty.is_integral() || ty.is_bool() || ty.is_floating_point();
                    let generic = tcx.generics_of(did).requires_monomorphization(tcx);
                    let mut val: Option<String> = None;
                    if scalar && !generic {
                        if let Ok(v) = tcx.const_eval_poly(did) {
                            if let Some(si) = v.try_to_scalar_int() {
                                let size = si.size();
                                val = Some(if ty.is_floating_point() {
                                    // floats are exported as their shortest round-trip decimal text
                                    if size.bytes() == 8 {
                                        format!("{:?}", f64::from_bits(si.to_uint(size) as u64))
                                    } else {
                                        format!("{:?}", f32::from_bits(si.to_uint(size) as u32))
                                    }
                                } else if ty.is_signed() {
                                    format!("{}", si.to_int(size))
                                } else {
                                    format!("{}", si.to_uint(size))
                                });
                            }
                        }
                    }
                    let (file, line, _) = span_info(tcx, tcx.def_span(did));
                    lines.push(format!(
                        "{{\"t\":\"const\",\"path\":{},\"ty\":{},\"v\":{},\"file\":{},\"line\":{}}}",
                        esc(&path_of(tcx, did)),
                        esc(&ty_str(ty)),
                        opt_str(val),
                        esc(&file),
                        line
                    ));
                }
                DefKind::Impl { of_trait } => {
                    let self_ty = tcx.type_of(did).instantiate_identity().skip_norm_wip();
                    let tr = if of_trait {
                        let tref = tcx.impl_trait_ref(did).instantiate_identity().skip_norm_wip();
                        Some(path_with_args(tcx, tref.def_id, tref.args))
                    } else {
                        None
                    };
                    let self_adt = match self_ty.kind() {
                        ty::Adt(a, _) => Some(path_of(tcx, a.did())),
                        _ => None,
                    };
                    let fns: Vec<String> = tcx
                        .associated_item_def_ids(did)
                        .iter()
                        .map(|d| esc(&path_of(tcx, *d)))
                        .collect();
                    lines.push(format!(
                        "{{\"t\":\"impl\",\"self_ty\":{},\"self_adt\":{},\"trait\":{},\"items\":{}}}",
                        esc(&ty_str(self_ty)),
                        opt_str(self_adt),
                        opt_str(tr),
                        arr(fns)
                    ));
                }
                _ => {}
            }
        }
        let cfg_debug = tcx.sess.opts.debug_assertions;
        lines.insert(
            0,
            format!(
                "{{\"t\":\"meta\",\"crate\":{},\"bodies\":{},\"debug_assertions\":{},\"rustc\":{}}}",
                esc(&crate_name),
                nbodies,
                cfg_debug,
                esc(&rustc_interface::util::rustc_version_str().unwrap_or("?").to_string())
            ),
        );
        lines
    }
}

struct Cb {
    crates: Vec<String>,
    out_dir: Option<String>,
}

impl Callbacks for Cb {
    fn after_expansion<'tcx>(
        &mut self,
        _compiler: &rustc_interface::interface::Compiler,
        tcx: TyCtxt<'tcx>,
    ) -> Compilation {
        let name = tcx.crate_name(rustc_hir::def_id::LOCAL_CRATE).to_string();
        if let Some(dir) = &self.out_dir {
            if self.crates.iter().any(|c| *c == name) {
                let ex = Ex { tcx };
                let lines = ex.run();
                let mut buf = lines.join("\n");
                buf.push('\n');
                let path = format!("{}/{}-{}.jsonl", dir, name, std::process::id());
                std::fs::write(&path, buf).expect("write facts");
            }
        }
        Compilation::Continue
    }
}

fn main() {
    // RUSTC_WORKSPACE_WRAPPER: argv[1] is the real rustc path; drop it.
    let mut args: Vec<String> = std::env::args().collect();
    if args.len() > 1 && (args[1].ends_with("rustc") || args[1].contains("/rustc")) {
        args.remove(1);
    }
    let crates = std::env::var("FACTS_CRATES")
        .unwrap_or_else(|_| "discv5".to_string())
        .split(',')
        .map(|s| s.to_string())
        .collect();
    let out_dir = std::env::var("FACTS_OUT").ok();
    let mut cb = Cb { crates, out_dir };
    rustc_driver::run_compiler(&args, &mut cb);
}
