"""C14 — Served FINDNODE and PING answers are correct and fit a datagram."""
import re

from analysis import (Prov, Guards, fmt, fmt_short, walk, roots, short, comparison, find_calls, callee_matches,
                      must_pass, writes_into, aliases_of, linear, normalised_cmp, const_int_of, cmp_intervals, propagate, test_edges, emptiness_test, closures_of, canon, closure_return_in_caller_terms)
from facts import AnchorError, strip_closure
from harness import Rule, guarded
import c13

PID = "C14"
EXPLANATION = (
    "Rules over the MIR of Service::send_nodes_response and the PING arm of handle_rpc_request. R1: the local record is "
    "pushed exactly on the edge `first sorted distance == 0` (the list is sorted first); every other record comes from "
    "nodes_by_distances(distances, config.max_nodes_response) through a filter that drops the requester's own id; every "
    "response carries the request's id and goes to the requesting NodeAddress. R2 (conservation): inside the split loop the "
    "packet index is incremented on exactly the paths that open a new packet, exactly one packet is opened before the loop, "
    "and every response's `total` is rpc_index + 1. R3 (affine bound): from the split guard the largest admitted sum of "
    "record sizes per packet is S = MAX_PACKET_SIZE - K - 1 and S + overhead <= MAX_PACKET_SIZE with overhead = IV_LENGTH + "
    "STATIC_HEADER_LENGTH + 32 (message auth-data) + 16 (GCM tag) + 17 (RLP framing, the one number supplied by the checker); "
    "a new packet's accumulator restarts at the size of its first record; the default max_nodes_response keeps `total` one RLP "
    "byte. R4: a PING from a non-zero port is always answered with a PONG carrying the request's id, the local sequence number "
    "and exactly the observed source ip and port.")
EXPLANATION += (" Added while testing: R1 also requires the table lookup to be skipped only past an emptiness test of the remaining distances; R3 is an inductive argument over one iteration of the split loop (Fourier-Motzkin); R5: the table query that feeds the answer is capped per node (C08.R3's cap obligations).")
NOT_DECIDED = ["that nodes_by_distances returns all entries at the distances up to the cap", "encoded sizes of actual records (R3 is the arithmetic relation between constants)",
               "a user-supplied max_nodes_response above 126 (outside the claim)"]
TRUSTED = ["alloy_rlp::encode(record).len() is the record's encoded size; RLP framing of a NODES message is at most 17 bytes when total < 128"]

SV = "crate::service::Service::"


def local_named(b, name):
    """the local of that name; when several have it (a helper that used the same names was inlined), the one that is written to most"""
    cands = [i for i, l in enumerate(b.locals) if l.get("name") == name]
    if not cands:
        raise AnchorError("%s: no local named %s" % (b.path, name))
    if len(cands) == 1:
        return cands[0]

    def weight(i):
        n = 0
        for blk in b.blocks:
            if blk.cleanup or blk.idx not in b.live_blocks():
                continue
            for s in blk.stmts:
                if s.k == "a" and ((s.lhs.local == i and not (s.rv.k == "use" and s.rv.ops and s.rv.ops[0].place is not None and s.rv.ops[0].place.is_local())) or
                                   (s.rv.k == "ref" and s.rv.j.get("bk") == "mut" and s.rv.place is not None and s.rv.place.local == i)):
                    n += 1
        return n
    return max(cands, key=weight)


def r1(ctx):
    facts = ctx.facts
    rule = Rule("C14.R1", "what is served: own record iff distance 0, table entries through the requester-excluding filter, right id and destination",
                floor=6, engine="A-prov + A-dom")
    b = facts.one(re.escape(SV) + "send_nodes_response")
    rule.analysed(b)
    p = Prov(b, facts)
    g = Guards(b, p, facts)
    nts = local_named(b, "nodes_to_send")
    ws = writes_into(b, p, nts)
    own = [(bi, src) for bi, m, src, t in ws if m == "push" and "local_enr" in fmt_short(src[0])]
    tbl = [(bi, src) for bi, m, src, t in ws if m in ("push", "extend") and "nodes_by_distances" in fmt_short(src[0])]
    other = [(bi, m, fmt_short(src[0]) if src else "") for bi, m, src, t in ws if (bi not in [x[0] for x in own + tbl])]
    rule.check(len(own) == 1 and len(tbl) == 1 and not other, "nodes_to_send receives the local record and filtered table entries only", "served|sources",
               "nodes_to_send is also written by %s" % other, loc=b.loc(b.line))
    # the zero edge
    zero_edges = []
    some_first = []
    for bi, t, e in g.switches():
        s_ = fmt_short(e)
        if e[0] == "discr" and s_ == "discr(slice::first(distances))":
            some_first += [(bi, tb) for v, tb in t.vals if v == 1]
        if s_ == "slice::first(distances).0":
            zero_edges += [(bi, tb) for v, tb in t.vals if v == 0]
    if not zero_edges:
        for bi, t, e in g.switches():
            c_ = comparison(e)
            if c_ and c_[0] in ("==", "!="):
                sd = [canon(c_[1]), canon(c_[2])]
                fs = [x for x in sd if x[0] == "call" and re.search(r"slice(::<.*>)?::first$", short(x[1])) and "distances" in fmt_short(x)]
                zs = [x for x in sd if x[0] == "agg" and x[1].endswith("Option::Some") and const_int_of(canon(dict(x[2])["0"])) == 0]
                if fs and zs:
                    f_, tr_ = g.bool_edges(bi)
                    zero_edges.append((bi, tr_ if c_[0] == "==" else f_))
    sorts = [bi for bi, t in b.calls() if callee_matches(t, r"slice::<impl \[T\]>::sort(_unstable)?$", r"slice::sort(_unstable)?$")]
    firsts = [bi for bi, t in b.calls() if callee_matches(t, r"slice::<impl \[T\]>::first$", r"slice::first$")]
    ok = bool(zero_edges) and bool(own)
    if ok:
        r = b.reachable(0, removed_edges=zero_edges)
        ok = own[0][0] not in r
        # on the zero edge the push always happens
        for sb, tgt in zero_edges:
            rr = b.reachable(tgt, removed_blocks=[own[0][0]])
            if any(x in rr for x in b.return_blocks()):
                ok = False
    rule.check(ok, "own record pushed exactly on `first sorted distance == 0`", "served|own-iff-zero",
               "the local record is not served exactly when distance 0 is requested", loc=b.loc(b.line))
    rule.check(bool(sorts) and bool(firsts) and must_pass(b, firsts, via_blocks=sorts), "distances are sorted before the first element is inspected", "served|sorted",
               "the first requested distance is inspected without sorting the list (0 may sit elsewhere)", loc=b.loc(b.line))
    # the table part
    for bi, t in b.calls():
        if short(t.callee() or "").endswith("KBucketsTable::nodes_by_distances"):
            a1, a2 = fmt_short(p.operand(t.args[1])), fmt_short(p.operand(t.args[2]))
            rule.check(a1 == "distances" and a2 == "self.config.max_nodes_response", "nodes_by_distances(distances, config.max_nodes_response)", "served|table-args",
                       "send_nodes_response asks the table for (%s, %s)" % (a1, a2), loc=b.loc(t.line))
    # the table is consulted whenever a distance other than 0 is requested, whether or not 0 is requested too: the lookup is skipped only
    # past an emptiness test of the remaining distances, on every path from the entry (through the own-record arm as well)
    nbd = [bi for bi, t in b.calls() if short(t.callee() or "").endswith("KBucketsTable::nodes_by_distances")]
    empty_edges = test_edges(g, emptiness_test, lambda x: "distances" in fmt_short(x), want=True)
    okt = bool(nbd) and bool(empty_edges)
    if okt:
        rr = b.reachable(0, removed_blocks=nbd, removed_edges=empty_edges)
        okt = not any(x in rr for x in b.return_blocks())
    rule.check(okt, "the table lookup is skipped only when no distance (other than 0) remains", "served|table-skipped",
               "send_nodes_response can answer without consulting the table although distances other than 0 were requested (e.g. when 0 is requested as well): the "
               "answer is not the table's entries at the requested distances", loc=b.loc(b.line))
    if tbl:
        src = tbl[0][1][0]
        fm = [x for x in walk(src) if x[0] == "call" and short(x[1]).endswith("Iterator::filter_map")]
        okf = False
        fl = [x for x in walk(src) if x[0] == "call" and re.search(r"Iterator>?::filter$", short(x[1])) and len(x[2]) == 2]
        mp = [x for x in walk(src) if x[0] == "call" and re.search(r"Iterator>?::map$", short(x[1])) and len(x[2]) == 2]
        if not fm and fl and mp:
            # `.filter(|e| e.node.key.preimage() != &requester).map(|e| e.node.value.clone())`: the same thing in two stages
            fret = closure_return_in_caller_terms(facts, fl[0][2][1], [("unknown", "entry")])
            mret = closure_return_in_caller_terms(facts, mp[0][2][1], [("unknown", "entry")])
            c_ = comparison(fret) if fret is not None else None
            sides = {fmt_short(c_[1]), fmt_short(c_[2])} if c_ else set()
            okf = bool(c_) and c_[0] == "!=" and any("Key::preimage(" in x and ".node.key" in x for x in sides) and any(x.endswith("node_address.node_id") for x in sides) and \
                mret is not None and ".node.value" in fmt_short(mret) and mp[0] in list(walk(src)) and fl[0] in list(walk(mp[0]))
        if fm and fm[0][2][1][0] == "agg":
            cb = facts.bodies.get(fm[0][2][1][1].split(":", 1)[1])
            if cb is not None:
                rule.analysed(cb)
                cp = Prov(cb, facts)
                cg = Guards(cb, cp, facts)
                somes = [blk for lhs, kind, payload, blk, _l in cp.defs.get(0, ()) if kind == "rv" and payload.k == "agg" and payload.j.get("variant") == "Some"]
                ne = []
                for sbi, st, se in cg.switches():
                    c = comparison(se)
                    if c and c[0] in ("==", "!=") and {fmt_short(c[1]), fmt_short(c[2])} == {"Key::preimage(entry.node.key)", "node_address.node_id"}:
                        f, tr = cg.bool_edges(sbi)
                        ne.append((sbi, tr if c[0] == "!=" else f))
                vals_ok = all("entry.node.value" in fmt_short(cp.operand(payload.ops[0])) for lhs, kind, payload, blk, _l in cp.defs.get(0, ())
                              if kind == "rv" and payload.k == "agg" and payload.j.get("variant") == "Some")
                okf = bool(ne) and bool(somes) and vals_ok and not any(s in cb.reachable(0, removed_edges=ne) for s in somes)
        rule.check(okf, "table entries pass a filter that drops the requester's own id and yields the entry's own record", "served|requester-excluded",
                   "send_nodes_response can return the requester's own record (or records not taken from the entry)", loc=b.loc(b.line))
    # ids and destination
    n = 0
    for bi, t in b.calls():
        if callee_matches(t, r"mpsc::UnboundedSender::<.*>::send$", r"UnboundedSender::send$"):
            e = p.operand(t.args[1])
            for x in walk(e):
                if x[0] == "agg" and x[1].endswith("HandlerIn::Response"):
                    n += 1
                    rule.check(fmt_short(dict(x[2])["0"]) == "node_address", "response sent to the requesting NodeAddress", "served|destination|%d" % n,
                               "a NODES response is sent to %s" % fmt_short(dict(x[2])["0"]), loc=b.loc(t.line))
    ids = []
    for pth, cb in facts.bodies.items():
        if strip_closure(pth) != SV + "send_nodes_response":
            continue
        cp = Prov(cb, facts)
        for blk in cb.blocks:
            for s in blk.stmts:
                if s.k == "a" and s.rv.k == "agg" and s.rv.j.get("def") == "crate::rpc::Response" and blk.idx in cb.live_blocks():
                    f = dict(zip(s.rv.j["fields"], [cp.operand(o) for o in s.rv.ops]))
                    ids.append(fmt_short(f["id"]))
    rule.check(len(ids) >= 2 and all(i == "rpc_id" for i in ids), "every Response carries the request's id (%d construction sites)" % len(ids), "served|ids",
               "NODES responses carry ids %s" % ids, loc=b.loc(b.line))
    if n < 2:
        rule.fail("served|send-sites", "only %d HandlerIn::Response sends found (2 confirmed by hand)" % n)
    return rule


def r2_r3(ctx):
    facts = ctx.facts
    r2 = Rule("C14.R2", "`total` equals the number of packets: index incremented exactly when a packet is opened, total = rpc_index + 1", floor=3, engine="A-cons")
    r3 = Rule("C14.R3", "size bound: S + overhead <= MAX_PACKET_SIZE; a new packet's accumulator restarts at its first record's size", floor=4, engine="A-aff")
    b = facts.one(re.escape(SV) + "send_nodes_response")
    r2.analysed(b)
    r3.analysed(b)
    p = Prov(b, facts)
    g = Guards(b, p, facts)
    try:
        tsn = local_named(b, "to_send_nodes")
    except AnchorError:
        # renamed: the list of packets is the (most written) local of type Vec<Vec<Enr>>
        cands = [i for i in range(len(b.locals)) if re.match(r"^std::vec::Vec<std::vec::Vec<enr::Enr<.*>>>$", b.local_ty(i) or "") and b.local_name(i)]
        if not cands:
            raise

        def weight(i):
            return sum(1 for blk in b.blocks if not blk.cleanup for s_ in blk.stmts
                       if s_.k == "a" and ((s_.lhs.local == i) or (s_.rv.k == "ref" and s_.rv.j.get("bk") == "mut" and s_.rv.place is not None and s_.rv.place.local == i)))
        tsn = max(cands, key=weight)
    try:
        idx = local_named(b, "rpc_index")
    except AnchorError:
        # no packet counter at all: `total` must then be the number of packets itself (`to_send_nodes.len()`, checked under total|formula)
        idx = None
    acc = local_named(b, "total_size")
    heads = c13.loop_heads(b)
    # the split loop head: the one from which the encode call is reachable without leaving
    enc = [bi for bi, t in b.calls() if short(t.callee() or "") == "alloy_rlp::encode"]
    if not enc:
        raise AnchorError("send_nodes_response: alloy_rlp::encode not found")
    loop = [h for h in heads if enc[0] in b.reachable(h) and h in b.reachable(enc[0])]
    if len(loop) != 1:
        raise AnchorError("send_nodes_response: split loop not identified (%s)" % loop)
    H = loop[0]
    inloop = b.reachable(H) & {x for x in range(len(b.blocks)) if H in b.reachable(x)}
    opens = [bi for bi, m, src, t in writes_into(b, p, tsn, follow_moves=True) if m == "push" and t.args[0].place is not None and
             t.args[0].place.local in aliases_of(b, tsn) and not any(callee_matches(tt, r"index_mut$") for tt in [b.blocks[x].term for x in range(len(b.blocks))] if False)]
    # pushes directly onto to_send_nodes (not onto an element of it): the destination is a plain &mut of the local
    direct = []
    for bi, m, src, t in writes_into(b, p, tsn, follow_moves=True):
        if m != "push":
            continue
        d = t.args[0].place.local
        via_index = False
        for blk in b.blocks:
            tt = blk.term
            if tt.k == "call" and tt.dest.is_local() and callee_matches(tt, r"IndexMut.*::index_mut$|index_mut$"):
                # is d derived from this index_mut result?
                cur = d
                for _ in range(4):
                    if cur == tt.dest.local:
                        via_index = True
                    nxt = None
                    for b2 in b.blocks:
                        for s in b2.stmts:
                            if s.k == "a" and s.lhs.is_local() and s.lhs.local == cur and s.rv.place is not None:
                                nxt = s.rv.place.local
                    if nxt is None:
                        break
                    cur = nxt
        if not via_index:
            direct.append(bi)
    before = [x for x in direct if x not in inloop]
    inside = [x for x in direct if x in inloop]
    incs = []
    for blk in b.blocks:
        for s in blk.stmts:
            if s.k == "a" and s.lhs.is_local() and s.lhs.local == idx and blk.idx in b.live_blocks():
                c = s.rv.ops[0].const_int() if s.rv.k == "use" else None
                if c is not None:
                    if c != 0 or blk.idx in inloop:
                        r2.fail("index|init", "rpc_index is set to %s" % c, loc=b.loc(s.line))
                    continue
                lf = linear(p.rvalue(s.rv, blk.idx), lambda x: "i" if x[0] == "phi" or fmt_short(x) == "rpc_index" else None)
                if lf == ({"i": 1}, 1):
                    incs.append(blk.idx)
                else:
                    r2.fail("index|update", "rpc_index is updated by %s" % fmt_short(p.rvalue(s.rv, blk.idx)), loc=b.loc(s.line))
    # the first packet may also be the initial content of the vector (`vec![Vec::new()]`)
    init_tsn = canon(p.local(tsn))
    if not before and any(x[0] == "agg" and x[1] == "array" and len(x[2]) == 1 for x in walk(init_tsn)):
        before = [0]
    r2.check(len(before) == 1, "exactly one packet is opened before the loop (index 0)", "packets|initial", "%d packets are opened before the split loop" % len(before), loc=b.loc(b.line))
    # per-iteration conservation
    def transfer(bidx, st):
        d, started = st
        if bidx == H and started:
            yield None, (d, True)
            return
        if bidx in inside:
            d += 1
        if bidx in incs:
            d -= 1
        if abs(d) > 3:
            return
        for s_ in b.blocks[bidx].term.succs():
            if s_ in inloop:
                yield s_, (d, True)
    states, exits, parent = propagate(b, (0, False), transfer, start=H)
    deltas = sorted(set(st[0] for _, _, st in exits))
    if idx is None:
        deltas, incs = [0], ["(no counter: total is the vector's length)"]
    r2.check(deltas == [0] and inside and incs, "per iteration: #packets opened - #index increments = 0 on every path (%d open sites, %d increments)" % (len(inside), len(incs)),
             "packets|conservation", "in the split loop a packet can be opened without incrementing rpc_index or vice versa (per-iteration differences %s): `total` would not equal the number of packets" % deltas,
             loc=b.loc(b.line))
    # total = rpc_index + 1
    tot_ok = 0
    for pth, cb in facts.bodies.items():
        if strip_closure(pth) != SV + "send_nodes_response":
            continue
        cp = Prov(cb, facts)
        for blk in cb.blocks:
            for s in blk.stmts:
                if s.k == "a" and s.rv.k == "agg" and s.rv.j.get("variant") == "Nodes" and s.rv.j.get("def") == "crate::rpc::ResponseBody":
                    f = dict(zip(s.rv.j["fields"], [cp.operand(o) for o in s.rv.ops]))
                    if pth == b.path and const_int_of(canon(f["total"])) == 1:
                        continue        # the single-packet (empty) answer built directly
                    lf = linear(f["total"], lambda x: "i" if x == ("upvar", "rpc_index") or (pth == b.path and x[0] == "phi" and "cycle" in fmt_short(x) and any(const_int_of(a) == 0 for a in x[1]) and
                                                                                              all(const_int_of(a) == 0 or "cycle" in fmt_short(a) for a in x[1])) else None)
                    okk = lf == ({"i": 1}, 1) and idx is not None
                    if not okk:
                        # `total` computed outside as the number of packets itself: `to_send_nodes.len() as u64`
                        for cb2, cp2, to_caller in closures_of(facts, b):
                            if cb2.path == cb.path:
                                tv = canon(to_caller(f["total"]))
                                while tv[0] == "cast":
                                    tv = canon(tv[1])
                                if tv[0] == "call" and short(tv[1]).endswith("Vec::len") and tv[2] and set(roots(tv[2][0])) & set(roots(p.local(tsn))):
                                    okk = True
                    tot_ok += okk
                    r2.check(okk, "total = rpc_index + 1", "total|formula", "NODES responses announce total = %s" % fmt_short(f["total"]), loc=cb.loc(s.line))
    if not tot_ok:
        r2.fail("total|site", "the construction of multi-packet NODES responses was not found")
    # ---- R3
    mps = facts.const_value("crate::packet::MAX_PACKET_SIZE")
    ivl = facts.const_value("crate::packet::IV_LENGTH")
    shl = facts.const_value("crate::packet::STATIC_HEADER_LENGTH")
    overhead = ivl + shl + 32 + 16 + 17
    r3.note("MAX_PACKET_SIZE=%d IV_LENGTH=%d STATIC_HEADER_LENGTH=%d overhead=%d" % (mps, ivl, shl, overhead))

    def atom(x):
        if x[0] == "call" and short(x[1]).endswith("Vec::len") and "alloy_rlp::encode" in fmt_short(x):
            return "entry"
        if x[0] == "phi":
            return "acc"
        return None
    # Inductive argument, independent of how the loop body is arranged. Invariant at the loop head: the accumulator A equals the summed record
    # sizes of the packet that is currently being filled. One iteration is executed symbolically (A, and E = size of this record); for every
    # path: (i) the record is placed exactly once; (ii) if it joins the current packet, the path's conditions entail A + E + overhead <=
    # MAX_PACKET_SIZE and the accumulator becomes A + E; (iii) if it goes into a newly opened packet, the accumulator becomes E.
    from aff import Fact, infeasible
    Eset = set()
    for l in range(len(b.locals)):
        try:
            if atom(p.local(l)) == "entry" or (p.local(l)[0] == "call" and atom(p.local(l)) == "entry"):
                Eset.add(l)
        except Exception:
            pass
    appends = [bi for bi, m, src, t in writes_into(b, p, tsn, follow_moves=True) if m == "push" and bi in inloop and bi not in inside]
    # the loop item: the named local bound to `(iter.next() as Some).0`; it is "placed" where it is moved (into a push, or into the
    # array behind `vec![enr]`)
    items = []
    for l in range(len(b.locals)):
        if not b.local_name(l):
            continue
        e_ = p.local(l)
        if e_[0] == "field" and e_[1][0] == "as" and e_[1][2] == "Some" and e_[1][1][0] == "call" and re.search(r"Iterator>::next$", short(e_[1][1][1])) and \
                any(blk_ in inloop for _lhs, _k, _pl, blk_, _ln in p.defs.get(l, ())):
            items.append(l)
    if len(items) != 1:
        raise AnchorError("send_nodes_response: the loop item was not identified (%s)" % items)
    item = items[0]
    moves_item = set()
    for blk in b.blocks:
        if blk.idx not in inloop:
            continue
        ops = [o for s_ in blk.stmts if s_.k == "a" for o in s_.rv.ops] + list(blk.term.args)
        if any(o.kind == "m" and o.place is not None and o.place.is_local() and o.place.local == item for o in ops):
            moves_item.add(blk.idx)
    CMP = {"Lt": "<", "Le": "<=", "Gt": ">", "Ge": ">="}

    def val(env, op):
        c = op.const_int()
        if c is not None:
            return ({}, c)
        pl = op.place
        if pl is None:
            return None
        if pl.is_local():
            if pl.local in env:
                return env[pl.local]
            if pl.local in Eset:
                return ({"E": 1}, 0)
            return None
        if len(pl.proj) == 1 and isinstance(pl.proj[0], tuple) and pl.proj[0][0] == "f" and pl.proj[0][1] == 0 and ("t", pl.local) in env:
            return env[("t", pl.local)]
        return None

    def add(x, y, sign=1):
        if x is None or y is None:
            return None
        d = dict(x[0])
        for k, v in y[0].items():
            d[k] = d.get(k, 0) + sign * v
        return ({k: v for k, v in d.items() if v}, x[1] + sign * y[1])

    def step_block(bidx, env, cons):
        """-> list of (successor, env, constraints)"""
        env = dict(env)
        blk = b.blocks[bidx]
        cmp_of = {}
        for s_ in blk.stmts:
            if s_.k == "dead":
                env.pop(s_.local, None)
                env.pop(("t", s_.local), None)
                continue
            if s_.k != "a" or not s_.lhs.is_local():
                continue
            l, rv = s_.lhs.local, s_.rv
            v = None
            if rv.k == "use":
                v = val(env, rv.ops[0])
            elif rv.k == "cast":
                v = val(env, rv.ops[0])
            elif rv.k == "bin" and rv.j["op"] in ("Add", "AddUnchecked", "Sub", "SubUnchecked"):
                v = add(val(env, rv.ops[0]), val(env, rv.ops[1]), 1 if rv.j["op"].startswith("Add") else -1)
            elif rv.k == "bin" and rv.j["op"] in ("AddWithOverflow", "SubWithOverflow"):
                tv = add(val(env, rv.ops[0]), val(env, rv.ops[1]), 1 if rv.j["op"].startswith("Add") else -1)
                if tv is not None:
                    env[("t", l)] = tv
                else:
                    env.pop(("t", l), None)
                continue
            elif rv.k == "bin" and rv.j["op"] in CMP:
                cmp_of[l] = (CMP[rv.j["op"]], val(env, rv.ops[0]), val(env, rv.ops[1]))
                continue
            if v is None:
                env.pop(l, None)
            else:
                env[l] = v
        t = blk.term
        if t.k == "call" and t.dest is not None and t.dest.is_local():
            env.pop(t.dest.local, None)
        if t.k == "switch" and t.discr.place is not None and t.discr.place.is_local() and t.discr.place.local in cmp_of:
            op, x, y = cmp_of[t.discr.place.local]
            if x is not None and y is not None:
                f_t = [tb for v_, tb in t.vals if v_ == 0]
                out = []
                for s_ in t.succs():
                    holds = s_ not in f_t
                    # x op y (holds) or its negation, as `form <= 0`
                    o = op if holds else {"<": ">=", "<=": ">", ">": "<=", ">=": "<"}[op]
                    d = add(x, y, -1)            # x - y
                    if o == "<":
                        c_ = (d[0], d[1] + 1)                                   # x - y + 1 <= 0
                    elif o == "<=":
                        c_ = d
                    elif o == ">":
                        c_ = ({k: -v for k, v in d[0].items()}, -d[1] + 1)      # y - x + 1 <= 0
                    else:
                        c_ = ({k: -v for k, v in d[0].items()}, -d[1])
                    out.append((s_, env, cons + ((tuple(sorted(c_[0].items())), c_[1]),)))
                return out
        return [(s_, env, cons) for s_ in t.succs()]

    # `to_send_nodes.last_mut()` is never None: the vector starts with one packet and is only ever pushed to
    nonempty_edges = set()
    tal = aliases_of(b, tsn)
    shrinks = [bi for bi, t in b.calls() if t.args and t.args[0].place is not None and t.args[0].place.local in tal and
               callee_matches(t, r"Vec::<.*>::(pop|clear|truncate|remove|swap_remove|drain|retain|retain_mut|split_off|dedup\w*|set_len)$",
                              r"Vec::(pop|clear|truncate|remove|swap_remove|drain|retain|retain_mut|split_off|dedup\w*|set_len)$", r"mem::(take|replace|swap)$")]
    if len(before) == 1 and not shrinks:
        for sbi, st, se in g.switches():
            if se[0] == "discr" and se[1][0] == "call" and re.search(r"slice::<impl \[T\]>::(last_mut|last|first|first_mut)$|::(last_mut|last)$", se[1][1]) and se[1][2] and \
                    set(roots(se[1][2][0])) & set(roots(p.local(tsn))):
                some = {tb for v, tb in st.vals if v == 1}
                nonempty_edges |= {(sbi, tb) for tb in st.succs() if tb not in some}
    findings = set()
    seen = set()
    work = [(H, {acc: ({"A": 1}, 0)}, (), False, 0, True)]     # block, env, constraints, opened, placed, first
    n_paths = 0
    while work and len(seen) < 20000:
        bidx, env, cons, opened, placed, first = work.pop()
        if bidx == H and not first:
            n_paths += 1
            a_after = env.get(acc)
            if placed != 1:
                findings.add("the record is placed %d times on a path" % placed)
            elif opened:
                if a_after != ({"E": 1}, 0):
                    findings.add("after opening a new packet for the record the accumulator is %s instead of the record's size" % (a_after,))
            else:
                if a_after != ({"A": 1, "E": 1}, 0):
                    findings.add("after adding the record to the current packet the accumulator is %s instead of A + E" % (a_after,))
                facts_ = [Fact(dict(c0), c1) for c0, c1 in cons] + [Fact({"A": -1}, 0), Fact({"E": -1}, 0)]
                neg = Fact({"A": -1, "E": -1}, mps - overhead + 1)       # A + E >= MAX - overhead + 1
                if not infeasible(facts_ + [neg]):
                    findings.add("a record can join the current packet on a path whose conditions do not entail A + E + %d <= %d" % (overhead, mps))
            continue
        if bidx not in inloop:
            continue
        key = (bidx, tuple(sorted((str(k), str(v)) for k, v in env.items())), cons, opened, placed)
        if key in seen:
            continue
        seen.add(key)
        o2, p2 = opened, placed
        if bidx in inside:
            o2 = True
        if bidx in moves_item:
            p2 += 1
        for s_, e2, c2 in step_block(bidx, env, cons):
            if (bidx, s_) in nonempty_edges:
                continue
            work.append((s_, e2, c2, o2, p2, False))
    r3.check(n_paths > 0 and not findings, "inductive size bound: on every path of one loop iteration the record is placed once; joining the current packet implies "
             "A + E + %d <= %d and acc = A + E; a new packet starts with acc = E (%d paths)" % (overhead, mps, n_paths), "size|accumulator",
             "the split loop does not keep every NODES packet within the datagram limit: %s" % sorted(findings), loc=b.loc(b.line))
    r3.check(n_paths > 0 and not any("entail" in f for f in findings), "a record joins the current packet only when it fits", "size|append-guard",
             "a record can be appended to the current packet without a size test that bounds the packet", loc=b.loc(b.line))
    # the accumulator starts at zero with the first (empty) packet
    init_bad = []
    for blk in b.blocks:
        for s_ in blk.stmts:
            if s_.k == "a" and s_.lhs.is_local() and s_.lhs.local == acc and blk.idx in b.live_blocks() and blk.idx not in inloop:
                if linear(p.rvalue(s_.rv, blk.idx), atom) != ({}, 0):
                    init_bad.append(fmt_short(p.rvalue(s_.rv, blk.idx)))
    r3.check(not init_bad, "the accumulator is 0 when the loop starts", "size|bound", "the size accumulator is initialised to %s" % init_bad, loc=b.loc(b.line))
    # default max_nodes_response
    cb = facts.one(r"crate::config::ConfigBuilder::new")
    r3.analysed(cb)
    cp = Prov(cb, facts)
    dflt = None
    for blk in cb.blocks:
        for s in blk.stmts:
            if s.k == "a" and s.rv.k == "agg" and s.rv.j.get("def") == "crate::config::Config":
                f = dict(zip(s.rv.j["fields"], s.rv.ops))
                dflt = f["max_nodes_response"].const_int()
    r3.check(dflt is not None and dflt + 1 <= 127, "default max_nodes_response = %s keeps `total` below 128 (one RLP byte)" % dflt, "size|default-cap",
             "the default max_nodes_response (%s) allows more than 127 packets" % dflt, loc=cb.loc(cb.line))
    return r2, r3


def r4(ctx):
    facts = ctx.facts
    rule = Rule("C14.R4", "PING from a non-zero port is answered with PONG{request id, local seq, observed ip and port} to the requester", floor=3,
                engine="A-prov + A-dom")
    b = facts.one(re.escape(SV) + "handle_rpc_request")
    rule.analysed(b)
    p = Prov(b, facts)
    g = Guards(b, p, facts)
    pong = None
    for blk in b.blocks:
        for s in blk.stmts:
            if s.k == "a" and s.rv.k == "agg" and s.rv.j.get("variant") == "Pong" and s.rv.j.get("def") == "crate::rpc::ResponseBody" and blk.idx in b.live_blocks():
                pong = (blk.idx, s)
    if pong is None:
        raise AnchorError("handle_rpc_request: PONG construction not found")
    bi, s = pong
    f = dict(zip(s.rv.j["fields"], [p.operand(o) for o in s.rv.ops]))
    ip, port, seq = fmt_short(f["ip"]), fmt_short(f["port"]), fmt_short(f["enr_seq"])
    rule.check(ip == "SocketAddr::ip(node_address.socket_addr)" and "SocketAddr::port(node_address.socket_addr)" in port and
               seq == "Enr::seq(RwLock::read(self.local_enr))", "Pong{enr_seq: local_enr.read().seq(), ip/port: observed source}", "pong|fields",
               "the PONG carries (seq %s, ip %s, port %s)" % (seq, ip, port), loc=b.loc(s.line))
    # the response wraps it with the request id and goes to node_address
    sends = []
    for sbi, t in b.calls():
        if callee_matches(t, r"mpsc::UnboundedSender::<.*>::send$", r"UnboundedSender::send$"):
            e = p.operand(t.args[1])
            if any(x[0] == "agg" and x[1].endswith("ResponseBody::Pong") for x in walk(e)):
                sends.append((sbi, t, e))
    ok = len(sends) == 1
    if ok:
        sbi, t, e = sends[0]
        hr = [x for x in walk(e) if x[0] == "agg" and x[1].endswith("HandlerIn::Response")]
        rs = [x for x in walk(e) if x[0] == "agg" and x[1].endswith("rpc::Response::Response")]
        ok = bool(hr) and bool(rs) and fmt_short(dict(hr[0][2])["0"]) == "node_address" and fmt_short(dict(rs[0][2])["id"]) == "req.id"
    rule.check(ok, "the PONG is sent as HandlerIn::Response(node_address, Response{id: req.id, ..})", "pong|send", "the PONG is not sent to the requester under the request's id", loc=b.loc(s.line))
    # every path of the Ping arm on the non-zero-port edge reaches the send
    ping_edges = []
    for sbi, t, e in g.switches():
        if e[0] == "discr" and fmt_short(e[1]) == "req.body":
            names, _ = g.variant_names(sbi)
            ping_edges += [tb for v, tb in t.vals if names.get(v) == "Ping"]
    zero_port = []
    for sbi, t, e in g.switches():
        if e[0] == "discr" and "SocketAddr::port(node_address.socket_addr)" in fmt_short(e[1]) and "try_into" in fmt(e[1]).lower():
            names, _ = g.variant_names(sbi)
            zero_port += [(sbi, tb) for v, tb in t.vals if names.get(v) == "Err"]
            if not [v for v, tb in t.vals if names.get(v) == "Err"]:
                zero_port.append((sbi, t.otherwise))
    okk = bool(ping_edges) and bool(sends) and bool(zero_port)
    for pe in ping_edges:
        r = b.reachable(pe, removed_blocks=[x[0] for x in sends], removed_edges=zero_port)
        if any(x in r for x in b.return_blocks()):
            okk = False
    rule.check(okk, "every path of the Ping arm with a non-zero source port reaches the PONG send", "pong|always",
               "a PING from a non-zero source port can go unanswered", loc=b.loc(b.line))
    return rule


def r5(ctx):
    """'at most max_nodes_response records' rests on the table query's cap (C08.R3's cap obligations), re-evaluated here"""
    import c08
    rule = Rule("C14.R5", "the table query that feeds the answer is capped: the cap is max_nodes and is tested after every single node", floor=2,
                engine="A-path (obligations shared with C08.R3)")
    sub = c08.r3(ctx)
    sub.finish()
    rule.functions |= sub.functions
    for o in sub.obligations:
        if re.search("cap|max_nodes", o["site"]) and o["verdict"] == "discharged":
            rule.ok("[%s] %s" % (o["rule"], o["site"]), o.get("detail", ""))
    for v in sub.violations:
        if "cap" in v.key or v.key in ("anchor", "floor"):
            rule.fail("%s|%s" % (v.rule, v.key), v.msg, loc=v.loc, site="[%s] %s" % (v.rule, v.key), path=v.path)
    return rule


def run(ctx):
    G = lambda l, f, *a: guarded("C14." + l, f, ctx, *a)
    return G("R1", r1) + G("R2-R3", r2_r3) + G("R4", r4) + G("R5", r5)
