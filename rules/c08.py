"""C08 — Closest-node and distance lookups are exact."""
import re

from analysis import (Prov, Guards, fmt, fmt_short, walk, roots, short, comparison, find_calls, callee_matches,
                      must_pass, path_to, describe_path, linear, normalised_cmp, const_int_of, cmp_intervals, edge_label, canon, closures_of, closure_return_in_caller_terms, flag_cases)
from facts import AnchorError, strip_closure
from harness import Rule, guarded

PID = "C08"
EXPLANATION = (
    "Structural rules over the MIR of the closest-node iterators. R1: each bucket's entries are sorted with a "
    "comparator that is Ord::cmp(target.distance(a), target.distance(b)) in that argument order before being "
    "yielded. R2 (phase membership and strict progress of the bucket walk): outside the Start state every yielded "
    "bucket index is justified by the distance bit of that very index with the phase's polarity - it comes from "
    "next_in (closure yields i only on bit(i) = true, range 0..i exclusive) or next_out (only on bit(i) = false, "
    "range i+1..NUM_BUCKETS), or is a constant guarded by the bit test of that constant with the polarity of the "
    "state entered, or is returned by a recursive next() after the state was advanced; the current index is never "
    "re-yielded. R3: the three places relating a distance to a bucket agree as affine forms in leading_zeros "
    "(BucketIndex::new = NUM_BUCKETS - lz - 1, log2_distance = 256 - lz with None at 0, nodes_by_distances indexes "
    "d - 1 for d admitted by 0 < d <= NUM_BUCKETS) and NUM_BUCKETS = 256. R4: all three closest_* constructors share "
    "ClosestIter over ClosestBucketsIter::new(local_key.distance(target)). An index yielded in ZoomOut whose bit is "
    "set was already yielded by Start/ZoomIn, so a stored node is returned twice.")
EXPLANATION += (" Added while testing: R2 requires every initial state of ClosestBucketsIter to be Start; R3 requires the cap of nodes_by_distances to compare the returned vector's length with max_nodes and to be passed between any two additions; R4 requires apply_pending to dominate the read of a bucket in ClosestIter::next and the predicate flag to be predicate(value) of the node yielded.")
NOT_DECIDED = ["that the concatenation over all buckets equals the sorted full scan (needs the XOR-metric argument)",
               "the cap arithmetic of nodes_by_distances", "match flags of the predicate variant beyond sharing the iterator"]
TRUSTED = ["slice::sort_by sorts by the comparator; U256::bit / leading_zeros (uint crate)"]

KB = "crate::kbucket::"


def r1(ctx):
    facts = ctx.facts
    rule = Rule("C08.R1", "per-bucket sort by distance to the target precedes yielding", floor=2, engine="A-prov + A-dom")
    nx = facts.one(r"<crate::kbucket::ClosestIter<.*> as std::iter::Iterator>::next")
    rule.analysed(nx)
    prov = Prov(nx, facts)
    sorts = [(bi, t) for bi, t in nx.calls() if callee_matches(t, r"slice::<impl \[T\]>::sort(_unstable)?_by$|slice::sort(_unstable)?_by$")]
    # the Some(into_iter(v)) stored into self.iter must be preceded by the sort of the same v
    stores = []
    for blk in nx.blocks:
        if blk.idx not in nx.live_blocks():
            continue
        for s in blk.stmts:
            if s.k == "a" and s.lhs.proj and "iter" in s.lhs.field_names() and s.lhs.local == 1:
                e = prov.rvalue(s.rv, blk.idx)
                if any(x[0] == "call" and short(x[1]).endswith("IntoIterator>::into_iter") for x in walk(e)):
                    stores.append((blk.idx, e))
    if not stores:
        raise AnchorError("ClosestIter::next: the store of the bucket's entries into self.iter was not found")
    for bi, e in stores:
        src = [x for x in walk(e) if x[0] == "call" and short(x[1]).endswith("Fn::call")]
        ok = False
        for sb, st in sorts:
            se = prov.operand(st.args[0])
            if roots(se) & set(roots(src[0])) if src else False:
                ok = must_pass(nx, [bi], via_blocks=[sb])
        rule.check(ok, "entries stored into self.iter have been sorted", "closest|unsorted",
                   "ClosestIter::next yields a bucket's entries without sorting them by distance to the target", loc=nx.loc(nx.line))
    # comparator
    # the closures built in next() (wherever their bodies are filed: the sort may sit in a helper that was inlined)
    cmps = [cb for cb, cp, tc in closures_of(facts, nx)] or facts.find(r"<crate::kbucket::ClosestIter<.*> as std::iter::Iterator>::next::\{closure#\d+\}")
    good = 0
    for cb in cmps:
        if cb.arg_count != 3:
            continue
        rule.analysed(cb)
        p = Prov(cb, facts)
        e = p.local(0)
        okk = False
        if e[0] == "call" and short(e[1]).endswith("Ord>::cmp") and len(e[2]) == 2:
            l, r = e[2]

            def dist_of(x, argi):
                return x[0] == "call" and x[1].endswith("Key::<T>::distance") or x[0] == "call" and short(x[1]).endswith("Key::distance")

            def check(x, argi):
                if not (x[0] == "call" and short(x[1]).endswith("Key::distance") and len(x[2]) == 2):
                    return False
                tgt, other = x[2]
                return fmt_short(tgt).endswith("target") and roots(other) == {("param", argi, cb.local_name(argi) or "arg%d" % argi)}
            okk = check(l, 2) and check(r, 3)
        good += okk
        rule.check(okk, "comparator = cmp(target.distance(a), target.distance(b))", "closest|comparator",
                   "the sort comparator is %s (descending, or not by distance to the target)" % fmt_short(e), loc=cb.loc(cb.line))
    if not cmps:
        rule.fail("closest|unsorted", "ClosestIter::next has no sort comparator: the nodes of a bucket are yielded without being sorted by distance to the target")
    return rule


def bit_test(e):
    """if e is U256::bit(<..>.distance.0, IDX) (possibly negated) return (idx_expr, negated)"""
    neg = False
    while e[0] == "un" and e[1] == "Not":
        e = e[2]
        neg = not neg
    if e[0] == "call" and short(e[1]).endswith("U256::bit") and len(e[2]) == 2:
        if "distance" in fmt_short(e[2][0]):
            return e[2][1], neg
    return None


def closure_polarity(facts, fn):
    """the find_map closure of next_in / next_out: polarity (True/False) of bit(i) on which Some(BucketIndex(i)) is produced"""
    cb = facts.one(re.escape(fn) + r"::\{closure#0\}")
    p = Prov(cb, facts)
    g = Guards(cb, p, facts)
    somes = [blk for lhs, kind, payload, blk, _l in p.defs.get(0, ()) if kind == "rv" and payload.k == "agg" and payload.j.get("variant") == "Some"]
    pol = None
    ok_payload = True
    for lhs, kind, payload, blk, _l in p.defs.get(0, ()):
        if kind == "rv" and payload.k == "agg" and payload.j.get("variant") == "Some":
            v = p.operand(payload.ops[0])
            rs = roots(v)
            # BucketIndex(i) with i the closure's own argument
            for x in rs:
                if not (x[0] == "agg" and x[1].endswith("BucketIndex::BucketIndex") and roots(x[2][0][1]) == {("param", 2, cb.local_name(2) or "arg2")}):
                    ok_payload = False
    for bi, t, e in g.switches():
        bt = bit_test(e)
        if bt is None:
            continue
        idx, neg = bt
        if roots(idx) != {("param", 2, cb.local_name(2) or "arg2")}:
            continue
        f, tr = g.bool_edges(bi)
        # which edge reaches the Some sites exclusively?
        r_true = cb.reachable(tr)
        r_false = cb.reachable(f)
        t_has = any(s in r_true for s in somes)
        f_has = any(s in r_false for s in somes)
        if t_has and not f_has:
            pol = (not neg)
        elif f_has and not t_has:
            pol = neg
    if not somes:
        # `range.find(|&i| [!]distance.bit(i)).map(BucketIndex)`: a predicate closure; the index found is wrapped outside
        ret = canon(p.local(0))
        bt = bit_test(ret)
        ob = facts.one(re.escape(fn))
        oe = Prov(ob, facts).local(0)
        wrapped = any(x[0] == "call" and short(x[1]).endswith("Option::map") and len(x[2]) == 2 and x[2][1][0] == "const" and "BucketIndex" in str(x[2][1][1]) and
                      any(y[0] == "call" and re.search(r"Iterator>?::find$", short(y[1])) for y in walk(x[2][0])) for x in walk(oe))
        if bt is not None and set(roots(bt[0])) == {("param", 2, cb.local_name(2) or "arg2")} and wrapped:
            return cb, (not bt[1]), True
    return cb, pol, ok_payload and bool(somes)


def range_of(facts, fn):
    """(start expr, end expr, reversed?) of the range scanned by next_in / next_out"""
    b = facts.one(re.escape(fn))
    p = Prov(b, facts)
    e = p.local(0)
    rng = [x for x in walk(e) if x[0] == "agg" and x[1].endswith("ops::Range::Range")]
    incl = [x for x in walk(e) if x[0] in ("agg", "call") and "RangeInclusive" in x[1]]
    rev = any(x[0] == "call" and short(x[1]).endswith("Iterator::rev") for x in walk(e))
    if not rng or incl:
        return b, None, None, rev
    f = dict(rng[0][2])
    return b, f["start"], f["end"], rev


def r2(ctx):
    facts = ctx.facts
    rule = Rule("C08.R2", "bucket walk: every yielded index outside Start is justified by its own distance bit with the "
                "phase's polarity; scanned ranges exclude the current index", floor=6, engine="A-dom + A-prov + A-aff")
    nin, nout = KB + "ClosestBucketsIter::next_in", KB + "ClosestBucketsIter::next_out"
    cb_in, pol_in, pay_in = closure_polarity(facts, nin)
    cb_out, pol_out, pay_out = closure_polarity(facts, nout)
    rule.analysed(cb_in, cb_out)
    rule.check(pol_in is True and pay_in, "next_in yields i only where bit(i) is set", "next_in|polarity",
               "next_in's closure does not yield exactly the indices whose distance bit is set", loc=cb_in.loc(cb_in.line))
    rule.check(pol_out is False and pay_out, "next_out yields i only where bit(i) is clear", "next_out|polarity",
               "next_out's closure does not yield exactly the indices whose distance bit is clear", loc=cb_out.loc(cb_out.line))

    def geti(e):
        # i.get() of the parameter
        return linear(e, lambda x: "i" if (x[0] == "call" and x[1].endswith("BucketIndex::get") and roots(x[2][0]) == {("param", 2, "i")}) else None)
    b_in, s_in, e_in, rev_in = range_of(facts, nin)
    b_out, s_out, e_out, rev_out = range_of(facts, nout)
    rule.analysed(b_in, b_out)
    ok = s_in is not None and geti(s_in) == ({}, 0) and geti(e_in) == ({"i": 1}, 0) and rev_in
    rule.check(ok, "next_in scans (0..i) in descending order (exclusive of the current index)", "next_in|range",
               "next_in does not scan exactly the indices below the current one, closest first", loc=b_in.loc(b_in.line))
    nb = facts.const_value(KB + "NUM_BUCKETS")
    ok = s_out is not None and geti(s_out) == ({"i": 1}, 1) and geti(e_out) == ({}, nb) and not rev_out
    rule.check(ok, "next_out scans (i+1..NUM_BUCKETS) ascending (exclusive of the current index)", "next_out|range",
               "next_out does not scan exactly the indices above the current one", loc=b_out.loc(b_out.line))
    # the state machine
    nx = facts.one(r"<crate::kbucket::ClosestBucketsIter as std::iter::Iterator>::next")
    rule.analysed(nx)
    prov = Prov(nx, facts)
    g = Guards(nx, prov, facts)
    # arms: switch on discriminant(self.state)
    arm_entry = {}
    for bi, t, e in g.switches():
        if e[0] == "discr" and fmt_short(e[1]) == "self.state":
            names, _ = g.variant_names(bi)
            for v, tb in t.vals:
                arm_entry[names.get(v, str(v))] = (bi, tb)
    for need in ("Start", "ZoomIn", "ZoomOut"):
        if need not in arm_entry:
            raise AnchorError("ClosestBucketsIter::next: arm %s not found" % need)
    arm_blocks = {}
    for name, (sb, tb) in arm_entry.items():
        others = [x for n, (_, x) in arm_entry.items() if n != name]
        arm_blocks[name] = nx.reachable(tb) - set().union(*[set()])
    # state assignments per block
    state_set = {}
    for blk in nx.blocks:
        for s in blk.stmts:
            if s.k == "a" and s.lhs.local == 1 and "state" in s.lhs.field_names():
                e = prov.rvalue(s.rv, blk.idx)
                for x in roots(e):
                    if x[0] == "agg" and "ClosestBucketsIterState::" in x[1]:
                        state_set[blk.idx] = x[1].split("::")[-1]
    sites = 0
    for lhs, kind, payload, blk, dline in prov.defs.get(0, ()):
        if blk not in nx.live_blocks():
            continue
        arm = [n for n, (sb, tb) in arm_entry.items() if blk in nx.reachable(tb)]
        # blocks after the arms join are reachable from every arm; a definition site belongs to exactly one
        arm = [n for n in arm if must_pass(nx, [blk], via_edges=[arm_entry[n]])]
        arm = arm[0] if len(arm) == 1 else "?"
        if kind == "rv" and payload.k == "agg" and payload.j.get("variant") == "None":
            continue
        if arm == "Start":
            continue
        sites += 1
        loc = nx.loc(dline)
        if kind == "call" and payload.callee() == nx.path:
            rule.ok("%s: result of the recursive next() after the state was advanced" % arm)
            continue
        if kind == "rv" and payload.k == "use" and payload.ops and payload.ops[0].place is not None:
            # the scanner's answer handed on whole (`let next = self.next_out(i); self.state = match next {..}; next`)
            whole = roots(prov.operand(payload.ops[0]))
            if whole and all(x[0] == "call" and x[1] in (nin, nout) for x in whole):
                want = nin if arm == "ZoomIn" else nout
                for x in whole:
                    rule.check(x[1] == want, "%s yields the answer of %s" % (arm, x[1].split("::")[-1]),
                               "%s|wrong-scanner" % arm, "the %s arm yields an index found by %s" % (arm, x[1].split("::")[-1]), loc=loc)
                continue
        if not (kind == "rv" and payload.k == "agg" and payload.j.get("variant") == "Some"):
            rule.fail("%s|unrecognised-yield" % arm, "unrecognised yield in the %s arm" % arm, loc=loc)
            continue
        v = prov.operand(payload.ops[0])
        for x in roots(v):
            s_ = fmt_short(x)
            if x[0] == "field" and x[2] == "0" and x[1][0] == "as" and x[1][1][0] == "call" and x[1][1][1] in (nin, nout):
                which = x[1][1][1]
                want = nin if arm == "ZoomIn" else nout
                rule.check(which == want, "%s yields the index found by %s" % (arm, which.split("::")[-1]),
                           "%s|wrong-scanner" % arm, "the %s arm yields an index found by %s" % (arm, which.split("::")[-1]), loc=loc)
            elif x[0] == "agg" and x[1].endswith("BucketIndex::BucketIndex"):
                c = const_int_of(x[2][0][1])
                # which state is entered on this path?  (assignment in the same block or a dominating one)
                cands = [b_ for b_ in state_set if b_ == blk or must_pass(nx, [blk], via_blocks=[b_])]
                last = [c_ for c_ in cands if not any(o != c_ and o in nx.reachable(c_) for o in cands)]
                entered = state_set.get(last[0]) if len(last) == 1 else None
                want_bit = {"ZoomIn": True, "ZoomOut": False}.get(entered)
                pass_edges = []
                for bi, t, e in g.switches():
                    f, tr = g.bool_edges(bi)
                    # the test itself, or a flag it was stored in (`let already = i.get() == 0 || bit(0); if already {..} else {..}`)
                    for x, on_true, val in flag_cases(e):
                        bt = bit_test(x)
                        if bt is None:
                            continue
                        idx, neg = bt
                        if const_int_of(idx) != c or c is None:
                            continue
                        if (val != neg) == bool(want_bit):
                            pass_edges.append((bi, tr if on_true else f))
                r = nx.reachable(0, removed_edges=pass_edges)
                guarded = bool(pass_edges) and blk not in r and want_bit is not None
                if guarded:
                    rule.ok("%s yields constant bucket %s past bit(%s) == %s" % (arm, c, c, want_bit))
                else:
                    rule.fail("%s|constant-index-%s|unjustified" % (arm, c),
                              "the %s arm yields the literal bucket %s while entering %s without consulting bit %s of the "
                              "distance: for a target whose distance has that bit set (or equals 1) the bucket was already "
                              "yielded by Start/ZoomIn and its nodes are returned twice" % (arm, c, entered, c),
                              loc=loc, site="%s yields BucketIndex(%s)" % (arm, c))
            elif "self.state" in s_:
                rule.fail("%s|re-yield-current" % arm, "the %s arm yields the current index again (%s)" % (arm, s_), loc=loc)
            else:
                rule.fail("%s|unjustified:%s" % (arm, s_), "the %s arm yields %s, which is not justified by a distance-bit test" % (arm, s_), loc=loc)
    if sites < 3:
        rule.fail("yields|floor", "only %d yield sites found outside Start (3 confirmed by hand)" % sites)
    # state progression: each phase hands over exactly the index it has just reached, and zooming out starts from the bottom
    n_assign = 0
    for blk in nx.blocks:
        if blk.idx not in nx.live_blocks():
            continue
        for s in blk.stmts:
            if not (s.k == "a" and s.lhs.local == 1 and "state" in s.lhs.field_names()):
                continue
            arm = [n for n in arm_entry if must_pass(nx, [blk.idx], via_edges=[arm_entry[n]])]
            arm = arm[0] if len(arm) == 1 else "?"
            e = prov.rvalue(s.rv, blk.idx)
            for x in roots(e):
                if not (x[0] == "agg" and "ClosestBucketsIterState::" in x[1]):
                    rule.fail("%s|state-unrecognised" % arm, "unrecognised state assignment in the %s arm: %s" % (arm, fmt_short(x)), loc=nx.loc(s.line))
                    continue
                new_state = x[1].split("::")[-1]
                n_assign += 1
                payload = x[2][0][1] if x[2] else None
                pr = roots(payload) if payload is not None else set()
                ps = sorted(fmt_short(y) for y in pr)

                def from_scan(which):
                    return pr and all(y[0] == "field" and y[2] == "0" and y[1][0] == "as" and y[1][1][0] == "call" and y[1][1][1] == which for y in pr)
                if arm == "Start":
                    okk = new_state == "ZoomIn" and ps == ["self.state.0"]
                    want = "ZoomIn(the start index)"
                elif arm == "ZoomIn" and new_state == "ZoomIn":
                    okk = from_scan(nin)
                    want = "ZoomIn(index found by next_in)"
                elif arm == "ZoomIn" and new_state == "ZoomOut":
                    okk = pr and all(y[0] == "agg" and y[1].endswith("BucketIndex::BucketIndex") and const_int_of(y[2][0][1]) == 0 for y in pr)
                    want = "ZoomOut(BucketIndex(0)): zooming out scans upwards from the bottom bucket"
                elif arm == "ZoomOut" and new_state == "ZoomOut":
                    okk = from_scan(nout)
                    want = "ZoomOut(index found by next_out)"
                elif arm == "ZoomOut" and new_state == "Done":
                    okk = True
                    want = "Done"
                else:
                    okk = False
                    want = "a transition of the Start -> ZoomIn -> ZoomOut -> Done walk"
                rule.check(okk, "%s arm: state := %s(%s)" % (arm, new_state, ", ".join(ps)), "%s|state:=%s" % (arm, new_state),
                           "in the %s arm the iterator continues from %s(%s); expected %s - buckets between would be skipped or repeated" % (
                               arm, new_state, ", ".join(ps), want), loc=nx.loc(s.line))
    if n_assign < 5:
        rule.fail("state|floor", "only %d state assignments found (5 confirmed by hand)" % n_assign)
    # on leaving ZoomIn, bucket 0 is skipped only if it was already visited (current index 0) or its bit is set
    rec = [(bi, t) for bi, t in nx.calls() if t.callee() == nx.path]
    for bi, t in rec:
        visited = []
        for sbi, st, e in g.switches():
            bt = bit_test(e)
            f, tr = g.bool_edges(sbi)
            if bt is not None and const_int_of(bt[0]) == 0:
                visited.append((sbi, f if bt[1] else tr))
            c = comparison(e)
            if c and c[0] in ("==", "!=") and const_int_of(c[2]) == 0 and "BucketIndex::get(self.state.0)" == fmt_short(c[1]):
                visited.append((sbi, tr if c[0] == "==" else f))
        # the two tests kept in a flag (`let already = i.get() == 0 || bit(0); if already { self.next() }`): where the flag is true it is
        # the bit test (which then holds) or a literal `true`, and the literal is assigned only past one of the edges above
        for sbi, st, e in g.switches():
            inner, neg = e, False
            while inner[0] == "un" and inner[1] == "Not":
                inner, neg = inner[2], not neg
            if inner[0] != "phi" or st.discr is None or st.discr.place is None or not st.discr.place.is_local():
                continue
            rest = [a for a in inner[1] if const_int_of(a) not in (0, 1)]
            if not rest or not all(bit_test(a) is not None and const_int_of(bit_test(a)[0]) == 0 and not bit_test(a)[1] for a in rest):
                continue
            locs, true_blocks, okf = [st.discr.place.local], [], True
            for l in locs:
                for lhs, kind, payload, blk, _ln in prov.defs.get(l, ()):
                    if blk not in nx.live_blocks():
                        continue
                    if kind == "rv" and payload.k == "use" and payload.ops and payload.ops[0].place is not None and payload.ops[0].place.is_local():
                        if payload.ops[0].place.local not in locs:
                            locs.append(payload.ops[0].place.local)
                    elif kind == "rv" and payload.k == "use" and payload.ops and payload.ops[0].const_int() == 1:
                        true_blocks.append(blk)
                    elif kind == "rv" and payload.k == "use" and payload.ops and payload.ops[0].const_int() == 0:
                        pass
                    elif kind in ("call", "rv"):
                        pass
                    else:
                        okf = False
            r0 = nx.reachable(arm_entry["ZoomIn"][1], removed_edges=visited)
            if okf and not any(tb in r0 for tb in true_blocks):
                f, tr = g.bool_edges(sbi)
                visited.append((sbi, f if neg else tr))
        r = nx.reachable(arm_entry["ZoomIn"][1], removed_edges=visited)
        rule.check(bool(visited) and bi not in r, "bucket 0 is passed over on leaving ZoomIn only if already visited (index 0) or bit 0 is set",
                   "ZoomIn|skip-bucket-0", "on leaving ZoomIn the iterator can skip bucket 0 although it was not yielded before", loc=nx.loc(t.line))
    # Start yields the index of the target's own bucket: ClosestBucketsIter::new
    new = facts.one(re.escape(KB) + "ClosestBucketsIter::new")
    rule.analysed(new)
    pn = Prov(new, facts)
    e = pn.local(0)
    starts = [x for x in walk(e) if x[0] == "agg" and x[1].endswith("ClosestBucketsIterState::Start")]
    ok = bool(starts)
    # every way of building the iterator begins in Start (any other initial state treats a bucket as already visited and never yields it)
    built = [x for x in walk(e) if x[0] == "agg" and x[1].endswith("ClosestBucketsIter::ClosestBucketsIter")]
    for bx in built:
        for st0 in roots(dict(bx[2]).get("state", ("unknown", ""))):
            if not (st0[0] == "agg" and st0[1].endswith("ClosestBucketsIterState::Start")):
                ok = False
    ok = ok and bool(built)
    for st in starts:
        rs = set(roots(st[2][0][1]))
        # `BucketIndex::new(&distance).unwrap_or(BucketIndex(0))` is the match written in one line
        for x in list(rs):
            if x[0] == "call" and re.search(r"Option::unwrap_or$", short(x[1])) and len(x[2]) == 2:
                rs.discard(x)
                rs |= {("call", "BucketIndex::new(distance)-payload", x[2][0])} if fmt_short(x[2][0]).startswith("BucketIndex::new(distance)") else {x}
                rs |= set(roots(x[2][1]))
        for x in rs:
            if x[0] == "call" and x[1] == "BucketIndex::new(distance)-payload":
                continue
            s_ = fmt_short(x)
            if not (s_.startswith("BucketIndex::new(distance)") or (x[0] == "agg" and const_int_of(x[2][0][1]) == 0)):
                ok = False
    rule.check(ok, "Start = BucketIndex::new(distance), or bucket 0 for the local key itself", "new|start",
               "ClosestBucketsIter::new does not start at the bucket of the target's distance", loc=new.loc(new.line))
    return rule


def r3(ctx):
    facts = ctx.facts
    rule = Rule("C08.R3", "one distance<->bucket mapping: BucketIndex::new, Key::log2_distance and nodes_by_distances agree", floor=4,
                engine="A-sib + A-aff")
    nb = facts.const_value(KB + "NUM_BUCKETS")
    rule.check(nb == 256, "NUM_BUCKETS = 256", "const|NUM_BUCKETS", "NUM_BUCKETS evaluates to %d" % nb)

    def lz(x):
        if x[0] == "call" and short(x[1]).endswith("U256::leading_zeros"):
            return "lz"
        return None
    bn = facts.one(re.escape(KB) + "BucketIndex::new")
    rule.analysed(bn)
    p = Prov(bn, facts)
    e = p.local(0)
    cs = [x for x in walk(e) if x[0] == "call" and short(x[1]).endswith("checked_sub")]
    ok = False
    if cs and short(e[1]).endswith("Option::map"):
        a = linear(cs[0][2][0], lz)
        b = linear(cs[0][2][1], lz)
        ok = a == ({"lz": -1}, nb) and b == ({}, 1)
    def match_form(body, prov, payload_form, zero_form, unwrap=lambda x: x):
        """`match v { 0 => None, n => Some(f(n)) }`: every Some carries `payload_form` (affine in lz), a None exists, and the Some sites are not
        reachable over the zero edge of a switch on a value with the affine form `zero_form`"""
        g_ = Guards(body, prov, facts)
        somes, nones = [], []
        for lhs, kind, payload, blk, _l in prov.defs.get(0, ()):
            if kind == "rv" and payload.k == "agg" and blk in body.live_blocks():
                if payload.j.get("variant") == "Some":
                    somes.append((blk, unwrap(canon(prov.operand(payload.ops[0])))))
                elif payload.j.get("variant") == "None":
                    nones.append(blk)
        zero_edges = []
        for bi, t, e in g_.switches():
            if linear(e, lz) == zero_form and e[0] != "discr":
                zero_edges += [(bi, tb) for v, tb in t.vals if int(v) == 0]
            nc = normalised_cmp(e, lz)
            if nc and nc[2] in ("==", "!=") and (nc[0], nc[1]) == zero_form:
                f_, tr_ = g_.bool_edges(bi)
                zero_edges.append((bi, tr_ if nc[2] == "==" else f_))
        return bool(somes) and bool(nones) and bool(zero_edges) and all(linear(v, lz) == payload_form for _, v in somes) and \
            not any(sb in body.reachable(tgt) for _, tgt in zero_edges for sb, _ in somes)
    if not ok:
        unwrap_bi = lambda x: dict(x[2]).get("0", x) if x[0] == "agg" and x[1].endswith("BucketIndex::BucketIndex") else x
        ok = match_form(bn, p, ({"lz": -1}, nb - 1), ({"lz": -1}, nb), unwrap_bi)
    rule.check(ok, "BucketIndex::new(d) = checked_sub(NUM_BUCKETS - leading_zeros(d), 1)", "BucketIndex::new|form",
               "BucketIndex::new is %s" % fmt_short(e), loc=bn.loc(bn.line))
    ld = facts.one(r"crate::kbucket::key::Key::<T>::log2_distance")
    rule.analysed(ld)
    p = Prov(ld, facts)
    g = Guards(ld, p, facts)
    some_ok = False
    for lhs, kind, payload, blk, _l in p.defs.get(0, ()):
        if kind == "rv" and payload.k == "agg" and payload.j.get("variant") == "Some":
            v = linear(p.operand(payload.ops[0]), lz)
            zero_edges = []
            for bi, t, ce in g.switches():
                nc = normalised_cmp(ce, lz)
                if nc and nc[2] in ("==", "!=") and nc[0] == {"lz": -1} and nc[1] == nb:
                    f, tr = g.bool_edges(bi)
                    zero_edges.append((bi, f if nc[2] == "==" else tr))
            r = ld.reachable(0, removed_edges=zero_edges)
            some_ok = v == ({"lz": -1}, nb) and bool(zero_edges) and blk not in r
    if not some_ok:
        some_ok = match_form(ld, p, ({"lz": -1}, nb), ({"lz": -1}, nb))
    if not some_ok:
        # `Some(256 - lz).filter(|&d| d != 0)`
        re_ = canon(p.local(0))
        if re_[0] == "call" and short(re_[1]).endswith("Option::filter") and len(re_[2]) == 2:
            inner = canon(re_[2][0])
            pred = closure_return_in_caller_terms(facts, re_[2][1], [("unknown", "payload")])
            c_ = comparison(pred) if pred is not None else None
            if inner[0] == "agg" and inner[1].endswith("Option::Some") and linear(dict(inner[2])["0"], lz) == ({"lz": -1}, nb) and c_ and c_[0] == "!=" and \
                    {fmt_short(c_[1]), fmt_short(c_[2])} >= {"0"} and any(x == ("unknown", "payload") for x in (canon(c_[1]), canon(c_[2]))):
                some_ok = True
    rule.check(some_ok, "log2_distance = Some(256 - leading_zeros) except None at 0", "log2_distance|form",
               "Key::log2_distance no longer equals 256 - leading_zeros(xor) with None for distance 0", loc=ld.loc(ld.line))
    # nodes_by_distances
    nd = facts.one(r"crate::kbucket::KBucketsTable::<TNodeId, TVal>::nodes_by_distances")
    rule.analysed(nd)
    p = Prov(nd, facts)
    idx_calls = [(bi, t) for bi, t in nd.calls() if callee_matches(t, r"ops::Index(Mut)?>::index(_mut)?$") and fmt_short(p.operand(t.args[0])).endswith("self.buckets")]
    if len(idx_calls) < 2:
        raise AnchorError("nodes_by_distances: bucket indexing not found")
    for bi, t in idx_calls:
        ie = p.operand(t.args[1])

        def datom(x):
            if x[0] == "field" and x[2] == "0" and x[1][0] == "as" and x[1][1][0] == "call" and short(x[1][1][1]).endswith("Iterator>::next"):
                return "d"
            return None
        lf = linear(ie, datom)
        if lf == ({"d": 1}, 0):
            # the distances were turned into indices up front: `.map(|d| (d - 1) as usize)` over the filtered distances
            maps = [x for x in walk(ie) if x[0] == "call" and re.search(r"Iterator>?::map$", short(x[1])) and len(x[2]) == 2]
            if maps:
                mret = closure_return_in_caller_terms(facts, maps[0][2][1], [("unknown", "distance")])
                if mret is not None and linear(mret, lambda x: "d" if x == ("unknown", "distance") else None) == ({"d": 1}, -1):
                    lf = ({"d": 1}, -1)
        rule.check(lf == ({"d": 1}, -1), "nodes_by_distances indexes buckets[d - 1]", "nodes_by_distances|index",
                   "nodes_by_distances indexes buckets[%s]" % fmt_short(ie), loc=nd.loc(t.line))
        src = [x for x in walk(ie) if x[0] == "call" and re.search(r"Iterator::(filter_map|filter)$", short(x[1]))]
        rule.check(bool(src), "the distances iterated come out of the range filter", "nodes_by_distances|source",
                   "nodes_by_distances indexes with unfiltered distances", loc=nd.loc(t.line))
    # the filter: whatever its form (filter_map with comparisons, filter with a range), a distance is admitted only if 1 <= d <= NUM_BUCKETS
    pnd = Prov(nd, facts)
    clos = []
    clo_exprs = {}
    for bi, t in nd.calls():
        if callee_matches(t, r"Iterator::filter_map$", r"Iterator::filter$") and len(t.args) > 1:
            ce_ = pnd.operand(t.args[1])
            if ce_[0] == "agg" and ":" in ce_[1] and "log2_distances" in fmt_short(pnd.operand(t.args[0])):
                clos.append((short(t.callee() or "").split("::")[-1], facts.bodies.get(ce_[1].split(":", 1)[1])))
                clo_exprs[ce_[1].split(":", 1)[1]] = ce_
    clos = [(k, c) for k, c in clos if c is not None]
    if not clos:
        raise AnchorError("nodes_by_distances: the distance filter closure was not found")
    ok_all = True
    for kind, fc in clos:
        rule.analysed(fc)
        p = Prov(fc, facts)
        g = Guards(fc, p, facts)
        if kind == "filter_map":
            yes = [blk for lhs, k_, payload, blk, _l in p.defs.get(0, ()) if k_ == "rv" and payload.k == "agg" and payload.j.get("variant") == "Some"]
        else:
            yes = [blk for lhs, k_, payload, blk, _l in p.defs.get(0, ()) if not (k_ == "rv" and payload.k == "use" and payload.ops[0].const_int() == 0)]
        lo_edges, hi_edges = [], []

        def darg(x):
            return "d" if x[0] == "param" and x[1] == 2 else None
        for bi, t, ce in g.switches():
            nc = normalised_cmp(ce, darg)
            if not nc or set(nc[0]) != {"d"} or nc[2] in ("==", "!="):
                continue
            ivs = cmp_intervals(nc[0]["d"], nc[1], nc[2])
            f, tr = g.bool_edges(bi)
            for (lo, hi), edge in ((ivs[0], tr), (ivs[1], f)):
                if lo is not None and lo >= 1:
                    lo_edges.append((bi, edge))
                if hi is not None and hi <= nb:
                    hi_edges.append((bi, edge))
        ok = bool(yes) and bool(lo_edges) and bool(hi_edges) and \
            not any(s_ in fc.reachable(0, removed_edges=lo_edges) for s_ in yes) and not any(s_ in fc.reachable(0, removed_edges=hi_edges) for s_ in yes)
        if not ok and kind == "filter" and yes:
            # a predicate whose last conjunct is the returned value itself (`0 < d && d <= N`): that conjunct bounds d where it is true
            ok = True
            for lhs, k_, payload, blk, _l in p.defs.get(0, ()):
                if blk not in yes:
                    continue
                val = p.rvalue(payload, blk) if k_ == "rv" else None
                nc = normalised_cmp(val, darg) if val is not None else None
                lo_v = hi_v = None
                if nc and set(nc[0]) == {"d"} and nc[2] not in ("==", "!="):
                    ivs = cmp_intervals(nc[0]["d"], nc[1], nc[2])
                    lo_v, hi_v = ivs[0]
                lo_ok = (lo_v is not None and lo_v >= 1) or (bool(lo_edges) and blk not in fc.reachable(0, removed_edges=lo_edges))
                hi_ok = (hi_v is not None and hi_v <= nb) or (bool(hi_edges) and blk not in fc.reachable(0, removed_edges=hi_edges))
                ok = ok and lo_ok and hi_ok
        if not ok:
            # `(1..=NUM_BUCKETS).contains(d)` as the whole predicate
            rv = p.local(0)
            if fc.path in clo_exprs:
                # captured bounds (`let max = NUM_BUCKETS as u64; .. (1..=max).contains(d)`) are read in the caller's terms
                rv2 = closure_return_in_caller_terms(facts, clo_exprs[fc.path], [("param", 2, fc.local_name(2) or "d")])
                if rv2 is not None:
                    rv = rv2
            alts = rv[1] if rv[0] == "phi" else (rv,)
            alts = [a for a in alts if const_int_of(a) != 0]
            def is_range_test(a):
                if not (a[0] == "call" and re.search(r"RangeInclusive(<.*>)?::contains$|ops::RangeInclusive::contains$", short(a[1])) and len(a[2]) == 2):
                    return False
                rng = [x for x in walk(a[2][0]) if x[0] == "call" and short(x[1]).endswith("RangeInclusive::new")]
                if not rng:
                    return False
                lo_, hi_ = const_int_of(rng[0][2][0]), const_int_of(rng[0][2][1])
                if hi_ is None:
                    lfh = linear(rng[0][2][1])
                    hi_ = lfh[1] if lfh is not None and not lfh[0] else None
                    if hi_ is None and "NUM_BUCKETS" in fmt(rng[0][2][1]):
                        hi_ = nb
                return lo_ is not None and lo_ >= 1 and hi_ is not None and hi_ <= nb and any(x[0] == "param" and x[1] == 2 for x in walk(a[2][1]))
            ok = bool(alts) and all(is_range_test(a) for a in alts)
        ok_all = ok_all and ok
    rule.check(ok_all, "distances admitted satisfy 1 <= d <= NUM_BUCKETS (so d - 1 indexes a bucket)", "nodes_by_distances|filter",
               "the distance filter of nodes_by_distances admits a distance outside 1..NUM_BUCKETS", loc=nd.loc(nd.line))
    # the cap: the only early exit of the collecting loop compares the length of the vector being returned with max_nodes
    p = pnd
    g = Guards(nd, p, facts)
    ret_vecs = set()
    for blk in nd.blocks:
        for s_ in blk.stmts:
            if s_.k == "a" and s_.lhs.is_local() and s_.lhs.local == 0 and s_.rv.k == "use" and s_.rv.ops[0].place is not None and blk.idx in nd.live_blocks():
                ret_vecs.add(s_.rv.ops[0].place.local)
    heads = __import__("c13").loop_heads(nd)
    mx = ("param", 3, nd.local_name(3) or "max_nodes")
    for bi, t, e in g.switches():
        c = comparison(e)
        if not c or c[0] not in (">=", ">", "<", "<=") or not any(x == mx for x in (c[1], c[2])):
            continue
        other = c[2] if c[1] == mx else c[1]
        f, tr = g.bool_edges(bi)
        reach_edge = tr if ((c[0] in (">=", ">")) == (c[2] == mx)) else f
        # does this edge leave the function without going round a loop again?
        rr = nd.reachable(reach_edge, removed_blocks=list(heads))
        if not any(x in rr for x in nd.return_blocks()):
            continue
        # (pushes are in-place, so the vector's provenance is its creation site: the same `Vec::new()` call as the returned local's)
        is_len = other[0] == "call" and short(other[1]).endswith("Vec::len") and any(roots(other[2][0]) == roots(p.local(l)) for l in ret_vecs)
        rule.check(is_len, "the early exit tests the length of the returned vector against max_nodes", "nodes_by_distances|cap",
                   "nodes_by_distances returns early when %s reaches max_nodes, which is not the number of nodes collected: the answer can be cut short (or grow past the cap)"
                   % fmt_short(other), loc=nd.loc(nd.blocks[bi].term.line))
    # ... and it is tested after every single node: between two additions to the returned vector the cap test is passed (a whole bucket
    # appended between two tests can push the answer past max_nodes)
    adds = [(bi, t) for bi, t in nd.calls() if (callee_matches(t, r"vec::Vec::<.*>::(push|extend|append|extend_from_slice|insert)$", r"Vec::(push|extend|append|extend_from_slice|insert)$") or
                                                  re.search(r"Extend(<.*>)?>::(extend|extend_one)$", t.callee() or "")) and
            t.args and any(roots(p.operand(t.args[0])) == roots(p.local(l)) for l in ret_vecs)]
    cap_tests = []
    for bi, t, e in g.switches():
        c = comparison(e)
        if c and any(x == mx for x in (c[1], c[2])):
            other = c[2] if c[1] == mx else c[1]
            if other[0] == "call" and short(other[1]).endswith("Vec::len") and any(roots(other[2][0]) == roots(p.local(l)) for l in ret_vecs):
                cap_tests.append(bi)
    def bounded_extend(t):
        """`v.extend(iter.take(max_nodes - v.len()))` (saturating or plain subtraction, possibly `.max(1)`: the original adds one node before it
        tests the cap): an addition of at most the room that is left"""
        if not re.search(r"::extend$", short(t.callee() or "")) or len(t.args) < 2:
            return False
        takes = [x for x in walk(p.operand(t.args[1])) if x[0] == "call" and re.search(r"Iterator>?::take$", short(x[1])) and len(x[2]) == 2]
        if not takes:
            return False
        n = canon(takes[0][2][1])
        if n[0] == "call" and re.search(r"(Ord>?::max|cmp::max)$", short(n[1])) and len(n[2]) == 2 and const_int_of(n[2][1]) == 1:
            n = canon(n[2][0])
        a = b_ = None
        if n[0] == "call" and re.search(r"::saturating_sub$", short(n[1])) and len(n[2]) == 2:
            a, b_ = canon(n[2][0]), canon(n[2][1])
        elif n[0] == "bin" and n[1] in ("Sub", "SubWithOverflow", "SubUnchecked"):
            a, b_ = canon(n[2]), canon(n[3])
        return a == mx and b_ is not None and b_[0] == "call" and short(b_[1]).endswith("Vec::len") and any(roots(b_[2][0]) == roots(p.local(l)) for l in ret_vecs)
    okcap = bool(adds) and bool(cap_tests) and all(short(t.callee() or "").endswith("::push") or bounded_extend(t) for _, t in adds)
    if okcap:
        for bi, t in adds:
            rr = nd.reachable(t.target, removed_blocks=cap_tests)
            if any(b2 in rr for b2, _ in adds):
                okcap = False
    rule.check(okcap, "nodes are added to the answer one at a time and the cap is tested after each", "nodes_by_distances|cap-per-node",
               "nodes_by_distances can add several nodes (e.g. a whole bucket) between two tests of the cap: the answer can exceed max_nodes", loc=nd.loc(nd.line))
    return rule


def r4(ctx):
    facts = ctx.facts
    rule = Rule("C08.R4", "closest_keys / closest_values / closest_values_predicate share ClosestIter over "
                "ClosestBucketsIter::new(local_key.distance(target))", floor=5, engine="A-who + A-prov + A-dom")
    for name in ("closest_keys", "closest_values", "closest_values_predicate"):
        b = facts.one(r"crate::kbucket::KBucketsTable::<TNodeId, TVal>::" + name)
        rule.analysed(b)
        p = Prov(b, facts)
        e = p.local(0)
        aggs = [x for x in roots(e) if x[0] == "agg" and x[1].endswith("ClosestIter::ClosestIter")]
        ok = len(aggs) == 1
        if ok:
            f = dict(aggs[0][2])
            ok = fmt_short(f["buckets_iter"]) == "ClosestBucketsIter::new(Key::distance(self.local_key, target))" and \
                fmt_short(f["target"]) == "target" and fmt_short(f["table"]) == "self" and \
                all(x[0] == "agg" and x[1].endswith("Option::None") for x in roots(f["iter"]))
        rule.check(ok, "%s builds ClosestIter{target, self, ClosestBucketsIter::new(local_key.distance(target)), None, fmap}" % name,
                   "%s|construction" % name, "%s builds %s" % (name, fmt_short(e)), loc=b.loc(b.line))
    # predicate flag is computed from the same node value
    pcs = facts.find(r"crate::kbucket::KBucketsTable::<TNodeId, TVal>::closest_values_predicate::\{closure#0\}::\{closure#0\}")
    for cb in pcs:
        rule.analysed(cb)
        p = Prov(cb, facts)
        e = p.local(0)
        aggs = [x for x in roots(e) if x[0] == "agg" and x[1].endswith("PredicateValue::PredicateValue")]
        ok = len(aggs) == 1
        if ok:
            f = dict(aggs[0][2])
            pm = f["predicate_match"]
            ok = pm[0] == "call" and len(pm[2]) == 2 and "predicate" in fmt_short(pm[2][0]) and fmt_short(pm[2][1]).endswith(".value}") or \
                (pm[0] == "call" and any(fmt_short(y).endswith(".value") for y in walk(pm)) and "predicate" in fmt_short(pm))
            same = all(fmt_short(y).split(".")[0] == fmt_short(f["key"]).replace("Clone>::clone(", "").split(".")[0] for y in [f["value"]])
        rule.check(ok, "predicate_match = predicate(&n.value) for the same node that is yielded", "predicate|flag",
                   "the predicate flag is computed as %s" % (fmt_short(e)), loc=cb.loc(cb.line))
    if not pcs:
        raise AnchorError("closest_values_predicate: mapping closure not found")
    # a bucket is read only after its pending node, if due, has been applied: what is yielded is the table's content at that moment (and the
    # same as what the next call yields), not a snapshot taken before the table changed
    nx = facts.one(r"<crate::kbucket::ClosestIter<.*> as std::iter::Iterator>::next$")
    rule.analysed(nx)
    maps = [bi for bi, t in nx.calls() if re.search(r"ops::Fn(Mut|Once)?::call(_mut|_once)?$", short(t.callee() or "")) and "fmap" in fmt_short(Prov(nx, facts).operand(t.args[0]))]
    applies = [bi for bi, t in nx.calls() if (t.callee() or "").endswith("KBucket::<TNodeId, TVal>::apply_pending") or short(t.callee() or "").endswith("KBucket::apply_pending")]
    if not maps:
        raise AnchorError("ClosestIter::next: the call of fmap not found")
    rule.check(bool(applies) and all(any(nx.dominates(a, m) for a in applies) for m in maps), "ClosestIter::next applies a due pending node before it reads the bucket",
               "ClosestIter::next|pending-applied-first", "ClosestIter::next reads a bucket (fmap) before apply_pending has run on it: the nodes yielded are a snapshot that "
               "still contains the evicted node and lacks the inserted one", loc=nx.loc(nx.line))
    return rule


def run(ctx):
    G = lambda l, f, *a: guarded("C08." + l, f, ctx, *a)
    return G("R1", r1) + G("R2", r2) + G("R3", r3) + G("R4", r4)
