"""C02 — Delivered messages are authentic and untampered (dataflow-binding clauses; the cipher's strength is assumed)."""
import re

from analysis import (flow_key, Prov, Guards, fmt, fmt_short, walk, roots, short, canon, comparison, callee_matches, must_pass,
                      const_int_of, writes_into, aliases_of, async_param_names, field_writes, structural_eq, slice_span)
from facts import AnchorError, strip_closure
from harness import Rule, guarded
from c01 import bool_pass_edges

PID = "C02"
EXPLANATION = (
    "Provenance / who-may-call / sibling rules over the type-checked MIR. R1: HandlerOut::Request / HandlerOut::Response are constructed "
    "only in handle_message / handle_response; the delivered message is, on every path, exactly the Ok result of Message::decode applied to "
    "the Ok result of Session::decrypt_message(session, nonce, message, aad), never mutated between decoding and delivery; the call chain into "
    "those functions is closed (handle_response <- handle_message <- process_inbound_packet / handle_auth_message <- Handler::start). R2: the "
    "associated data is what was received: Packet::decode builds it from exactly the received IV, the unmasked static header and the unmasked "
    "auth-data (all slices of its `data` parameter), and it flows unchanged through InboundPacket, process_inbound_packet, handle_message / "
    "handle_auth_message, Session::decrypt_message (both key attempts) into the `aad` of the Payload given to Aead::decrypt, together with the "
    "header's message nonce and the datagram's trailing bytes as ciphertext. R3: the session is the one stored under (packet src_id, datagram "
    "source address) and the delivered NodeAddress is that very key. R4: encrypt and decrypt use the same AEAD instantiation and the sender's "
    "associated data is IV || header.encode() of the packet it returns, with the nonce of that header. R5: decryption is attempted only on "
    "inputs of at least the tag length. R6: the session used was keyed by a handshake whose signature was verified under a key bound to the claimed id, "
    "and sessions are created only through that path (C01's rules R1-R3, re-evaluated here because C02's first sentence rests on them).")
EXPLANATION += (' Added while testing (DESIGN 7.4): R3 also requires NodeAddress - the key of the session, request and challenge tables - to compare structurally (derived PartialEq, or a hand-written eq over every field); R6 includes C01.R5 (what verify_authentication_nonce accepts); R7: key material is built only in the two handshake constructors and only moved whole.')
NOT_DECIDED = ["that no corruption of a datagram yields a different delivered message (needs AES-GCM unforgeability and the injectivity of the codecs, C05/C06)",
               "the pairing of the select! branches of RecvHandler::start with their receive buffers beyond buffer distinctness"]
TRUSTED = ["AES-128-GCM is an unforgeable AEAD", "tokio mpsc channels deliver what was sent"]
TECHNIQUE = "static analysis over type-checked MIR: provenance expressions, who-may-call closure, sibling comparison, dominance"

H = "crate::handler::Handler::"
S = "crate::handler::session::Session::"
C = "crate::handler::crypto::"


def F(e):
    # full depth: elisions must never hide a difference
    return fmt(canon(e), -60)


def aggs(body, prov, def_re, variant=None):
    live = body.live_blocks()
    for blk in body.blocks:
        if blk.idx not in live or blk.cleanup:
            continue
        for s in blk.stmts:
            if s.k == "a" and s.rv.k == "agg" and re.search(def_re, str(s.rv.j.get("def"))) and (variant is None or s.rv.j.get("variant") == variant):
                yield blk.idx, s


def callers(facts, name_re):
    out = {}
    for path, b in facts.bodies.items():
        for bi, t in b.calls():
            if any(re.search(name_re, short(n) or "") for n in t.names()):
                out.setdefault(path, []).append(bi)
    return out


def mut_borrowed_locals(body, value_local, before_block):
    """`&mut` borrows (or in-place writes through projections) of `value_local` from which `before_block` is reachable"""
    out = []
    for blk in body.blocks:
        if blk.cleanup or blk.idx not in body.live_blocks():
            continue
        for s in blk.stmts:
            if s.k != "a":
                continue
            if s.rv.k == "ref" and s.rv.j.get("bk") == "mut" and s.rv.place is not None and s.rv.place.local == value_local and before_block in body.reachable(blk.idx):
                out.append((blk.idx, s.line, "&mut borrow"))
            if s.lhs.local == value_local and s.lhs.proj and before_block in body.reachable(blk.idx) and blk.idx != before_block:
                out.append((blk.idx, s.line, "field assignment"))
    return out


def value_chain(body, op):
    """locals a moved value passes through on its way into `op` (move / copy / Box::new / unwrap-style transparent calls)"""
    seen = []
    work = [op.place.local] if op.place is not None else []
    while work:
        l = work.pop()
        if l in seen:
            continue
        seen.append(l)
        for blk in body.blocks:
            if blk.cleanup:
                continue
            for s in blk.stmts:
                if s.k == "a" and s.lhs.is_local() and s.lhs.local == l and s.rv.k in ("use", "cast") and s.rv.ops and s.rv.ops[0].place is not None:
                    work.append(s.rv.ops[0].place.local)
            t = blk.term
            if t.k == "call" and t.dest.is_local() and t.dest.local == l and callee_matches(t, r"Box::<.*>::new$", r"Box::new$") and t.args[0].place is not None:
                work.append(t.args[0].place.local)
    return seen


def value_chain_of_local(body, local):
    """locals a moved value passed through on its way into `local`"""
    class _Op:
        pass
    class _Pl:
        pass
    o = _Op()
    o.place = _Pl()
    o.place.local = local
    return value_chain(body, o)


def base_local(body, local):
    """the named local a reference temp points into: follows `&x`, `&*x`, moves and deref / as_slice style calls backwards"""
    cur = local
    for _ in range(8):
        if body.local_name(cur):
            return cur
        nxt = None
        for blk in body.blocks:
            if blk.cleanup:
                continue
            for s in blk.stmts:
                if s.k == "a" and s.lhs.is_local() and s.lhs.local == cur:
                    if s.rv.k == "ref" and s.rv.place is not None:
                        nxt = s.rv.place.local
                    elif s.rv.k in ("use", "cast") and s.rv.ops and s.rv.ops[0].place is not None:
                        nxt = s.rv.ops[0].place.local
            t = blk.term
            if t.k == "call" and t.dest.is_local() and t.dest.local == cur and t.args and t.args[0].place is not None and \
                    re.search(r"(Deref|DerefMut|AsRef|Borrow)>?::\w+$|::as_slice$|::as_ref$", short(t.callee() or "")):
                nxt = t.args[0].place.local
        if nxt is None:
            return cur
        cur = nxt
    return cur


def named_dest_of_stmt(body, st):
    """the named local an aggregate built by statement `st` ends up in (its own destination or the local it is moved into next)"""
    l = st.lhs.local
    for _ in range(4):
        if body.local_name(l):
            return l
        nxt = None
        for blk in body.blocks:
            for s in blk.stmts:
                if s.k == "a" and s.lhs.is_local() and s.rv.k == "use" and s.rv.ops[0].place is not None and s.rv.ops[0].place.is_local() and s.rv.ops[0].place.local == l:
                    nxt = s.lhs.local
        if nxt is None:
            return l
        l = nxt
    return l


def named_dest(body, t):
    """the named local a call's result ends up in (the destination itself or the local it is moved into next)"""
    l = t.dest.local
    for _ in range(4):
        if body.local_name(l):
            return l
        nxt = None
        for blk in body.blocks:
            for s in blk.stmts:
                if s.k == "a" and s.lhs.is_local() and s.rv.k == "use" and s.rv.ops[0].place is not None and s.rv.ops[0].place.is_local() and s.rv.ops[0].place.local == l:
                    nxt = s.lhs.local
        if nxt is None:
            return l
        l = nxt
    return l


def r1_r3(ctx):
    facts = ctx.facts
    r1 = Rule("C02.R1", "delivery only out of the AEAD: what is delivered is Ok(Message::decode(Ok(Session::decrypt_message(..)))) on every path", floor=14,
              engine="A-prov + A-who")
    r3 = Rule("C02.R3", "the session used and the attribution delivered are the (packet src_id, datagram source address) key", floor=8, engine="A-prov")
    hm = facts.one(re.escape(H + "handle_message::{closure#0}") + "$")
    hr = facts.one(re.escape(H + "handle_response::{closure#0}") + "$")
    pi = facts.one(re.escape(H + "process_inbound_packet::{closure#0}") + "$")
    ha = facts.one(re.escape(H + "handle_auth_message::{closure#0}") + "$")
    for r in (r1, r3):
        r.analysed(hm, hr, pi, ha)
    # -- who may construct the delivery events
    allowed = {hm.path: "Request", hr.path: "Response"}
    nsites = 0
    for path, b in facts.bodies.items():
        p = None
        for bi, s in aggs(b, None, r"handler::HandlerOut$"):
            v = s.rv.j.get("variant")
            if v not in ("Request", "Response"):
                continue
            nsites += 1
            if re.fullmatch(r"<crate::handler::HandlerOut as (std|core)::clone::Clone>::clone", path):
                continue    # derive(Clone): copies an event that was constructed elsewhere
            r1.check(allowed.get(path) == v, "HandlerOut::%s constructed in %s" % (v, strip_closure(path).split("::")[-1]), "construct|%s|%s" % (strip_closure(path), v),
                     "HandlerOut::%s is constructed in %s: a message can be handed to the application without passing the decrypt-and-decode path of handle_message" % (v, path),
                     loc=b.loc(s.line))
    if nsites < 4:
        r1.fail("construct|count", "only %d delivery sites found (4 confirmed by hand)" % nsites, loc=hm.loc(hm.line))
    # -- handle_message: shape of the delivered request and of the response handed to handle_response
    pn = async_param_names(facts, H + "handle_message")
    if len(pn) != 5:
        raise AnchorError("handle_message parameters: %s" % pn)
    _self, P_addr, P_nonce, P_msg, P_aad = pn
    p = Prov(hm, facts)
    sess = "(crate::lru_time_cache::LruTimeCache::get_mut(self.sessions, %s) as Some).0" % P_addr
    dec = "(crate::rpc::Message::decode((%sdecrypt_message(%s, %s, %s, %s) as Ok).0) as Ok).0" % (S, sess, P_nonce, P_msg, P_aad)
    for bi, s in aggs(hm, p, r"handler::HandlerOut$", "Request"):
        got = F(p.operand(s.rv.ops[1]))
        r1.check(got == "(%s as Request).0" % dec, "handle_message: delivered request = Ok(decode(Ok(decrypt(session, nonce, message, aad))))", "handle_message|request-source",
                 "handle_message delivers a request that is not exactly the decoded plaintext of this datagram under this session: %s" % got[:300], loc=hm.loc(s.line))
        a = F(p.operand(s.rv.ops[0]))
        r3.check(a == P_addr, "handle_message: request attributed to the lookup key", "handle_message|request-attribution",
                 "handle_message attributes the delivered request to %s, not to the address the session was looked up under" % a[:200], loc=hm.loc(s.line))
        for l in value_chain(hm, s.rv.ops[1]):
            for blk, line, what in mut_borrowed_locals(hm, l, bi):
                r1.fail("handle_message|request-mutated", "the decoded request is modified (%s) before it is delivered" % what, loc=hm.loc(line))
        r1.ok("handle_message: decoded request not mutated before delivery")
    resp_calls = [(bi, t) for bi, t in hm.calls() if callee_matches(t, re.escape(H + "handle_response") + "$")]
    r1.check(len(resp_calls) == 1, "handle_message: one call of handle_response", "handle_message|handle_response-calls", "handle_message calls handle_response %d times" % len(resp_calls), loc=hm.loc(hm.line))
    for bi, t in resp_calls:
        got = F(p.operand(t.args[2]))
        r1.check(got == "(%s as Response).0" % dec, "handle_message: response handed on = Ok(decode(Ok(decrypt(..))))", "handle_message|response-source",
                 "handle_message hands handle_response a response that is not exactly the decoded plaintext of this datagram under this session: %s" % got[:300], loc=hm.loc(t.line))
        a = F(p.operand(t.args[1]))
        r3.check(a == P_addr, "handle_message: response attributed to the lookup key", "handle_message|response-attribution",
                 "handle_message attributes the response to %s, not to the address the session was looked up under" % a[:200], loc=hm.loc(t.line))
        for l in value_chain(hm, t.args[2]):
            for blk, line, what in mut_borrowed_locals(hm, l, bi):
                r1.fail("handle_message|response-mutated", "the decoded response is modified (%s) before it is handed to handle_response" % what, loc=hm.loc(line))
        r1.ok("handle_message: decoded response not mutated before handle_response")
    # session lookup key
    gm = [(bi, t) for bi, t in hm.calls() if callee_matches(t, r"LruTimeCache::<.*>::get_mut$", r"LruTimeCache::get_mut$") and F(p.operand(t.args[0])) == "self.sessions"]
    r3.check(len(gm) == 1 and F(p.operand(gm[0][1].args[1])) == P_addr, "handle_message: sessions.get_mut(node_address)", "handle_message|session-key",
             "handle_message looks the session up under something other than the packet's (id, address)", loc=hm.loc(hm.line))
    dm = [(bi, t) for bi, t in hm.calls() if callee_matches(t, re.escape(S + "decrypt_message") + "$")]
    r1.check(len(dm) == 1, "handle_message: one decrypt attempt per datagram", "handle_message|decrypt-calls", "handle_message calls Session::decrypt_message %d times" % len(dm), loc=hm.loc(hm.line))
    # -- handle_response: delivers its own parameters, unmodified
    rn = async_param_names(facts, H + "handle_response")
    p2 = Prov(hr, facts)
    n = 0
    for bi, s in aggs(hr, p2, r"handler::HandlerOut$", "Response"):
        n += 1
        got = F(p2.operand(s.rv.ops[1]))
        r1.check(got == rn[2], "handle_response: delivers its `%s` parameter" % rn[2], "handle_response|response-source", "handle_response delivers %s instead of the response it was given" % got[:200],
                 loc=hr.loc(s.line))
        a = F(p2.operand(s.rv.ops[0]))
        r3.check(a == rn[1], "handle_response: attributed to its `%s` parameter" % rn[1], "handle_response|attribution", "handle_response attributes the response to %s" % a[:200], loc=hr.loc(s.line))
        for l in value_chain(hr, s.rv.ops[1]):
            for blk, line, what in mut_borrowed_locals(hr, l, bi):
                r1.fail("handle_response|response-mutated", "the response is modified (%s) before it is delivered" % what, loc=hr.loc(line))
    r1.check(n >= 1, "handle_response: delivery sites found (%d)" % n, "handle_response|sites", "handle_response has %d delivery sites (at least one expected)" % n, loc=hr.loc(hr.line))
    # -- closed call chain
    chain = [
        (re.escape(H + "handle_response") + "$", {hm.path}, "handle_response"),
        (re.escape(H + "handle_message") + "$", {pi.path, ha.path}, "handle_message"),
        (re.escape(H + "handle_auth_message") + "$", {pi.path}, "handle_auth_message"),
        (re.escape(H + "process_inbound_packet") + "$", {H + "start::{closure#0}"}, "process_inbound_packet"),
        (re.escape(S + "decrypt_message") + "$", {hm.path}, "Session::decrypt_message"),
        (re.escape(C + "decrypt_message") + "$", {S + "decrypt_message"}, "crypto::decrypt_message"),
        (r"crate::packet::Packet::decode$", {"crate::socket::recv::RecvHandler::handle_inbound::{closure#0}"}, "Packet::decode"),
    ]
    for pat, allowed_callers, nm in chain:
        cs = callers(facts, pat)
        extra = sorted(set(cs) - allowed_callers)
        r1.check(bool(cs) and not extra, "%s is called only from %s" % (nm, ", ".join(sorted(x.split("::")[-2] if x.endswith("}") else x.split("::")[-1] for x in allowed_callers))),
                 "callers|%s" % nm, "%s is also called from %s (or has no caller): the delivery path can be entered around the checks" % (nm, extra), loc=hm.loc(hm.line))
    # -- callers construct the address from the packet and the datagram
    pp = Prov(pi, facts)
    ipn = async_param_names(facts, H + "process_inbound_packet")[1]
    want_addr = lambda kind: "crate::node_info::NodeAddress::NodeAddress{socket_addr: %s.src_address, node_id: (%s.header.kind as %s).src_id}" % (ipn, ipn, kind)
    for bi, t in pi.calls():
        if callee_matches(t, re.escape(H + "handle_message") + "$"):
            a = [F(pp.operand(x)) for x in t.args]
            r3.check(a[1] == want_addr("Message"), "process_inbound_packet -> handle_message: address = (datagram source, header src_id)", "process_inbound_packet|message-address",
                     "process_inbound_packet passes handle_message the address %s" % a[1][:300], loc=pi.loc(t.line))
        if callee_matches(t, re.escape(H + "handle_auth_message") + "$"):
            a = [F(pp.operand(x)) for x in t.args]
            r3.check(a[1] == want_addr("Handshake"), "process_inbound_packet -> handle_auth_message: address = (datagram source, header src_id)", "process_inbound_packet|handshake-address",
                     "process_inbound_packet passes handle_auth_message the address %s" % a[1][:300], loc=pi.loc(t.line))
    # -- the tables (sessions, requests, challenges) are keyed by NodeAddress: two addresses are the same key only if both parts are equal
    ok_eq, how = structural_eq(facts, "crate::node_info::NodeAddress")
    r3.check(ok_eq, "NodeAddress equality is structural over (socket_addr, node_id) [%s]" % how, "NodeAddress|equality",
             "NodeAddress, the key of the session / request / challenge tables, does not compare structurally (%s): a datagram from another source address or "
             "node id can select the peer's session" % how, loc=None)
    an = async_param_names(facts, H + "handle_auth_message")
    pa = Prov(ha, facts)
    for bi, t in ha.calls():
        if callee_matches(t, re.escape(H + "handle_message") + "$"):
            a = [F(pa.operand(x)) for x in t.args]
            r3.check(a[1] == an[1], "handle_auth_message -> handle_message: same address", "handle_auth_message|address",
                     "handle_auth_message passes handle_message the address %s instead of its own %s" % (a[1][:200], an[1]), loc=ha.loc(t.line))
    return r1, r3


def r2(ctx):
    facts = ctx.facts
    rule = Rule("C02.R2", "the associated data, nonce and ciphertext given to the AEAD are what was received", floor=16, engine="A-prov")
    # ---- Packet::decode builds the associated data from three received parts
    pd = facts.one(r"crate::packet::Packet::decode$")
    rule.analysed(pd)
    p = Prov(pd, facts)
    data = pd.local_name(3) or "data"
    ret = [s for bi, s in aggs(pd, p, r"^None$|tuple", None)]
    # the Ok((packet, authenticated_data)) tuple
    tup = None
    for blk in pd.blocks:
        if blk.idx not in pd.live_blocks():
            continue
        for s in blk.stmts:
            if s.k == "a" and s.rv.k == "agg" and s.rv.j.get("ak") == "tuple" and len(s.rv.ops) == 2:
                tup = s
    if tup is None:
        raise AnchorError("Packet::decode: the (packet, authenticated_data) tuple was not found")
    named_chain = [l for l in value_chain(pd, tup.rv.ops[1]) if pd.local_name(l)]
    if len(named_chain) != 1:
        raise AnchorError("Packet::decode: the associated-data local was not identified")
    aad_local = named_chain[0]
    init = F(p.local(aad_local))
    iv16 = "core::slice::index::index(%s, std::ops::RangeTo::RangeTo{end: const(crate::packet::IV_LENGTH=16)})" % data
    DATA = ("param", 3, data)

    def span(e):
        """(is a sub-slice of the received datagram, start, end) with start / end as (atoms, constant); the only atom allowed is the auth-data size"""
        base, st, en = slice_span(e)
        def norm(l):
            if l is None:
                return None
            atoms = {("size" if "from_be_bytes" in fmt_short(a) else fmt_short(a)[:40]): c for a, c in l[0].items()}
            return (tuple(sorted(atoms.items())), l[1])
        return (canon(base) == DATA, norm(st), norm(en))
    K = lambda c: ((), c)
    SZ = lambda c: ((("size", 1),), c)
    # the parts, in order, as (block where the part is read, how, expression, the operand that names the buffer): either the initial value
    # followed by appends (`iv.to_vec()`, `extend_from_slice` twice) or one concatenation (`[iv, &static_header, &auth_data].concat()`)
    parts = []
    init_e = canon(p.local(aad_local))
    ws = []
    if init_e[0] == "call" and re.search(r"(^|::)concat$", short(init_e[1])):
        cc = [(bi, t) for bi, t in pd.calls() if callee_matches(t, r"::concat$") and t.dest.is_local() and (t.dest.local == aad_local or t.dest.local in value_chain_of_local(pd, aad_local))]
        arr = None
        if len(cc) == 1 and cc[0][1].args and cc[0][1].args[0].place is not None:
            chain = value_chain(pd, cc[0][1].args[0]) + [base_local(pd, cc[0][1].args[0].place.local)]
            for blk in pd.blocks:
                for st in blk.stmts:
                    if st.k == "a" and st.rv.k == "agg" and st.rv.j.get("ak") == "array" and st.lhs.is_local() and st.lhs.local in chain:
                        arr = st
        if arr is None:
            raise AnchorError("Packet::decode: the parts of the concatenated associated data were not identified")
        for o in arr.rv.ops:
            parts.append((cc[0][0], "concat", p.operand(o), o))
    else:
        parts.append((None, "init", p.local(aad_local), None))
        ws = writes_into(pd, p, aad_local)
        later = [(bi, m, src[0], t.args[1]) for bi, m, src, t in ws]
        later.sort(key=flow_key(pd, later))
        parts += later
    rule.check(bool(parts) and span(parts[0][2]) == (True, K(0), K(16)), "Packet::decode: associated data starts with data[..IV_LENGTH]", "Packet::decode|aad-iv",
               "the associated data does not start with the received IV: %s" % init[:200], loc=pd.loc(tup.line))
    okk = len(parts) == 3 and all(m in ("extend_from_slice", "concat") for _, m, _, _ in parts[1:]) and span(parts[1][2]) == (True, K(16), K(39)) and span(parts[2][2]) == (True, K(39), SZ(39))
    rule.check(okk, "Packet::decode: then exactly the static header bytes data[16..39] and the auth-data bytes data[39..39+n], nothing else", "Packet::decode|aad-parts",
               "the associated data is not IV || static header || auth-data of the received datagram: %s" % [F(x[2])[:160] for x in parts[1:]], loc=pd.loc(tup.line))
    # the two later parts are the very buffers the header cipher unmasked (the expressions above cannot tell data[16..39] from its unmasked copy)
    # the two buffers are identified by role, not by name: the first and the second buffer the header cipher is applied to
    ks = [(bi, t) for bi, t in pd.calls() if callee_matches(t, r"StreamCipher::apply_keystream$") and len(t.args) > 1 and t.args[1].place is not None]
    ks.sort(key=flow_key(pd, ks))
    if len(ks) != 2:
        raise AnchorError("Packet::decode: %d apply_keystream calls (2 confirmed by hand: static header, auth-data)" % len(ks))
    named = {"static_header": base_local(pd, ks[0][1].args[1].place.local), "auth_data": base_local(pd, ks[1][1].args[1].place.local)}
    order = [(bi, base_local(pd, o.place.local) if o is not None and o.place is not None else None) for bi, m, _, o in parts[1:]]
    for (bi, l), nm in zip(order, ("static_header", "auth_data")):
        w = writes_into(pd, p, named[nm])
        kinds = sorted(set(m for _, m, _, _ in w))
        unmask = [wb for wb, m, _, _ in w if m == "apply_keystream"]
        rule.check(l == named[nm] and kinds == ["apply_keystream"] and must_pass(pd, [bi], via_blocks=unmask), "Packet::decode: part `%s` is the buffer unmasked by the header cipher (and modified by nothing else)" % nm,
                   "Packet::decode|%s-unmasked" % nm, "the associated data takes its %s part from %s (writers of `%s`: %s), not from the unmasked buffer" % (nm, pd.local_name(l) if l is not None else "?", nm, kinds),
                   loc=pd.loc(pd.line))
    if len(order) != 2:
        rule.fail("Packet::decode|aad-part-buffers", "the associated data has %d appended parts" % len(order), loc=pd.loc(pd.line))
    # what is parsed is what is authenticated: PacketKind::decode reads the same auth_data buffer
    kd = [(bi, t) for bi, t in pd.calls() if callee_matches(t, r"packet::PacketKind::decode$")]
    rule.check(len(kd) == 1 and kd[0][1].args[1].place is not None and base_local(pd, kd[0][1].args[1].place.local) == named["auth_data"], "Packet::decode: PacketKind::decode parses the authenticated auth_data buffer",
               "Packet::decode|parsed-is-authenticated", "PacketKind::decode parses a buffer other than the one that is authenticated", loc=pd.loc(pd.line))
    # the returned packet: iv, nonce and message come from the datagram
    pk = [s for bi, s in aggs(pd, p, r"packet::Packet$")]
    if len(pk) != 1:
        raise AnchorError("Packet::decode: %d Packet constructions" % len(pk))
    fields = dict(zip(pk[0].rv.j.get("fields"), [F(p.operand(o)) for o in pk[0].rv.ops]))
    fexpr = dict(zip(pk[0].rv.j.get("fields"), [p.operand(o) for o in pk[0].rv.ops]))
    iv_ok = any(span(x) == (True, K(0), K(16)) for x in walk(fexpr["iv"]) if isinstance(x, tuple) and x and x[0] == "call" and "index" in x[1])
    rule.check(iv_ok and "from_be_bytes" in fields["iv"], "Packet::decode: packet.iv = from_be_bytes(data[..16])", "Packet::decode|iv", "packet.iv is %s" % fields["iv"][:200], loc=pd.loc(pk[0].line))
    msg_ok = re.fullmatch(re.escape("core::slice::index::index(%s, std::ops::RangeFrom::RangeFrom{start: AddWithOverflow(AddWithOverflow(const(crate::packet::IV_LENGTH=16), const(crate::packet::STATIC_HEADER_LENGTH=23)).0, ") + r".*auth_data_size.*|.*", fields["message"])
    rule.check(span(fexpr["message"]) == (True, SZ(39), None),
               "Packet::decode: packet.message = data[39+n..]", "Packet::decode|message", "packet.message is %s" % fields["message"][:300], loc=pd.loc(pk[0].line))
    hd = [s for bi, s in aggs(pd, p, r"packet::PacketHeader$")]
    hf = dict(zip(hd[0].rv.j.get("fields"), [F(p.operand(o)) for o in hd[0].rv.ops])) if len(hd) == 1 else {}
    hfe = dict(zip(hd[0].rv.j.get("fields"), [p.operand(o) for o in hd[0].rv.ops])) if len(hd) == 1 else {}
    nonce_ok = "message_nonce" in hfe and any(span(x) == (True, K(25), K(37)) for x in walk(hfe["message_nonce"]) if isinstance(x, tuple) and x and x[0] == "call" and "index" in x[1])
    rule.check(nonce_ok, "Packet::decode: header.message_nonce = static_header[9..21]", "Packet::decode|nonce",
               "header.message_nonce is %s" % hf.get("message_nonce", "?")[:300], loc=pd.loc(pd.line))
    # ---- handle_inbound: what goes into InboundPacket
    hi = facts.one(r"crate::socket::recv::RecvHandler::handle_inbound::\{closure#0\}$")
    rule.analysed(hi)
    ph = Prov(hi, facts)
    hn = async_param_names(facts, "crate::socket::recv::RecvHandler::handle_inbound")
    dcall = "crate::packet::Packet::decode(self.node_id, self.protocol_identity, std::array::index(%s, std::ops::RangeTo::RangeTo{end: %s}))" % (hn[3], hn[2])
    ib = [s for bi, s in aggs(hi, ph, r"recv::InboundPacket$")]
    if len(ib) != 1:
        raise AnchorError("handle_inbound: %d InboundPacket constructions" % len(ib))
    f2 = dict(zip(ib[0].rv.j.get("fields"), [F(ph.operand(o)) for o in ib[0].rv.ops]))
    want = {"src_address": hn[1], "header": "(%s as Ok).0.0.header" % dcall, "message": "(%s as Ok).0.0.message" % dcall, "authenticated_data": "(%s as Ok).0.1" % dcall}
    for k, v in want.items():
        rule.check(f2.get(k) == v, "handle_inbound: InboundPacket.%s = %s" % (k, fmt_short(canon(ph.operand(ib[0].rv.ops[ib[0].rv.j["fields"].index(k)])))), "handle_inbound|%s" % k,
                   "InboundPacket.%s is %s, not the decoded datagram's" % (k, (f2.get(k) or "?")[:300]), loc=hi.loc(ib[0].line))
    # the source address parameter is changed only by the flowinfo / scope normalisation
    l_src = [l for l in range(len(hi.locals)) if hi.local_name(l) == hn[1]]
    al = set()
    for l in l_src:
        al |= aliases_of(hi, l) | {l}
    setters = sorted(set(short(t.callee() or "").split("::")[-1] for bi, t in hi.calls() if t.args and t.args[0].place is not None and t.args[0].place.local in al and
                         re.search(r"::set_\w+$", short(t.callee() or ""))))
    assigns = [s for blk in hi.blocks if blk.idx in hi.live_blocks() for s in blk.stmts if s.k == "a" and s.lhs.local in l_src and blk.idx != 0 and not s.lhs.proj and s.rv.k != "ref"]
    rule.check(set(setters) <= {"set_flowinfo", "set_scope_id"}, "handle_inbound: the source address is changed only by set_flowinfo / set_scope_id", "handle_inbound|src-setters",
               "handle_inbound rewrites the datagram's source address with %s" % setters, loc=hi.loc(hi.line))
    # receive buffers are distinct per socket
    st = facts.one(r"crate::socket::recv::RecvHandler::start::\{closure#0\}$")
    rule.analysed(st)
    bufs = []
    for bi, t in st.calls():
        if callee_matches(t, r"RecvHandler::handle_inbound$"):
            l = t.args[3].place.local if t.args[3].place is not None else None
            base = None
            for blk in st.blocks:
                for s in blk.stmts:
                    if s.k == "a" and s.lhs.is_local() and s.lhs.local == l and s.rv.k == "ref":
                        base = s.rv.place.local
            bufs.append(base)
    rule.check(len(bufs) == 2 and None not in bufs and bufs[0] != bufs[1], "RecvHandler::start: the two sockets hand handle_inbound distinct buffers", "recv-start|buffers",
               "RecvHandler::start hands handle_inbound the buffers %s" % bufs, loc=st.loc(st.line))
    # ---- process_inbound_packet / handle_auth_message pass them on unchanged
    pi = facts.one(re.escape(H + "process_inbound_packet::{closure#0}") + "$")
    ha = facts.one(re.escape(H + "handle_auth_message::{closure#0}") + "$")
    hm = facts.one(re.escape(H + "handle_message::{closure#0}") + "$")
    rule.analysed(pi, ha, hm)
    pp = Prov(pi, facts)
    ipn = async_param_names(facts, H + "process_inbound_packet")[1]
    for bi, t in pi.calls():
        if callee_matches(t, re.escape(H + "handle_message") + "$"):
            a = [F(pp.operand(x)) for x in t.args]
            rule.check(a[2:] == ["%s.header.message_nonce" % ipn, "%s.message" % ipn, "%s.authenticated_data" % ipn], "process_inbound_packet -> handle_message(nonce, message, aad) of the inbound packet",
                       "process_inbound_packet|message-args", "process_inbound_packet passes handle_message %s" % a[2:], loc=pi.loc(t.line))
        if callee_matches(t, re.escape(H + "handle_auth_message") + "$"):
            a = [F(pp.operand(x)) for x in t.args]
            rule.check([a[2], a[6], a[7]] == ["%s.header.message_nonce" % ipn, "%s.message" % ipn, "%s.authenticated_data" % ipn],
                       "process_inbound_packet -> handle_auth_message(nonce, .., message, aad) of the inbound packet", "process_inbound_packet|handshake-args",
                       "process_inbound_packet passes handle_auth_message %s" % [a[2], a[6], a[7]], loc=pi.loc(t.line))
    an = async_param_names(facts, H + "handle_auth_message")
    pa = Prov(ha, facts)
    n = 0
    for bi, t in ha.calls():
        if callee_matches(t, re.escape(H + "handle_message") + "$"):
            n += 1
            a = [F(pa.operand(x)) for x in t.args]
            rule.check(a[2:] == [an[2], an[6], an[7]], "handle_auth_message -> handle_message(nonce, message, aad): its own parameters", "handle_auth_message|args",
                       "handle_auth_message passes handle_message %s" % a[2:], loc=ha.loc(t.line))
    if n != 1:
        rule.fail("handle_auth_message|calls", "handle_auth_message calls handle_message %d times" % n, loc=ha.loc(ha.line))
    # ---- Session::decrypt_message: both attempts get the same three arguments
    sd = facts.one(re.escape(S + "decrypt_message") + "$")
    rule.analysed(sd)
    ps = Prov(sd, facts)
    names = [sd.local_name(i) for i in range(1, sd.arg_count + 1)]
    att = [(bi, t) for bi, t in sd.calls() if callee_matches(t, re.escape(C + "decrypt_message") + "$")]
    for bi, t in att:
        a = [F(ps.operand(x)) for x in t.args]
        rule.check(a[1:] == names[1:], "Session::decrypt_message attempt with key %s: (nonce, message, aad) are its parameters" % a[0], "Session::decrypt_message|args|%s" % ("old" if "old_keys" in a[0] else "current"),
                   "Session::decrypt_message passes crypto::decrypt_message %s" % a[1:], loc=sd.loc(t.line))
        rule.check(re.search(r"(^|\.)decryption_key$", a[0]) is not None, "Session::decrypt_message: key %s is a decryption key" % a[0], "Session::decrypt_message|key|%s" % ("old" if "old_keys" in a[0] else "current"),
                   "Session::decrypt_message decrypts with %s" % a[0], loc=sd.loc(t.line))
    if len(att) != 2:
        rule.fail("Session::decrypt_message|attempts", "Session::decrypt_message makes %d decrypt attempts (2 confirmed by hand)" % len(att), loc=sd.loc(sd.line))
    # returned value: only results of those attempts
    rets = canon(ps.local(0))
    alts = rets[1] if rets[0] == "phi" else (rets,)
    def leaves(x):
        # look through re-wrapping such as `match r { Ok(v) => Ok(v), Err(e) => Err(e) }`
        if x[0] == "agg" and re.search(r"Result::(Ok|Err)$", x[1]):
            return [y for _, v in x[2] for y in leaves(v)]
        if x[0] in ("as", "field"):
            return leaves(x[1])
        if x[0] == "phi":
            return [y for v in x[1] for y in leaves(v)]
        if x[0] == "call" and re.search(r"(Try>?::branch|FromResidual(<.*>)?>?::from_residual)$", short(x[1])) and x[2]:
            # `attempt?`: what leaves the function is the attempt's own Ok payload or its own Err
            return leaves(x[2][-1])
        return [x]
    bad = [fmt(x)[:120] for a_ in alts for x in leaves(a_) if not (x[0] == "call" and short(x[1]).endswith("crypto::decrypt_message"))]
    rule.check(not bad, "Session::decrypt_message returns only the result of an attempt", "Session::decrypt_message|result", "Session::decrypt_message can return %s" % bad, loc=sd.loc(sd.line))
    # ---- crypto::decrypt_message
    cd = facts.one(re.escape(C + "decrypt_message") + "$")
    rule.analysed(cd)
    pc = Prov(cd, facts)
    cn = [cd.local_name(i) for i in range(1, cd.arg_count + 1)]
    dcalls = [(bi, t) for bi, t in cd.calls() if callee_matches(t, r"aead::Aead>::decrypt$", r"Aead::decrypt$")]
    if len(dcalls) != 1:
        raise AnchorError("crypto::decrypt_message: %d Aead::decrypt calls" % len(dcalls))
    a = [canon(pc.operand(x)) for x in dcalls[0][1].args]
    pay = dict(a[2][2]) if a[2][0] == "agg" else {}
    rule.check(fmt(pay.get("msg", ("unknown", ""))) == cn[2] and fmt(pay.get("aad", ("unknown", ""))) == cn[3], "crypto::decrypt_message: Payload{msg: %s, aad: %s}" % (cn[2], cn[3]), "crypto::decrypt_message|payload",
               "crypto::decrypt_message gives the AEAD the payload %s" % fmt(a[2])[:200], loc=cd.loc(dcalls[0][1].line))
    rule.check(fmt(a[1]).endswith("from_slice(%s)" % cn[1]) and fmt(a[0]).endswith("new(aes_gcm::aead::generic_array::GenericArray::from_slice(%s))" % cn[0]),
               "crypto::decrypt_message: key and nonce are its parameters", "crypto::decrypt_message|key-nonce", "crypto::decrypt_message keys the AEAD with %s / %s" % (fmt(a[0])[:120], fmt(a[1])[:120]),
               loc=cd.loc(dcalls[0][1].line))
    rets = canon(pc.local(0))
    alts = rets[1] if rets[0] == "phi" else (rets,)
    oks = [x for x in alts if not (x[0] == "agg" and x[1].endswith("Err"))]
    good = all(x[0] == "call" and short(x[1]).endswith("Result::map_err") and x[2][0][0] == "call" and short(x[2][0][1]).endswith("Aead>::decrypt") for x in oks)
    rule.check(bool(oks) and good, "crypto::decrypt_message: an Ok result is the AEAD's", "crypto::decrypt_message|result", "crypto::decrypt_message can return %s" % [fmt(x)[:100] for x in oks], loc=cd.loc(cd.line))
    return rule


def r4_r5(ctx):
    facts = ctx.facts
    r4 = Rule("C02.R4", "encrypt / decrypt siblings agree, and the sender authenticates IV || header of the packet it returns", floor=9, engine="A-sib + A-prov")
    r5 = Rule("C02.R5", "decryption is attempted only on inputs of at least the tag length", floor=1, engine="A-dom")
    cd = facts.one(re.escape(C + "decrypt_message") + "$")
    ce = facts.one(re.escape(C + "encrypt_message") + "$")
    r4.analysed(cd, ce)
    r5.analysed(cd)
    sig = {}
    for nm, b, op in (("decrypt", cd, "decrypt"), ("encrypt", ce, "encrypt")):
        p = Prov(b, facts)
        cn = [b.local_name(i) for i in range(1, b.arg_count + 1)]
        news = [t.callee_full() for bi, t in b.calls() if callee_matches(t, r"KeyInit>::new$")]
        ops = [(bi, t) for bi, t in b.calls() if callee_matches(t, r"aead::Aead>::%s$" % op)]
        if len(ops) != 1 or len(news) != 1:
            raise AnchorError("crypto::%s_message: %d AEAD calls, %d constructions" % (nm, len(ops), len(news)))
        a = [canon(p.operand(x)) for x in ops[0][1].args]
        pay = dict(a[2][2]) if a[2][0] == "agg" else {}
        roles = {"key": [i for i, n in enumerate(cn) if fmt(a[0]).endswith("from_slice(%s))" % n)], "nonce": [i for i, n in enumerate(cn) if fmt(a[1]).endswith("from_slice(%s)" % n)],
                 "msg": [i for i, n in enumerate(cn) if fmt(pay.get("msg", ("unknown", ""))) == n], "aad": [i for i, n in enumerate(cn) if fmt(pay.get("aad", ("unknown", ""))) == n]}
        sig[nm] = (news[0], roles, ops[0][1].callee_full())
    r4.check(sig["decrypt"][0] == sig["encrypt"][0], "same AEAD instantiation: %s" % sig["encrypt"][0], "crypto|aead-type", "encrypt uses %s but decrypt uses %s" % (sig["encrypt"][0], sig["decrypt"][0]), loc=ce.loc(ce.line))
    want = {"key": [0], "nonce": [1], "msg": [2], "aad": [3]}
    r4.check(sig["decrypt"][1] == want and sig["encrypt"][1] == want, "both give the AEAD (key, nonce, Payload{msg, aad}) = their parameters 0..3", "crypto|roles",
             "parameter roles differ: encrypt %s, decrypt %s" % (sig["encrypt"][1], sig["decrypt"][1]), loc=ce.loc(ce.line))
    # R5
    p = Prov(cd, facts)
    g = Guards(cd, p, facts)
    edges = []
    for bi, t, e in g.switches():
        c = comparison(e)
        if c and c[0] in ("<", ">=") and fmt_short(c[1]) == "slice::len(%s)" % cd.local_name(3) and const_int_of(c[2]) is not None and const_int_of(c[2]) >= 16:
            f, tr = g.bool_edges(bi)
            edges.append((bi, f if c[0] == "<" else tr))
    dcall = [bi for bi, t in cd.calls() if callee_matches(t, r"aead::Aead>::decrypt$")]
    r5.check(bool(edges) and bool(dcall) and all(d not in cd.reachable(0, removed_edges=edges) for d in dcall), "crypto::decrypt_message: Aead::decrypt only past msg.len() >= 16", "crypto::decrypt_message|tag-length",
             "crypto::decrypt_message can hand the AEAD an input shorter than the 16-byte tag", loc=cd.loc(cd.line))
    # sender side
    for fn in ("encrypt_message", "encrypt_with_header"):
        b = facts.one(re.escape(S + fn) + "$")
        r4.analysed(b)
        p = Prov(b, facts)
        enc = [(bi, t) for bi, t in b.calls() if callee_matches(t, re.escape(C + "encrypt_message") + "$")]
        if len(enc) != 1:
            raise AnchorError("Session::%s: %d crypto::encrypt_message calls" % (fn, len(enc)))
        bi, t = enc[0]
        aad_l = None
        # the local behind the aad argument
        e_aad = canon(p.operand(t.args[3]))
        # find the Vec local written by extend_from_slice whose initial value equals e_aad
        cands = [base_local(b, t.args[3].place.local)] if t.args[3].place is not None else []
        direct_lib = e_aad[0] == "call" and e_aad[1].endswith("packet::Packet::authenticated_data")
        if len(cands) != 1 or not (b.local_name(cands[0]) or direct_lib):
            raise AnchorError("Session::%s: the local holding the associated data was not identified" % fn)
        ws = writes_into(b, p, cands[0])
        init = F(p.local(cands[0]))
        ext = [F(src[0]) for wb, m, src, wt in ws if m == "extend_from_slice"]
        other = [m for wb, m, src, wt in ws if m != "extend_from_slice"]
        # the packet returned
        pk = [s for _, s in aggs(b, p, r"packet::Packet$")]
        if fn == "encrypt_message":
            if len(pk) != 1:
                raise AnchorError("Session::encrypt_message: Packet constructions: %d" % len(pk))
            fl = dict(zip(pk[0].rv.j["fields"], [canon(p.operand(o)) for o in pk[0].rv.ops]))
            iv_e, hdr_e, msg_e = fmt(fl["iv"], -60), fmt(fl["header"], -60), fl["message"]
            nonce_e = fmt(dict(fl["header"][2]).get("message_nonce", ("unknown", ""))) if fl["header"][0] == "agg" else "?"
            # nonce: the very local in the header
            hdr_s = [s for _, s in aggs(b, p, r"packet::PacketHeader$")]
            nl_h = hdr_s[0].rv.ops[hdr_s[0].rv.j["fields"].index("message_nonce")].place
            nl_c = t.args[1].place

            def base(pl):
                cur = pl.local
                for _ in range(4):
                    nxt = None
                    for blk in b.blocks:
                        for s in blk.stmts:
                            if s.k == "a" and s.lhs.is_local() and s.lhs.local == cur and s.rv.k == "use" and s.rv.ops[0].place is not None:
                                nxt = s.rv.ops[0].place.local
                    if nxt is None or b.local_name(cur):
                        break
                    cur = nxt
                return cur
            same_nonce = nl_h is not None and nl_c is not None and base(nl_h) == base(nl_c)
            late = [wb for wb, m, src, wt in writes_into(b, p, base(nl_h))] if same_nonce else []
            hblk = [blk for blk, s in aggs(b, p, r"packet::PacketHeader$")][0]
            late = [wb for wb in late if wb in b.reachable(hblk) and wb != hblk]
            r4.check(same_nonce and not late, "Session::encrypt_message: the AEAD nonce is the header's message_nonce (not written after the header is built)", "Session::encrypt_message|nonce",
                     "Session::encrypt_message encrypts under a nonce that is not the one in the packet header", loc=b.loc(t.line))
        else:
            src_pk = [fmt(canon(p.operand(tt.args[0]))) for bb, tt in b.calls() if False]
            newp = [(bb, tt) for bb, tt in b.calls() if callee_matches(tt, r"packet::Packet::new_authheader$")]
            if len(newp) != 1:
                raise AnchorError("encrypt_with_header: new_authheader calls")
            pe = F(p.call(newp[0][1], newp[0][0]))
            iv_e, hdr_e = pe + ".iv", pe + ".header"
            n_arg = fmt(canon(p.operand(newp[0][1].args[1])))
            n_enc = canon(p.operand(t.args[1]))
            n_hdr = canon(p.operand(newp[0][1].args[1]))
            r4.check(n_enc == n_hdr and n_enc[0] == "call", "Session::encrypt_with_header: the AEAD nonce is the one given to Packet::new_authheader", "Session::encrypt_with_header|nonce",
                     "Session::encrypt_with_header encrypts under a nonce that is not the one in the packet header", loc=b.loc(t.line))
        aad_ok = init == "core::num::to_be_bytes(%s)" % iv_e and ext == ["crate::packet::PacketHeader::encode(%s)" % hdr_e] and not other and fmt(e_aad, -60) == init
        if not aad_ok and e_aad[0] == "call" and e_aad[1].endswith("packet::Packet::authenticated_data") and not ext and not other:
            # `packet.authenticated_data()` of the packet that is returned: the library's own IV || header (its body is checked to be that)
            ad = facts.one(r"crate::packet::Packet::authenticated_data$")
            r4.analysed(ad)
            adp = Prov(ad, facts)
            adl = [base_local(ad, st_.rv.ops[0].place.local) for blk in ad.blocks for st_ in blk.stmts if st_.k == "a" and st_.lhs.is_local() and st_.lhs.local == 0 and
                   st_.rv.k == "use" and st_.rv.ops[0].place is not None and blk.idx in ad.live_blocks()]
            lib_ok = False
            for l in set(adl):
                w2 = writes_into(ad, adp, l)
                lib_ok = F(adp.local(l)) == "core::num::to_be_bytes(self.iv)" and [F(src[0]) for wb, m, src, wt in w2] == ["crate::packet::PacketHeader::encode(self.header)"]
            src_p = canon(e_aad[2][0])
            # (a later `packet.message = ..` shows up as a second alternative of the local's value: the packet meant is the constructed one)
            alts_p = list(src_p[1]) if src_p[0] == "phi" else [src_p]
            if fn == "encrypt_message":
                built = [a for a in alts_p if a[0] == "agg" and a[1].endswith("packet::Packet::Packet") or (a[0] == "agg" and a[1].endswith("Packet"))]
                same = len(built) == 1 and fmt(dict(built[0][2]).get("iv", ("unknown", "")), -60) == iv_e and fmt(dict(built[0][2]).get("header", ("unknown", "")), -60) == hdr_e
            else:
                same = any(fmt(a, -60) == pe for a in alts_p)
            aad_ok = lib_ok and same
        r4.check(aad_ok,
                 "Session::%s: associated data = iv.to_be_bytes() || header.encode() of the returned packet" % fn, "Session::%s|aad" % fn,
                 "Session::%s authenticates %s || %s, which is not IV || header of the packet it returns" % (fn, init[:160], [x[:160] for x in ext]), loc=b.loc(t.line))
        # ciphertext placed in the packet
        if fn == "encrypt_message":
            okm = any(x[0] == "call" and short(x[1]).endswith("crypto::encrypt_message") for x in walk(msg_e))
            if not okm:
                # the packet is built first and its message field assigned afterwards (`packet.message = encrypt(..)?`), nothing else
                pk_l = named_dest_of_stmt(b, pk[0])
                asg = [s_ for blk in b.blocks if blk.idx in b.live_blocks() for s_ in blk.stmts if s_.k == "a" and s_.lhs.proj and s_.lhs.local == pk_l and not any(x == "*" for x in s_.lhs.proj)]
                flds = [fmt(canon(p.rvalue(s_.rv, 0))) for s_ in asg]
                okm = len(flds) == 1 and "crypto::encrypt_message" in flds[0] and "message" in asg[0].lhs.field_names()
            r4.check(okm, "Session::encrypt_message: packet.message is the AEAD output", "Session::encrypt_message|ciphertext", "Session::encrypt_message puts %s in the packet" % fmt(msg_e)[:160], loc=b.loc(t.line))
        else:
            pk_l = named_dest(b, newp[0][1])
            asg = [s for blk in b.blocks if blk.idx in b.live_blocks() for s in blk.stmts if s.k == "a" and s.lhs.proj and s.lhs.local == pk_l and not any(x == "*" for x in s.lhs.proj)]
            flds = [(s, fmt(canon(p.rvalue(s.rv, 0)))) for s in asg]
            okm = len(flds) == 1 and "crypto::encrypt_message" in flds[0][1]
            r4.check(okm, "Session::encrypt_with_header: only packet.message is set afterwards, to the AEAD output", "Session::encrypt_with_header|ciphertext",
                     "Session::encrypt_with_header modifies the packet after authenticating it: %s" % [x[1][:120] for x in flds], loc=b.loc(t.line))
    # wire format vs associated data: Packet::encode sends iv.to_be_bytes() || mask(header.encode()) || message
    pe = facts.one(r"crate::packet::Packet::encode$")
    eh = facts.bodies.get("crate::packet::Packet::encrypt_header") or pe
    r4.analysed(pe, eh)
    p = Prov(pe, facts)
    bufl = []
    for blk in pe.blocks:
        for st_ in blk.stmts:
            if st_.k == "a" and st_.lhs.is_local() and st_.lhs.local == 0 and st_.rv.k == "use" and st_.rv.ops[0].place is not None and blk.idx in pe.live_blocks():
                bufl.append(base_local(pe, st_.rv.ops[0].place.local))
    bufl = sorted(set(bufl))
    parts = []
    inplace = None
    for l in bufl:
        ws = writes_into(pe, p, l)
        ws.sort(key=flow_key(pe, ws))
        parts = [F(src[0]) for wb, m, src, wt in ws]
        # the header written in the clear and masked in place (`buf.extend(header.encode()); cipher.apply_keystream(&mut buf[IV_LENGTH..])`)
        # before the message is appended: the same bytes as appending the masked header
        meths = [m for wb, m, src, wt in ws]
        if eh is pe and meths == ["extend_from_slice", "extend_from_slice", "apply_keystream", "extend_from_slice"]:
            tgt = slice_span(p.operand(ws[2][3].args[1]))
            if tgt[1] == ({}, 16) and tgt[2] is None and canon(tgt[0]) == canon(p.local(l)):
                inplace = ws[2]
                parts = parts[:2] + parts[3:]
    hdr_part = "crate::packet::Packet::encrypt_header(self, dst_id)" if eh is not pe else "crate::packet::PacketHeader::encode(self.header)"
    r4.check(parts == ["core::num::to_be_bytes(self.iv)", hdr_part, "self.message"], "Packet::encode: iv || masked header || message", "Packet::encode|parts",
             "Packet::encode writes %s" % parts, loc=pe.loc(pe.line))
    p = Prov(eh, facts)
    ks = [(bi, t) for bi, t in eh.calls() if callee_matches(t, r"StreamCipher::apply_keystream$")]
    okh = len(ks) == 1 and (F(p.operand(ks[0][1].args[1])) == "crate::packet::PacketHeader::encode(self.header)" or (inplace is not None and ks[0][0] == inplace[0])) and \
        (F(p.local(0)) == "crate::packet::PacketHeader::encode(self.header)" if eh is not pe else True)
    r4.check(okh, "Packet::encrypt_header: returns mask(self.header.encode())", "Packet::encrypt_header|source", "Packet::encrypt_header does not return the masked header.encode()", loc=eh.loc(eh.line))
    return r4, r5


def r6(ctx):
    """'keys of a handshake P completed': the session under which a message is decrypted was keyed by a handshake whose id-signature was
    verified under a key bound to the claimed id, and sessions enter the table only through that path. These are C01's rules R1-R3;
    they are re-evaluated here because C02's first sentence rests on them."""
    import c01
    rule = Rule("C02.R6", "the decrypting session was keyed by a handshake the claimed peer completed (identity binding of the handshake, gated session creation)",
                floor=8, engine="A-prov + A-dom + A-who (rules shared with C01)")
    subs = list(c01.r1_r2(ctx)) + [c01.r3(ctx), c01.r5(ctx)]
    for sub in subs:
        sub.finish()
        rule.functions |= sub.functions
        for o in sub.obligations:
            if o["verdict"] == "discharged":
                rule.ok("[%s] %s" % (o["rule"], o["site"]), o.get("detail", ""))
        for v in sub.violations:
            rule.fail("%s|%s" % (v.rule, v.key), v.msg, loc=v.loc, site="[%s] %s" % (v.rule, v.key), path=v.path)
    return rule


def r7(ctx):
    """session keys are exactly what a handshake derived: Keys values are built only by the two handshake constructors, moved as a whole
    (take / replace / swap) and never modified in place"""
    facts = ctx.facts
    rule = Rule("C02.R7", "key material is only ever what a handshake derived: constructed in the handshake constructors, moved whole, never modified in place", floor=4,
                engine="A-who + ADT field writers")
    KEYS = r"crate::handler::session::Keys"
    # constructions
    makers = set()
    for path, b in facts.bodies.items():
        for blk in b.blocks:
            if blk.idx not in b.live_blocks():
                continue
            for st_ in blk.stmts:
                if st_.k == "a" and st_.rv.k == "agg" and st_.rv.j.get("def") == KEYS:
                    makers.add(strip_closure(path))
    want = {S + "establish_from_challenge", S + "encrypt_with_header"}
    rule.check(makers == want, "Keys{..} is constructed only in establish_from_challenge / encrypt_with_header", "keys|constructors",
               "session keys are constructed in %s" % sorted(makers - want or makers))
    # field writes
    for fld in ("encryption_key", "decryption_key"):
        bad = [(wb, line, fmt_short(e)) for wb, bi, line, kind, e in field_writes(facts, KEYS + "$", fld) if kind == "assign"]
        rule.check(not bad, "Keys.%s is never assigned after construction" % fld, "keys|field-write|%s" % fld,
                   "Keys.%s is overwritten in %s" % (fld, [(strip_closure(wb.path).split("::")[-1], v) for wb, _, v in bad]), loc=bad[0][0].loc(bad[0][1]) if bad else None)
    # mutable access
    # Option::as_mut only hands the reference on; whoever receives the resulting `&mut Keys` is checked in turn
    allowed = re.compile(r"(option::Option::take|option::Option::as_mut|mem::replace|mem::swap|mem::take)$")
    n = 0
    for path, b in sorted(facts.bodies.items()):
        if not (path.startswith("crate::") or path.startswith("<crate::")):
            continue
        if re.match(r"<crate::handler::session::Keys as (zeroize::|std::ops::Drop|core::ops::Drop|std::cmp::|core::cmp::)", path):
            continue        # the derived Zeroize / PartialEq impls themselves
        for bi, t in b.calls():
            for a in t.args:
                if a.place is None or not a.place.is_local():
                    continue
                ty = b.local_ty(a.place.local)
                if not re.match(r"^&mut (std::option::Option<)?%s>?$" % KEYS, ty or ""):
                    continue
                n += 1
                nm = short(t.callee() or "")
                if not allowed.search(nm):
                    rule.fail("keys|mutated|%s|%s" % (strip_closure(path).split("::")[-1], nm.split("::")[-1]),
                              "%s hands a mutable reference to session key material to %s: keys must only be moved as a whole (take / replace / swap), never rewritten "
                              "in place - a wiped or altered key left in the session is a key no handshake produced" % (strip_closure(path), nm), loc=b.loc(t.line))
    rule.check(n >= 2, "mutable accesses to Keys / Option<Keys> are whole-value moves (%d sites: take, replace)" % n, "keys|mutable-sites",
               "expected the take / replace sites of the key rotation, found %d" % n)
    return rule


def run(ctx):
    G = lambda l, f, *a: guarded("C02." + l, f, ctx, *a)
    x = G("R1-R3", r1_r3)
    y = G("R2", r2)
    z = G("R4-R5", r4_r5)
    out = [x[0]] + y + x[1:] + z + G("R6", r6) + G("R7", r7)
    return out
