"""C17 — External address is updated only by a clear majority."""
import re

from analysis import (option_edges, Prov, Guards, fmt, fmt_short, walk, roots, short, comparison, find_calls, callee_matches,
                      must_pass, named_switches, const_int_of, cmp_intervals, normalised_cmp, canon, closures_of)
from facts import AnchorError, strip_closure
from harness import Rule, guarded

PID = "C17"
EXPLANATION = (
    "Who-may-call, provenance and dominance rules over the MIR of the PONG vote handling. R1: inside the service "
    "Enr::set_udp_socket on the local record is called only in handle_ip_vote_from_pong (one site per IP family); its "
    "address is the family's component of IpVote::majority() evaluated after inserting the current vote, filtered to "
    "differ from the advertised socket; the auto-NAT removal (remove_udp*_socket) and the user's explicit "
    "Discv5::update_local_enr_socket are listed, not flagged. R2: votes are kept in maps keyed by NodeId (one vote per "
    "peer), the key comes from the NodeAddress of the response, the socket from the PONG's ip/port. R3: "
    "filter_stale_find_most_frequent hands out a vote only past max_count >= minimum_threshold and past !(second_max_count >= "
    "threshold); votes whose expiry is not after `now` are skipped before they are counted; a minimum below 2 is rejected by "
    "IpVote::new and ConfigBuilder::enr_peer_update_min, and the service builds IpVote from config.enr_peer_update_min. R4: "
    "every successful update is announced with Event::SocketUpdated(the address just set).")
EXPLANATION += (" Added while testing: R2 also requires every eligible PONG to reach IpVote::insert; R3 also checks the shape round(max_count * (1 - CLEAR_MAJORITY_PERCENTAGE)) and pins the constant to the pinned tree's 0.3 (a reference value: a deliberate retune needs the reference updated).")
NOT_DECIDED = ["the max / second-max bookkeeping of the vote count (value-level; the crate's quickcheck properties sample it)",
               "sequence-number increase and signature validity are the enr crate's contract for set_udp_socket (trusted)"]
TRUSTED = ["enr::Enr::set_udp_socket bumps seq and re-signs", "HashMap keyed by NodeId keeps one entry per key"]

SV = "crate::service::Service::"
IV = "crate::service::ip_vote::IpVote::"


def r1_r4(ctx):
    facts = ctx.facts
    r1 = Rule("C17.R1", "who rewrites the advertised UDP socket, and with what", floor=4, engine="A-who + A-prov")
    r4 = Rule("C17.R4", "every successful update is announced as Event::SocketUpdated(the new address)", floor=2, engine="A-dom")
    callers = facts.callers_of(lambda n: n == "enr::Enr::<K>::set_udp_socket" or short(n) == "enr::Enr::set_udp_socket")
    who = sorted(set(strip_closure(p) for p in callers))
    svc = [w for w in who if w.startswith("crate::service::")]
    other = [w for w in who if not w.startswith("crate::service::")]
    r1.check(svc == [SV + "handle_ip_vote_from_pong"], "service-side callers of set_udp_socket: %s" % [w.split("::")[-1] for w in svc], "set_udp_socket|service-callers",
             "set_udp_socket is called in the service from %s" % svc)
    r1.check(set(other) <= {"crate::discv5::Discv5::update_local_enr_socket"}, "other callers (user API, listed): %s" % [w.split("::")[-1] for w in other],
             "set_udp_socket|other-callers", "set_udp_socket is also called from %s" % other)
    rem = facts.callers_of(lambda n: re.search(r"enr::Enr::(<K>::)?remove_udp6?_socket$", n) is not None)
    r1.note("remove_udp*_socket (auto-NAT revert, not PONG driven) called from: %s" % sorted(set(strip_closure(p).split("::")[-1] for p in rem)))
    # any other mutation of the local record in the service
    b = facts.one(re.escape(SV) + "handle_ip_vote_from_pong")
    r1.analysed(b)
    r4.analysed(b)
    prov = Prov(b, facts)
    g = Guards(b, prov, facts)
    sets = [(bi, t) for bi, t in b.calls() if short(t.callee() or "") == "enr::Enr::set_udp_socket"]
    if len(sets) != 2:
        r1.fail("set_udp_socket|sites", "set_udp_socket sites in handle_ip_vote_from_pong: %d (2 confirmed by hand)" % len(sets))
    inserts = [bi for bi, t in b.calls() if (t.callee() or "") == IV + "insert"]
    fam_edges = {}
    for bi, t, e in g.switches():
        if e[0] == "discr" and fmt_short(e[1]) == "socket":
            names, _ = g.variant_names(bi)
            for v, tb in t.vals:
                fam_edges[names.get(v, str(v))] = (bi, tb)
    for bi, t in sets:
        fam = [n for n, edge in fam_edges.items() if must_pass(b, [bi], via_edges=[edge])]
        fam = fam[0] if len(fam) == 1 else "?"
        a = prov.operand(t.args[1])
        rs = roots(a)
        comp = {"V4": "0", "V6": "1"}.get(fam)
        ok = bool(rs)
        clos_ok = False
        for x in rs:
            # (and_then(majority().N, closure) as Some).0
            if not (x[0] == "field" and x[2] == "0" and x[1][0] == "as"):
                ok = False
                continue
            c = x[1][1]
            if c[0] == "call" and short(c[1]).endswith("Option::filter") and len(c[2]) == 2:
                # `majority().N.filter(|m| ..)`: a filter cannot change the address, only withhold it
                src = c[2][0]
                if src[0] == "field" and src[2] == comp and src[1][0] == "call" and src[1][1] == IV + "majority":
                    clos_ok = True
                else:
                    ok = False
                continue
            if not (c[0] == "call" and short(c[1]).endswith("Option::and_then")):
                ok = False
                continue
            src, clo = c[2]
            if not (src[0] == "field" and src[2] == comp and src[1][0] == "call" and src[1][1] == IV + "majority"):
                ok = False
            if clo[0] == "agg":
                cb = facts.bodies.get(clo[1].split(":", 1)[1])
                if cb is not None:
                    r1.analysed(cb)
                    cp = Prov(cb, facts)
                    cg = Guards(cb, cp, facts)
                    somes = [blk for lhs, kind, payload, blk, _l in cp.defs.get(0, ()) if kind == "rv" and payload.k == "agg" and payload.j.get("variant") == "Some"]
                    diff = []
                    for sbi, st, se in cg.switches():
                        cc = comparison(se)
                        if cc and cc[0] in ("==", "!=") and any("local_ip" in fmt_short(y) for y in (cc[1], cc[2])):
                            f, tr = cg.bool_edges(sbi)
                            diff.append((sbi, tr if cc[0] == "!=" else f))
                    payload_ok = all(roots(cp.operand(payload.ops[0])) == {("param", 2, cb.local_name(2) or "arg2")}
                                     for lhs, kind, payload, blk, _l in cp.defs.get(0, ()) if kind == "rv" and payload.k == "agg" and payload.j.get("variant") == "Some")
                    clos_ok = bool(diff) and bool(somes) and payload_ok and not any(s in cb.reachable(0, removed_edges=diff) for s in somes)
        r1.check(ok and clos_ok, "[%s] new address = majority().%s filtered to differ from the advertised socket" % (fam, comp), "set_udp_socket|%s|source" % fam,
                 "the %s socket written into the local record derives from %s" % (fam, fmt_short(a)), loc=b.loc(t.line))
        maj_blocks = [x[3][1] for x in walk(a) if x[0] == "call" and x[1] == IV + "majority" and x[3][0] == b.path]
        r1.check(bool(inserts) and bool(maj_blocks) and must_pass(b, maj_blocks, via_blocks=inserts), "[%s] the current vote is inserted before the majority is evaluated" % fam,
                 "set_udp_socket|%s|vote-first" % fam, "the majority is evaluated without the current vote having been inserted", loc=b.loc(t.line))
        rec = fmt_short(prov.operand(t.args[0]))
        r1.check("self.local_enr" in rec and "self.enr_key" in fmt_short(prov.operand(t.args[2])), "[%s] local_enr.write().set_udp_socket(addr, &enr_key.read())" % fam,
                 "set_udp_socket|%s|record" % fam, "set_udp_socket is applied to %s" % rec, loc=b.loc(t.line))
        # R4
        skey = (b.path, bi)
        ok_edges = []
        for sbi, st, se in g.switches():
            if se[0] == "discr" and se[1][0] == "call" and se[1][3] == skey:
                names, _ = g.variant_names(sbi)
                ok_edges += [tb for v, tb in st.vals if names.get(v) == "Ok"]
                # `if let Err(e) = result { .. } else { .. }`: the Ok case is the `otherwise` edge
                if not any(names.get(v) == "Ok" for v, _ in st.vals) and any(names.get(v) == "Err" for v, _ in st.vals) and st.otherwise is not None:
                    ok_edges.append(st.otherwise)
        ann = []
        for abi, at in b.calls():
            if (at.callee() or "") == SV + "send_event":
                ev = prov.operand(at.args[1])
                for x in walk(ev):
                    if x[0] == "agg" and x[1].endswith("Event::SocketUpdated") and roots(x[2][0][1]) == rs:
                        ann.append(abi)
        okk = bool(ok_edges) and bool(ann)
        for oe in ok_edges:
            r = b.reachable(oe, removed_blocks=ann)
            if any(x in r for x in b.return_blocks()):
                okk = False
        r4.check(okk, "[%s] Ok(set_udp_socket) leads to send_event(SocketUpdated(that address))" % fam, "announce|%s" % fam,
                 "a successful %s socket update is not announced with Event::SocketUpdated of the new address" % fam, loc=b.loc(t.line))
    return r1, r4


def r2(ctx):
    facts = ctx.facts
    rule = Rule("C17.R2", "one vote per authenticated peer: maps keyed by NodeId, key from the response's NodeAddress, socket from the PONG", floor=4,
                engine="ADT fact + A-prov")
    adt = facts.adts.get("crate::service::ip_vote::IpVote")
    if adt is None:
        raise AnchorError("IpVote ADT not found")
    f = {x["name"]: x["ty"] for x in adt["variants"][0]["fields"]}
    rule.check(all(re.match(r"std::collections::HashMap<enr::NodeId, \(std::net::SocketAddrV[46], std::time::Instant\)", f.get(n, "")) for n in ("ipv4_votes", "ipv6_votes")),
               "votes: HashMap<NodeId, (SocketAddrV4|V6, Instant)>", "IpVote|maps", "IpVote's vote maps are %s / %s" % (f.get("ipv4_votes"), f.get("ipv6_votes")))
    ins = facts.one(re.escape(IV) + "insert")
    rule.analysed(ins)
    p = Prov(ins, facts)
    n = 0
    for bi, t in ins.calls():
        if callee_matches(t, r"HashMap::<.*>::insert$", r"HashMap::insert$"):
            n += 1
            k = fmt_short(p.operand(t.args[1]))
            v = p.operand(t.args[2])
            exp_ok = any(x[0] == "call" and short(x[1]).endswith("Instant as std::ops::Add>::add") or (x[0] == "call" and "Add" in x[1]) for x in walk(v)) and \
                "vote_duration" in fmt(v) and "Instant::now" in fmt(v)
            rule.check(k == "key" and exp_ok, "IpVote::insert stores (socket, now + vote_duration) under the peer's id", "IpVote::insert|entry",
                       "IpVote::insert stores %s under %s" % (fmt_short(v), k), loc=ins.loc(t.line))
    if n != 2:
        rule.fail("IpVote::insert|overwrite", "IpVote::insert stores a vote with HashMap::insert (replacing the peer's previous vote) at %d sites instead of 2 (one per family): "
                  "a peer's earlier vote may survive its latest one" % n, loc=ins.loc(ins.line))
    hv = facts.one(re.escape(SV) + "handle_ip_vote_from_pong")
    pv = Prov(hv, facts)
    for bi, t in hv.calls():
        if (t.callee() or "") == IV + "insert":
            rule.check(fmt_short(pv.operand(t.args[1])) == "node_id" and fmt_short(pv.operand(t.args[2])) == "socket", "vote = (node_id, socket) of this PONG",
                       "vote|args", "handle_ip_vote_from_pong votes (%s, %s)" % (fmt_short(pv.operand(t.args[1])), fmt_short(pv.operand(t.args[2]))), loc=hv.loc(t.line))
    # every eligible PONG is recorded: the vote is skipped only when voting is off (ip_votes None, should_count_ip_vote false) or the peer
    # is not eligible - in particular a vote that *confirms* the advertised address must overwrite the peer's earlier, different vote
    gv = Guards(hv, pv, facts)
    ins_blocks = [bi for bi, t in hv.calls() if (t.callee() or "") == IV + "insert"]
    skip = []
    _some, _none = option_edges(gv, lambda x: fmt_short(x).endswith("self.ip_votes") or fmt_short(x) == "Option::as_mut(self.ip_votes)")
    skip += _none
    for bi, t, e in gv.switches():
        inner, neg = e, False
        while inner[0] == "un" and inner[1] == "Not":
            inner, neg = inner[2], not neg
        if inner[0] == "discr":
            continue
        txt = fmt_short(inner)
        if "should_count_ip_vote" in txt or "require_more_ip_votes" in txt or "is_connected_and_outgoing" in txt:
            f_, tr_ = gv.bool_edges(bi)
            skip.append((bi, tr_ if neg else f_))
    rr = hv.reachable(0, removed_edges=skip, removed_blocks=ins_blocks)
    rule.check(bool(ins_blocks) and bool(skip) and not any(x in rr for x in hv.return_blocks()),
               "handle_ip_vote_from_pong records the vote of every eligible PONG (skipped only if voting is off or the peer is not eligible)", "vote|not-recorded",
               "handle_ip_vote_from_pong can return for an eligible PONG without recording its vote: the peer's earlier vote (for another address) keeps counting although "
               "its latest report differs", loc=hv.loc(hv.line))
    hr = facts.one(re.escape(SV) + "handle_rpc_response")
    rule.analysed(hr)
    pr = Prov(hr, facts)
    for bi, t in hr.calls():
        if (t.callee() or "") == SV + "handle_ip_vote_from_pong":
            a1, a2 = fmt_short(pr.operand(t.args[1])), fmt_short(pr.operand(t.args[2]))
            rule.check(a1 == "node_address.node_id" and a2 == "SocketAddr::new(response.body.ip, NonZero::get(response.body.port))",
                       "the voter is the responding NodeAddress's id, the vote the PONG's ip:port", "vote|source", "the vote is cast as (%s, %s)" % (a1, a2), loc=hr.loc(t.line))
    return rule


def r3(ctx):
    facts = ctx.facts
    rule = Rule("C17.R3", "winner shape: at least minimum_threshold unexpired votes, no rival within the margin; minimum >= 2", floor=5,
                engine="A-dom (named-variable guards)")
    b = facts.one(re.escape(IV) + "filter_stale_find_most_frequent")
    rule.analysed(b)
    p = Prov(b, facts)
    sw = list(named_switches(b))
    enough = [(bi, tr) for bi, op, l, r_, f, tr in sw if (op, l, r_) == (">=", "max_count", "minimum_threshold")] + \
             [(bi, f) for bi, op, l, r_, f, tr in sw if (op, l, r_) == ("<", "max_count", "minimum_threshold")]
    clear = [(bi, f) for bi, op, l, r_, f, tr in sw if (op, l, r_) == (">=", "second_max_count", "threshold")] + \
            [(bi, tr) for bi, op, l, r_, f, tr in sw if (op, l, r_) == ("<", "second_max_count", "threshold")]
    fresh = [(bi, f) for bi, op, l, r_, f, tr in sw if (op, l, r_) == ("<=", "instant", "now")] + \
            [(bi, tr) for bi, op, l, r_, f, tr in sw if (op, l, r_) == (">", "instant", "now")]
    # result := max_vote sites
    res_l = None
    for i, l in enumerate(b.locals):
        if l.get("name") == "result":
            res_l = i
    if res_l is None:
        raise AnchorError("filter_stale_find_most_frequent: local `result` not found")
    win_sites = []
    # where a value that may be a winner enters `result`: followed backwards through plain moves (a helper's return place, a temporary)
    seen_l, work = set(), [res_l]
    while work:
        cur = work.pop()
        if cur in seen_l:
            continue
        seen_l.add(cur)
        for lhs, kind, payload, blk, _l in p.defs.get(cur, ()):
            if blk not in b.live_blocks():
                continue
            if kind == "rv" and payload.k == "agg" and payload.j.get("variant") == "None":
                continue
            if kind == "rv" and payload.k == "use" and payload.ops[0].place is not None and payload.ops[0].place.is_local() and \
                    not b.local_name(payload.ops[0].place.local) and payload.ops[0].place.local not in range(1, b.arg_count + 1):
                work.append(payload.ops[0].place.local)
                continue
            win_sites.append(blk)
    if not win_sites:
        raise AnchorError("filter_stale_find_most_frequent: no site hands out a winner")
    for name, edges, msg in (("threshold", enough, "with fewer than minimum_threshold votes"), ("margin", clear, "although a rival is within the clear-majority margin")):
        r = b.reachable(0, removed_edges=edges)
        rule.check(bool(edges) and not any(s in r for s in win_sites), "a winner is reported only past the %s test" % name, "winner|%s" % name,
                   "filter_stale_find_most_frequent can report a winner %s" % msg, loc=b.loc(b.line))
    # the margin itself: threshold = round(max_count * (1 - CLEAR_MAJORITY_PERCENTAGE)), and the constant has the value the rules were confirmed
    # with (the property names "the clear-majority margin"; a smaller constant lets a rival that is still close win the address)
    th = [i for i, l in enumerate(b.locals) if l.get("name") == "threshold"]
    okm, shown = False, "no local `threshold`"
    if th:
        e = canon(p.local(th[0]))
        shown = fmt_short(e)[:160]
        muls = [x for x in walk(e) if x[0] == "bin" and x[1] == "Mul"]
        subs = [x for x in walk(e) if x[0] == "bin" and x[1] == "Sub" and x[3][0] == "const" and str(x[3][1]).startswith("crate::service::ip_vote::CLEAR_MAJORITY_PERCENTAGE") and
                x[2] == ("const", "f:1.0")]
        rounds = [x for x in walk(e) if x[0] == "call" and re.search(r"f64(::<impl f64>)?::round$", x[1])]
        okm = bool(muls) and bool(subs) and bool(rounds) and any(subs[0] in walk(m) for m in muls)
    rule.check(okm, "threshold = round(max_count * (1 - CLEAR_MAJORITY_PERCENTAGE))", "margin|shape", "the rival threshold is computed as %s" % shown, loc=b.loc(b.line))
    cm = facts.consts.get("crate::service::ip_vote::CLEAR_MAJORITY_PERCENTAGE") or {}
    rule.check(cm.get("v") == "0.3", "CLEAR_MAJORITY_PERCENTAGE = 0.3 (reference value of the pinned tree)", "margin|constant",
               "CLEAR_MAJORITY_PERCENTAGE evaluates to %s, not the 0.3 the margin was confirmed with: rivals between the two margins no longer block an update "
               "(if the margin was retuned on purpose, the reference value in rules/c17.py must be updated with it)" % cm.get("v"))
    # counting only unexpired votes
    counts = [bi for bi, t in b.calls() if callee_matches(t, r"hash_map::Entry::<.*>::or_default$", r"Entry::or_default$") or callee_matches(t, r"HashMap::<.*>::insert$", r"HashMap::insert$")]
    r = b.reachable(0, removed_edges=fresh)
    stale_ok = bool(fresh) and bool(counts) and not any(c in r for c in counts)
    if not stale_ok and counts:
        # the test as an adaptor on the iterator the counting loop runs over (`votes.iter().filter(|(_, (_, instant))| instant > &now)`)
        fresh_clo = set()
        for cb, cp, to_caller in closures_of(facts, b):
            c = comparison(canon(cp.local(0)))
            if not c or c[0] not in (">", "<"):
                continue
            later, earlier = (c[1], c[2]) if c[0] == ">" else (c[2], c[1])
            from_item = any(x[0] == "param" and x[1] >= 2 for x in walk(later)) and not any(x[0] == "upvar" for x in walk(later))
            if from_item and fmt_short(earlier) == "now":
                fresh_clo.add(cb.path)
        filt_sites = set()
        for bi, t in b.calls():
            if callee_matches(t, r"Iterator>?::filter$") and len(t.args) == 2:
                clo = p.operand(t.args[1])
                if clo[0] == "agg" and clo[1].split(":", 1)[-1] in fresh_clo:
                    filt_sites.add((b.path, bi))
        nexts = [(bi, t) for bi, t in b.calls() if callee_matches(t, r"Iterator>?::next$") and any(c in b.reachable(bi) for c in counts)]
        stale_ok = bool(filt_sites) and bool(nexts) and all(
            any(x[0] == "call" and len(x) > 3 and x[3] in filt_sites for x in walk(p.operand(t.args[0]))) for bi, t in nexts)
    rule.check(stale_ok, "votes are counted / kept only if their expiry is after now", "votes|stale",
               "stale votes are counted towards the majority", loc=b.loc(b.line))
    # the threshold passed in is the configured minimum
    mj = facts.one(re.escape(IV) + "majority")
    rule.analysed(mj)
    pm = Prov(mj, facts)
    for bi, t in mj.calls():
        if (t.callee() or "").startswith(IV + "filter_stale_find_most_frequent"):
            a0, a1 = fmt_short(pm.operand(t.args[0])), fmt_short(pm.operand(t.args[1]))
            rule.check(a0 in ("self.ipv4_votes", "self.ipv6_votes") and a1 == "self.minimum_threshold", "majority() evaluates %s against self.minimum_threshold" % a0,
                       "majority|args|%s" % a0, "majority() evaluates (%s, %s)" % (a0, a1), loc=mj.loc(t.line))
    # minimum >= 2
    for fn, var in ((IV + "new", "minimum_threshold"), ("crate::config::ConfigBuilder::enr_peer_update_min", "min")):
        nb = facts.one(re.escape(fn))
        rule.analysed(nb)
        small = [(bi, tr) for bi, op, l, r_, f, tr in named_switches(nb) if (op, l, r_) == ("<", var, 2)] + \
                [(bi, f) for bi, op, l, r_, f, tr in named_switches(nb) if (op, l, r_) == (">=", var, 2)]
        okk = bool(small)
        for sb, tgt in small:
            rr = nb.reachable(tgt)
            if any(x in rr for x in nb.return_blocks()):
                okk = False
        rule.check(okk, "%s rejects a minimum below 2" % fn.split("::")[-1], "minimum|%s" % fn.split("::")[-1], "%s accepts a vote minimum below 2" % fn, loc=nb.loc(nb.line))
    # wiring
    found = False
    for pth, sb in facts.bodies.items():
        if not pth.startswith(SV + "spawn"):
            continue
        sp = Prov(sb, facts)
        for bi, t in sb.calls():
            if (t.callee() or "") == IV + "new":
                found = True
                a = fmt_short(sp.operand(t.args[0]))
                rule.check(a.endswith("config.enr_peer_update_min"), "Service builds IpVote::new(config.enr_peer_update_min, ..)", "wiring|minimum",
                           "the service builds IpVote with minimum %s" % a, loc=sb.loc(t.line))
    if not found:
        raise AnchorError("IpVote::new call in Service::spawn not found")
    return rule


def run(ctx):
    G = lambda l, f, *a: guarded("C17." + l, f, ctx, *a)
    x = G("R1-R4", r1_r4)
    return x[:1] + G("R2", r2) + G("R3", r3) + x[1:]
