"""Check harness: builds/caches the fact export for the current /repo working tree, runs the rules
of one property, writes the evidence file, applies the known-findings table, prints the verdict.
"""
import fcntl
import hashlib
import json
import os
import shutil
import subprocess
import sys
import tempfile
import time

from facts import Facts, AnchorError

VERIF = os.path.dirname(os.path.dirname(os.path.abspath(__file__)))
REPO = os.environ.get("VERIF_REPO", "/repo")
OUT = os.environ.get("VERIF_OUT_DIR") or os.path.join(VERIF, "out")
EVIDENCE_DIR = os.environ.get("VERIF_EVIDENCE_DIR") or os.path.join(VERIF, "evidence")
DRIVER_DIR = os.path.join(VERIF, "driver")
DRIVER = os.path.join(DRIVER_DIR, "target", "release", "discv5-facts-driver")
FIXTURES = os.path.join(VERIF, "fixtures")

COMMON_ASSUMPTIONS = [
    "rustc nightly's mir_built (after_expansion) faithfully represents the source of /repo's working tree",
    "analysed configuration: library target, default features, cfg(test) off; feature `libp2p` is not analysed",
    "path rules follow normal control flow only: unwind edges and the cancel (drop) successor of an await are excluded",
    "callees are resolved with Instance::try_resolve; library functions are trusted to behave as documented (table in DESIGN.md sec. 6)",
    "the verdict is on the structural clauses named in `coverage.rules`, which are necessary conditions of the property, not on the behaviour as a whole",
]


def sh(cmd, **kw):
    return subprocess.run(cmd, shell=True, stdout=subprocess.PIPE, stderr=subprocess.STDOUT, text=True, **kw)


def nightly_sysroot():
    r = sh("rustc +nightly --print sysroot")
    return r.stdout.strip()


def ensure_driver():
    src = os.path.join(DRIVER_DIR, "src", "main.rs")
    if os.path.exists(DRIVER) and os.path.getmtime(DRIVER) >= os.path.getmtime(src):
        return
    r = sh("cargo +nightly build --release --offline", cwd=DRIVER_DIR)
    if r.returncode != 0 or not os.path.exists(DRIVER):
        sys.stderr.write(r.stdout)
        raise RuntimeError("driver build failed")


def tree_hash(root, extra_files=()):
    h = hashlib.sha256()
    files = []
    src = os.path.join(root, "src")
    for dp, dn, fn in os.walk(src):
        dn.sort()
        for f in sorted(fn):
            files.append(os.path.join(dp, f))
    for f in ("Cargo.toml", "Cargo.lock", "build.rs"):
        p = os.path.join(root, f)
        if os.path.exists(p):
            files.append(p)
    extra = set(extra_files)
    files.extend(extra_files)
    for p in files:
        h.update((os.path.basename(p) if p in extra else os.path.relpath(p, root)).encode())
        h.update(b"\0")
        with open(p, "rb") as fh:
            h.update(fh.read())
        h.update(b"\0")
    return h.hexdigest()


def _save_deps_template(target_dir, tpl, crate_name):
    """copy a finished target directory to `tpl`, minus everything that belongs to the crate itself"""
    import glob
    os.makedirs(os.path.dirname(tpl), exist_ok=True)
    with open(os.path.join(os.path.dirname(tpl), ".lock-" + os.path.basename(tpl)), "w") as lock:
        fcntl.flock(lock, fcntl.LOCK_EX)
        if os.path.exists(os.path.join(tpl, ".ready")):
            return
        part = tpl + ".part"
        shutil.rmtree(part, ignore_errors=True)
        shutil.copytree(target_dir, part, symlinks=True)
        for pat in ("*/.fingerprint/%s-*" % crate_name, "*/deps/%s-*" % crate_name, "*/deps/lib%s-*" % crate_name, "*/incremental",
                    "*/build/%s-*" % crate_name, "*/lib%s*" % crate_name, "*/%s.d" % crate_name):
            for f in glob.glob(os.path.join(part, pat)):
                if os.path.isdir(f):
                    shutil.rmtree(f, ignore_errors=True)
                else:
                    os.remove(f)
        shutil.rmtree(tpl, ignore_errors=True)
        os.rename(part, tpl)
        open(os.path.join(tpl, ".ready"), "w").close()


def export_facts(crate_dir, crate_name, profile, label):
    """run the driver over `crate_dir`; returns the path of the cached fact file"""
    ensure_driver()
    cache_dir = os.environ.get("VERIF_FACTS_DIR") or os.path.join(OUT, "facts")
    os.makedirs(cache_dir, exist_ok=True)
    # The tree is snapshotted first and both the cache key and the compilation use the snapshot: facts can then never be filed under the
    # hash of a tree other than the one that was compiled, even if /repo is edited while a check is running.
    tmp = tempfile.mkdtemp(prefix="discv5-verif-")
    try:
        snap = os.path.join(tmp, "snapshot")
        subprocess.run(["rsync", "-a", "--exclude", "/target", "--exclude", "/.git", crate_dir.rstrip("/") + "/", snap + "/"], check=True)
        key = tree_hash(snap, extra_files=[DRIVER])[:20]
        target = os.path.join(cache_dir, "%s-%s-%s.jsonl" % (label, key, profile))
        lock_path = os.path.join(cache_dir, ".lock-%s-%s" % (label, profile))
        with open(lock_path, "w") as lock:
            fcntl.flock(lock, fcntl.LOCK_EX)
            if os.path.exists(target) and os.path.getsize(target) > 0:
                return target, True
            facts_out = os.path.join(tmp, "facts")
            os.makedirs(facts_out)
            env = dict(os.environ)
            env.update({
                "LD_LIBRARY_PATH": nightly_sysroot() + "/lib",
                "RUSTFLAGS": "-Zmir-opt-level=0 -Awarnings",
                "RUSTC_WORKSPACE_WRAPPER": DRIVER,
                "CARGO_TARGET_DIR": os.path.join(tmp, "target"),
                "CARGO_NET_OFFLINE": "true",
                "FACTS_OUT": facts_out,
                "FACTS_CRATES": crate_name,
            })
            env.pop("RUSTC_WRAPPER", None)
            # The corpus runner exports facts for hundreds of scratch copies that share their dependencies: it names a directory (outside
            # /repo and /verif, removed when it ends) in which the first export leaves its target directory *without the artefacts of the
            # crate itself*; later exports start from a copy of it, so only the crate is compiled (by the driver, always: its fingerprints
            # are not in the template, and a missing fact file fails the export).
            tpl_root = os.environ.get("VERIF_DEPS_TEMPLATE") if crate_name == "discv5" else None
            tpl = os.path.join(tpl_root, profile) if tpl_root else None
            if tpl and os.path.exists(os.path.join(tpl, ".ready")):
                subprocess.run(["cp", "-a", tpl + "/.", os.path.join(tmp, "target") + "/"], check=False)
            cmd = "cargo +nightly check --offline --lib" + (" --release" if profile == "release" else "")
            r = subprocess.run(cmd, shell=True, cwd=snap, env=env, stdout=subprocess.PIPE,
                               stderr=subprocess.STDOUT, text=True)
            produced = [f for f in os.listdir(facts_out) if f.startswith(crate_name + "-")]
            if r.returncode != 0 or len(produced) != 1:
                sys.stderr.write(r.stdout[-6000:])
                raise RuntimeError("fact export failed for %s (%s): rc=%s files=%s" % (
                    crate_dir, profile, r.returncode, produced))
            if tpl and not os.path.exists(os.path.join(tpl, ".ready")):
                _save_deps_template(os.path.join(tmp, "target"), tpl, crate_name)
            shutil.move(os.path.join(facts_out, produced[0]), target + ".tmp")
            os.replace(target + ".tmp", target)
    finally:
        shutil.rmtree(tmp, ignore_errors=True)
    with open(lock_path, "w") as lock:
        fcntl.flock(lock, fcntl.LOCK_EX)
        # prune old cache entries of this label/profile (keep the 4 newest)
        olds = sorted((f for f in os.listdir(cache_dir)
                       if f.startswith(label + "-") and f.endswith("-%s.jsonl" % profile)),
                      key=lambda f: os.path.getmtime(os.path.join(cache_dir, f)))
        for f in olds[:-4]:
            try:
                os.remove(os.path.join(cache_dir, f))
            except OSError:
                pass
    return target, False


_FACTS_CACHE = {}


def load_facts(kind, profile="dev"):
    k = (kind, profile)
    if k in _FACTS_CACHE:
        return _FACTS_CACHE[k]
    if kind == "repo":
        path, cached = export_facts(REPO, "discv5", profile, "repo")
    elif kind == "fixtures":
        path, cached = export_facts(FIXTURES, "fixtures", profile, "fixtures")
    else:
        raise ValueError(kind)
    f = Facts(path)
    if f.meta is None or f.meta["crate"] != ("discv5" if kind == "repo" else "fixtures"):
        raise RuntimeError("fact file %s is foreign" % path)
    want_debug = profile != "release"
    if f.meta["debug_assertions"] != want_debug:
        raise RuntimeError("fact file %s has the wrong profile" % path)
    f.path = path
    f.cached = cached
    _FACTS_CACHE[k] = f
    return f


# ------------------------------------------------------------------ results

class Violation:
    def __init__(self, rule, key, msg, loc=None, path=None):
        self.rule = rule          # e.g. "C13.R1"
        self.key = key            # line-free identity
        self.msg = msg
        self.loc = loc            # file:line for humans
        self.path = path          # optional list of steps

    def full_key(self):
        return "%s|%s" % (self.rule, self.key)

    def to_json(self):
        d = {"rule": self.rule, "key": self.full_key(), "message": self.msg}
        if self.loc:
            d["location"] = self.loc
        if self.path:
            d["path"] = self.path
        return d


class Rule:
    """collects obligations of one rule"""

    def __init__(self, rid, text, floor=0, engine=""):
        self.id = rid
        self.text = text
        self.floor = floor
        self.engine = engine
        self.obligations = []    # dicts: site, verdict(bool), detail
        self.violations = []
        self.functions = set()
        self.notes = []

    def analysed(self, *bodies):
        for b in bodies:
            self.functions.add(b if isinstance(b, str) else b.path)

    def ok(self, site, detail=""):
        self.obligations.append({"rule": self.id, "site": site, "verdict": "discharged", "detail": detail})

    def fail(self, key, msg, loc=None, site=None, path=None):
        self.obligations.append({"rule": self.id, "site": site or key, "verdict": "VIOLATED", "detail": msg,
                                 "location": loc})
        self.violations.append(Violation(self.id, key, msg, loc, path))

    def check(self, cond, site, key, msg, loc=None, detail=""):
        if cond:
            self.ok(site, detail)
        else:
            self.fail(key, msg, loc, site)
        return cond

    def note(self, s):
        self.notes.append(s)

    def finish(self):
        """fail closed if fewer instances were found than confirmed by hand"""
        n = len(self.obligations)
        if n < self.floor:
            self.violations.append(Violation(
                self.id, "floor", "rule matched %d instance(s), fewer than the floor of %d confirmed by hand: "
                "an anchor moved or disappeared; the rule fails closed" % (n, self.floor)))
        return self


def guarded(label, fn, *args):
    """run one rule function; a missing anchor becomes a fail-closed violation of that rule alone, so the other rules of the property still report"""
    try:
        r = fn(*args)
        return list(r) if isinstance(r, (tuple, list)) else [r]
    except AnchorError as e:
        rule = Rule(label, "anchor of this rule not found (fails closed)")
        rule.violations.append(Violation(label, "anchor", "anchor not found: %s (the construct this rule is anchored in moved or disappeared; the rule fails closed)" % e))
        return [rule]
    except Exception as e:      # noqa: BLE001 - an analyser that cannot cope with the code it is given must not pass
        import traceback
        tb = traceback.format_exc().strip().splitlines()
        rule = Rule(label, "the rule could not be evaluated on this tree (fails closed)")
        rule.violations.append(Violation(label, "not-evaluated", "the rule engine could not evaluate this rule on the current tree (%s: %s at %s); it fails closed" % (
            type(e).__name__, e, tb[-3].strip() if len(tb) >= 3 else "?")))
        return [rule]


def anchor_guard(rule, fn):
    """run fn(); an AnchorError becomes a fail-closed violation of the rule"""
    try:
        fn()
    except AnchorError as e:
        rule.violations.append(Violation(rule.id, "anchor:" + str(e), "anchor not found: %s (fails closed)" % e))
    return rule


def load_known():
    p = os.path.join(VERIF, "known_findings.json")
    if not os.path.exists(p):
        return {"known": [], "fixed": []}
    with open(p) as f:
        return json.load(f)


def run_property(pid, tier, rules_fn, explanation, not_decided, trusted_base=(), extra_assumptions=(),
                 selftest_fn=None):
    """rules_fn(ctx) -> list[Rule]; handles evidence, known findings and the exit code"""
    t0 = time.time()
    seed = int(os.environ.get("VERIF_SEED", "0") or 0)
    ctx = Ctx(tier)
    rules = []
    crash = None
    try:
        rules = rules_fn(ctx)
    except AnchorError as e:
        crash = "anchor not found: %s" % e
    for r in rules:
        r.finish()
    # Helper functions that did not exist in the pinned tree (a refactoring may have moved a guard or a release into one): most rules are
    # intraprocedural, so whenever such helpers exist the rules are evaluated on facts in which they are spliced into their callers
    # (inline.py), and that evaluation is the verdict. The plain evaluation is kept in the evidence.
    inlined_note = None
    if not os.environ.get("VERIF_NO_INLINE"):
        try:
            ctx2 = Ctx(tier, inline_helpers=True)
            _ = ctx2.facts
            helpers = ctx2.inlined_helpers()
            if helpers:
                rules2 = rules_fn(ctx2)
                for r in rules2:
                    r.finish()
                plain = sorted(set(v.full_key() for r in rules for v in r.violations) | ({"crash"} if crash else set()))
                inlined_note = {"helpers_inlined": sorted(helpers), "violations_without_inlining": plain[:12],
                                "why": "functions that are not part of the pinned tree are analysed in the context of their callers"}
                rules, crash, ctx = rules2, None, ctx2
        except AnchorError as e:
            crash = "anchor not found (after helper inlining): %s" % e
    # checker self-validation on the fixture crate: fire on bad_*, silent on good_*
    if selftest_fn is not None and not os.environ.get("VERIF_NO_SELFTEST"):
        try:
            st = selftest_fn(ctx)
        except AnchorError as e:
            st = [("selftest", "anchor: %s" % e, True, False)]
        ctx.selftest = [{"rule": r_, "fixture": n, "expected_fire": bool(exp), "fired": bool(got)} for r_, n, exp, got in st]
        sr = Rule(pid + ".selftest", "rule engine fires on the violating fixtures and is silent on their repaired twins",
                  floor=0, engine="E4 fixtures")
        for r_, n, exp, got in st:
            if bool(exp) != bool(got):
                sr.violations.append(Violation(pid + ".selftest", "%s|%s" % (r_, n),
                                               "checker self-test failed: fixture %s expected %s, rule %s %s" % (
                                                   n, "to fire" if exp else "silence", r_, "fired" if got else "was silent")))
        if not st:
            sr.violations.append(Violation(pid + ".selftest", "empty", "no fixture was evaluated"))
        if sr.violations:
            rules.append(sr)
    # thorough: checker self-validation against the mutant corpus of this property and the benign refactorings (E4).
    # It is a statement about the checker, not about the tree: recorded in the evidence, never a VIOLATION.
    detector = None
    if tier == "thorough" and not os.environ.get("VERIF_NO_SELFTEST"):
        detector = run_detector_selftest(pid)
    known = load_known()
    known_keys = {k["key"]: k for k in known.get("known", []) if k.get("property") == pid}
    violations = []
    known_hits = []
    for r in rules:
        for v in r.violations:
            if v.full_key() in known_keys:
                known_hits.append((v, known_keys[v.full_key()]))
            else:
                violations.append(v)
    if crash:
        violations.append(Violation(pid + ".harness", "crash", crash))
    obligations = sum(len(r.obligations) for r in rules)
    discharged = sum(1 for r in rules for o in r.obligations if o["verdict"] == "discharged")
    functions = sorted(set().union(*[r.functions for r in rules])) if rules else []
    samples = []
    for r in rules:
        for o in r.obligations[:3]:
            samples.append(o)
    for r in rules:
        for o in r.obligations:
            if o["verdict"] != "discharged":
                samples.append(o)
    coverage = {
        "explanation": explanation,
        "obligations": obligations,
        "discharged": discharged,
        "checker_cmd": "./check %s --tier %s" % (pid, tier),
        "trusted_base": list(trusted_base),
        "rules": [{
            "id": r.id, "engine": r.engine, "text": r.text, "instances": len(r.obligations), "floor": r.floor,
            "violations": len(r.violations), "notes": r.notes,
        } for r in rules],
        "functions_analysed": functions,
        "bodies_in_fact_file": ctx.body_count(),
        "profiles": ctx.profiles_used(),
        "fact_files": ctx.fact_files(),
        "samples": samples,
        "not_decided": list(not_decided),
        "known_findings_matched": [v.full_key() for v, _ in known_hits],
        "selftest": ctx.selftest,
        "detector_selftest": detector,
        "helper_inlining": inlined_note,
        "names_normalised": ctx.renamed_summary(),
    }
    ev = {
        "property_id": pid,
        "tier": tier,
        "seed": seed,
        "level": "other",
        "coverage": coverage,
        "assumptions": COMMON_ASSUMPTIONS + list(extra_assumptions),
        "wall_s": round(time.time() - t0, 2),
        "violations": len(violations),
    }
    os.makedirs(EVIDENCE_DIR, exist_ok=True)
    with open(os.path.join(EVIDENCE_DIR, pid + ".json"), "w") as f:
        json.dump(ev, f, indent=1)
        f.write("\n")
    for r in rules:
        print("%-8s %-3d obligations, %-2d violation(s)  [%s] %s" % (
            r.id, len(r.obligations), len(r.violations), r.engine, r.text[:90]))
    for v, k in known_hits:
        print("KNOWN-FINDING: property=%s %s" % (pid, k.get("what", v.msg)))
    if violations:
        os.makedirs(OUT, exist_ok=True)
        replay = os.path.join(OUT, "%s.violation.json" % pid)
        with open(replay, "w") as f:
            json.dump({"property": pid, "tier": tier, "violations": [v.to_json() for v in violations]}, f, indent=1)
        for v in violations:
            print("  violated %s at %s: %s" % (v.rule, v.loc or "-", v.msg))
            print("    key: %s" % v.full_key())
        print("VIOLATION property=%s replay=%s" % (pid, replay))
        return 1
    print("OK property=%s obligations=%d discharged=%d (%.1fs)" % (pid, obligations, discharged, time.time() - t0))
    return 0


def run_detector_selftest(pid):
    import subprocess
    import tempfile
    fd, path = tempfile.mkstemp(prefix="discv5-selftest-", suffix=".json")
    os.close(fd)
    try:
        jobs = str(max(2, min(10, (os.cpu_count() or 4) - 4)))
        p = subprocess.run([sys.executable, os.path.join(VERIF, "tools", "run_mutants.py"), "--as-prop", pid, "--relevant-benign", "--jobs", jobs, "--json", path],
                           stdout=subprocess.PIPE, stderr=subprocess.STDOUT, text=True)
        try:
            with open(path) as f:
                res = json.load(f)
        except Exception:
            return {"error": "mutant runner produced no table", "tail": p.stdout[-400:]}
    finally:
        if os.path.exists(path):
            os.remove(path)
    # representation stress (tools/stress_facts.py): renamed variables, shifted lines, permuted blocks and locals must not change the verdict
    sp = subprocess.run([sys.executable, os.path.join(VERIF, "tools", "stress_facts.py"), "--only", pid], stdout=subprocess.PIPE, stderr=subprocess.STDOUT, text=True)
    stress = {"modes": ["rename", "lines", "blocks", "locals", "mirror"], "alarms": [l for l in sp.stdout.splitlines() if " ALARM " in l], "exit": sp.returncode}
    muts = [r for r in res if r.get("expect") != "none"]
    ben = [r for r in res if r.get("expect") == "none"]
    return {
        "what": "each patch of mutants/ for this property is applied to a scratch copy of the current tree (outside /repo and /verif, removed afterwards), "
                "facts are re-exported and this property's quick check must report the expected rule; each benign refactoring that touches a module "
                "this check analyses must leave it silent (all 20 checks on every benign refactoring: tools/run_mutants.py, DESIGN 7.4)",
        "mutants": len(muts), "caught": sum(r["status"] == "caught" for r in muts), "caught_by_other_rule": sum(r["status"] == "caught-by-other-rule" for r in muts),
        "missed": [r["mutant"] for r in muts if r["status"] == "MISSED"], "skipped": [r["mutant"] for r in muts if r["status"].startswith("skipped")],
        "benign": len(ben), "benign_silent": sum(r["status"] == "silent" for r in ben), "false_alarms": [r["mutant"] for r in ben if r["status"] == "FALSE-ALARM"],
        "representation_stress": stress,
        "table": [{"mutant": r["mutant"], "rule": r.get("rule"), "status": r["status"], "keys": r.get("keys", [])[:3]} for r in res],
    }


class Ctx:
    def __init__(self, tier, inline_helpers=False):
        self.tier = tier
        self._used = {}
        self.selftest = None
        self._inline = inline_helpers
        self._inlined = {}
        self._helpers = {}

    def _maybe_inline(self, key, f):
        if not self._inline:
            return f
        if key not in self._inlined:
            import inline
            g, counts = inline.inline_all(f)
            self._inlined[key] = g
            self._helpers.update(counts)
        return self._inlined[key]

    def inlined_helpers(self):
        return dict(self._helpers)

    def renamed_summary(self):
        """parameters / variables whose current name differs from the pinned tree's and was mapped back by position (facts.normalise_names)"""
        out = {}
        for k, f in self._used.items():
            ren = getattr(f, "renamed", None) or {}
            if ren:
                out[k] = {"functions": len(ren), "sample": {p: r for p, r in sorted(ren.items())[:5]}}
        return out or None

    @property
    def facts(self):
        f = load_facts("repo", "dev")
        self._used["dev"] = f
        return self._maybe_inline("dev", f)

    @property
    def facts_release(self):
        f = load_facts("repo", "release")
        self._used["release"] = f
        return self._maybe_inline("release", f)

    def all_profiles(self):
        """fact sets to run profile-sensitive rules on: dev always, release in thorough"""
        out = [("dev", self.facts)]
        if self.tier == "thorough":
            out.append(("release", self.facts_release))
        return out

    @property
    def fixtures(self):
        f = load_facts("fixtures", "dev")
        self._used["fixtures"] = f
        return f

    def body_count(self):
        return {k: len(f.bodies) for k, f in self._used.items()}

    def profiles_used(self):
        return sorted(self._used)

    def fact_files(self):
        return {k: os.path.relpath(f.path, VERIF) for k, f in self._used.items()}
