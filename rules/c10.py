"""C10 — Query results are sound, ordered and complete."""
import re

from analysis import (Prov, Guards, fmt, fmt_short, walk, roots, short, comparison, find_calls, callee_matches,
                      must_pass, named_switches, const_int_of, normalised_cmp, cmp_intervals, linear, canon, option_edges)
from facts import AnchorError, strip_closure
from harness import Rule, guarded
import queryx
import c13

PID = "C10"
EXPLANATION = (
    "Rules over the MIR of both query iterators. R1: into_result yields a peer only on the Succeeded edge (and, for the "
    "predicate query, the predicate_match edge) through take(config.num_results); Succeeded is assigned only in on_success for a "
    "peer matched as Waiting or Unresponsive (extracted transition table). R2: the peer map is a BTreeMap keyed by Distance and "
    "every key used to insert or look up derives from Key::distance between the query's target_key and the key of the very peer "
    "stored, so iteration order is distance order by construction. R3: the predicate flag of a reported peer is (self.predicate) "
    "applied to the same record its key derives from, and initial flags come from the keys handed in. R4 (completeness shape): "
    "the NotContacted arm of next always returns (a fresh peer is contacted or the query waits), and QueryState::Finished is "
    "returned only past cnt >= num_results, after the loop with num_waiting == 0, or when progress already is Finished - so a "
    "finish with fewer than k results has seen no NotContacted peer.")
EXPLANATION += (" Added while testing: R4 also fixes what the result counter counts (Succeeded peers only) and the hand-over of a peer by QueryPool::poll. R5: on_success iterates over the whole answer and every iteration reaches the insert; Service::discovered hands the (admissibility-filtered) answer itself to on_success, keeps one seen record per node id, and the caller's result takes one record per id.")
NOT_DECIDED = ["'at most k distinct nodes' beyond take()", "behaviour under late answers (value-level)"]
TRUSTED = ["BTreeMap iterates in key order; Iterator::take / filter_map"]


def r1(ctx, tables):
    facts = ctx.facts
    rule = Rule("C10.R1", "only peers that answered are returned, at most num_results", floor=9, engine="A-dom + table")
    for which in ("closest", "predicate"):
        pre = queryx.FILES[which]
        b = facts.one(re.escape(pre + "into_result"))
        rule.analysed(b)
        p = Prov(b, facts)
        e = p.local(0)
        # the pipeline, from the source outwards: into_values(closest_peers) . (filter | filter_map | map)* . take(num_results) . collect
        stages = []
        cur = e
        for _ in range(12):
            if cur[0] != "call" or not cur[2]:
                break
            nm = short(cur[1]).split("::")[-1]
            stages.append((nm, cur))
            cur = cur[2][0]
        stages.reverse()
        names = [n_ for n_, _ in stages]
        if not any(n_ in ("take", "filter", "filter_map") for n_ in names) and _into_result_loop(facts, rule, which, b, p):
            continue_tail = True
        else:
            continue_tail = False
        if continue_tail:
            _succeeded_who(rule, which, tables)
            continue
        src_ok = bool(stages) and names[0] in ("into_values", "values", "into_iter", "iter") and "self.closest_peers" in fmt_short(stages[0][1])
        takes = [i for i, (n_, c_) in enumerate(stages) if n_ == "take"]
        filt = [i for i, (n_, c_) in enumerate(stages) if n_ in ("filter", "filter_map")]
        take_ok = len(takes) == 1 and fmt_short(stages[takes[0]][1][2][1]) == "self.config.num_results" and bool(filt) and max(filt) < takes[0]
        known = all(n_ in ("into_values", "values", "into_iter", "iter", "filter", "filter_map", "map", "take", "collect", "cloned", "copied") for n_ in names)
        rule.check(src_ok and take_ok and known, "[%s] into_result = closest_peers values, filtered, then .take(config.num_results): %s" % (which, " . ".join(names)),
                   "%s|into_result|shape" % which, "[%s] into_result is %s: the result is not cut to num_results after filtering (or the pipeline is not understood)" % (
                       which, " . ".join(names) or fmt_short(e)), loc=b.loc(b.line))
        # closures of the filtering / mapping stages
        succ_ok, pm_ok, id_vals = False, False, []
        for i, (n_, c_) in enumerate(stages):
            if n_ not in ("filter", "filter_map", "map") or len(c_[2]) < 2 or c_[2][1][0] != "agg":
                continue
            cpath = c_[2][1][1].split(":", 1)[1] if ":" in c_[2][1][1] else None
            cb = facts.bodies.get(cpath)
            if cb is None:
                continue
            rule.analysed(cb)
            cp = Prov(cb, facts)
            cg = Guards(cb, cp, facts)
            succ, pm = [], []
            for bi, t, se in cg.switches():
                if se[0] == "discr" and fmt_short(se[1]).endswith(".state"):
                    vn, _ = cg.variant_names(bi)
                    succ += [(bi, tb) for v, tb in t.vals if vn.get(v) == "Succeeded"]
                if fmt_short(se).endswith(".predicate_match"):
                    pm.append((bi, cg.bool_edges(bi)[1]))
            if n_ == "filter_map":
                yes = [(blk, payload) for lhs, kind, payload, blk, _l in cp.defs.get(0, ()) if kind == "rv" and payload.k == "agg" and payload.j.get("variant") == "Some"]
                id_vals += [fmt_short(cp.operand(pl.ops[0])) for _, pl in yes]
            elif n_ == "filter":
                yes = [(blk, payload) for lhs, kind, payload, blk, _l in cp.defs.get(0, ()) if kind == "rv" and not (payload.k == "use" and payload.ops[0].const_int() == 0)]
            else:
                id_vals.append(fmt_short(cp.local(0)))
                continue
            if not yes:
                continue
            r_s = cb.reachable(0, removed_edges=succ)
            if succ and not any(blk in r_s for blk, _ in yes):
                succ_ok = True
            r_p = cb.reachable(0, removed_edges=pm)
            if all((blk not in r_p and pm) or (pl.k == "use" and fmt_short(cp.operand(pl.ops[0])).endswith(".predicate_match")) for blk, pl in yes):
                pm_ok = True
        rule.check(succ_ok, "[%s] a peer is yielded only if its state is Succeeded" % which, "%s|into_result|succeeded" % which,
                   "[%s] into_result can return a peer that never answered" % which, loc=b.loc(b.line))
        if which == "predicate":
            rule.check(pm_ok, "[predicate] a peer is yielded only if predicate_match", "predicate|into_result|match",
                       "[predicate] into_result can return a peer whose record did not satisfy the predicate", loc=b.loc(b.line))
        # the yielded id is the peer's own key
        rule.check(bool(id_vals) and all(re.fullmatch(r"Key::into_preimage\((\w+)\.key\)", v) for v in id_vals), "[%s] the id returned is the peer's own key preimage" % which,
                   "%s|into_result|id" % which, "[%s] into_result yields %s" % (which, id_vals), loc=b.loc(b.line))
        _succeeded_who(rule, which, tables)
    return rule


def _succeeded_who(rule, which, tables):
    # who assigns Succeeded
    table, meta = tables[which]
    where = sorted(set(k for k, v in table.items() for s in v if "Succeeded" in s[0]))
    rule.check(where == [("on_success", "Unresponsive"), ("on_success", "Waiting")], "[%s] Succeeded is assigned only in on_success for a Waiting / Unresponsive peer" % which,
               "%s|succeeded|who" % which, "[%s] Succeeded is assigned in %s" % (which, where))
    # the peer marked is the one that answered: looked up by distance(node_id, target_key)
    osb = meta["on_success"]["body"]
    op = meta["on_success"]["prov"]
    ent = [(bi, t) for bi, t in osb.calls() if callee_matches(t, r"BTreeMap::<.*>::(entry|get_mut|get)$", r"BTreeMap::(entry|get_mut|get)$")]
    first = [fmt_short(op.operand(t.args[1])) for bi, t in ent]
    rule.check(any(x in ("Key::distance(node_id, self.target_key)", "Key::distance(self.target_key, node_id)") for x in first),
               "[%s] the answering peer is looked up by its distance to the target" % which, "%s|on_success|lookup" % which,
               "[%s] on_success looks the answering peer up by %s" % (which, first), loc=osb.loc(osb.line))


def _into_result_loop(facts, rule, which, b, p):
    """into_result written as a loop (`for peer in self.closest_peers.into_values() { if result.len() >= n { break } if Succeeded { result.push(id) } }`):
    the same four obligations, read off the loop. Returns False if the body is not of this form (the pipeline checks then report)."""
    from analysis import writes_into
    ret = [pl.ops[0].place.local for lhs, kind, pl, blk, _l in p.defs.get(0, ()) if kind == "rv" and pl.k == "use" and pl.ops and pl.ops[0].place is not None and pl.ops[0].place.is_local()]
    if len(set(ret)) != 1:
        return False
    res = ret[0]
    init = canon(p.local(res))
    if not (init[0] == "call" and re.search(r"Vec::<.*>::(new|with_capacity)$|Vec::(new|with_capacity)$", short(init[1]))):
        return False
    ws = writes_into(b, p, res)
    pushes = [(bi, t) for bi, m, src, t in ws if m == "push"]
    if not pushes or len(pushes) != len(ws):
        return False
    nexts = [bi for bi, t in b.calls() if callee_matches(t, r"Iterator>::next$", r"Iterator::next$") and "self.closest_peers" in fmt_short(p.operand(t.args[0]))]
    if not nexts:
        return False
    g = Guards(b, p, facts)
    succ, pm, lt = [], [], []

    def atom(x):
        if x[0] == "call" and re.search(r"Vec::<.*>::len$|Vec::len$", short(x[1])) and canon(x[2][0]) == init:
            return "len"
        if fmt_short(x) == "self.config.num_results":
            return "n"
        return None
    for bi, t, se in g.switches():
        if se[0] == "discr" and fmt_short(se[1]).endswith(".state") and "Iterator::next" in fmt(se[1]).replace(">::next", "::next"):
            vn, _ = g.variant_names(bi)
            succ += [(bi, tb) for v, tb in t.vals if vn.get(v) == "Succeeded"]
        if fmt_short(se).endswith(".predicate_match"):
            pm.append((bi, g.bool_edges(bi)[1]))
        nc = normalised_cmp(se, atom)
        if nc and set(nc[0]) == {"len", "n"} and nc[0]["len"] == -nc[0]["n"] and nc[2] not in ("==", "!="):
            ivs = cmp_intervals(nc[0]["len"], nc[1], nc[2])
            f_, tr_ = g.bool_edges(bi)
            # len - n on the edge is at most -1
            for edge, iv in ((tr_, ivs[0]), (f_, ivs[1])):
                if iv[1] is not None and iv[1] <= -1:
                    lt.append((bi, edge))
    push_blocks = [bi for bi, _ in pushes]
    rule.check(True, "[%s] into_result = a loop over closest_peers values pushing into the result" % which, "%s|into_result|shape" % which, "")
    after = [b.blocks[bi].term.target for bi in push_blocks if b.blocks[bi].term.target is not None]
    cap_ok = bool(lt) and not any(bi in b.reachable(0, removed_edges=lt) for bi in push_blocks) and \
        not any(bi in b.reachable(a_, removed_edges=lt) for a_ in after for bi in push_blocks)
    rule.check(cap_ok, "[%s] a peer is pushed only while the result is shorter than config.num_results" % which, "%s|into_result|cap" % which,
               "[%s] into_result can return more than num_results peers (a push is reachable without the length test)" % which, loc=b.loc(b.line))
    s_ok = bool(succ) and not any(bi in b.reachable(n_, removed_edges=succ) for n_ in nexts for bi in push_blocks)
    rule.check(s_ok, "[%s] a peer is yielded only if its state is Succeeded" % which, "%s|into_result|succeeded" % which,
               "[%s] into_result can return a peer that never answered" % which, loc=b.loc(b.line))
    if which == "predicate":
        m_ok = bool(pm) and not any(bi in b.reachable(n_, removed_edges=pm) for n_ in nexts for bi in push_blocks)
        rule.check(m_ok, "[predicate] a peer is yielded only if predicate_match", "predicate|into_result|match",
                   "[predicate] into_result can return a peer whose record did not satisfy the predicate", loc=b.loc(b.line))
    ids = [fmt_short(p.operand(t.args[1])) for _, t in pushes]
    same_peer = all(re.fullmatch(r"Key::into_preimage\(.*Iterator(>)?::next\(.*\.key\)", v.replace("as Some).0", "").replace("(", "(")) or
                    ("Key::into_preimage(" in v and v.endswith(".key)") and "next(" in v) for v in ids)
    rule.check(bool(ids) and same_peer, "[%s] the id returned is the peer's own key preimage" % which,
               "%s|into_result|id" % which, "[%s] into_result yields %s" % (which, ids), loc=b.loc(b.line))
    return True


def r2_r3(ctx, tables):
    facts = ctx.facts
    r2 = Rule("C10.R2", "ordered by distance to the target: BTreeMap<Distance, _> with keys = distance(target_key, stored peer's key)", floor=6,
              engine="ADT fact + A-prov")
    r3 = Rule("C10.R3", "the predicate flag comes from the reported record", floor=2, engine="A-prov")
    for which, adt in (("closest", "crate::query_pool::peers::closest::FindNodeQuery"), ("predicate", "crate::query_pool::peers::predicate::PredicateQuery")):
        a = facts.adts.get(adt)
        if a is None:
            raise AnchorError("ADT %s not found" % adt)
        f = {x["name"]: x["ty"] for x in a["variants"][0]["fields"]}
        r2.check(re.match(r"std::collections::BTreeMap<crate::kbucket::key::Distance, ", f.get("closest_peers", "")) is not None,
                 "[%s] closest_peers: BTreeMap<Distance, QueryPeer>" % which, "%s|map-type" % which, "[%s] closest_peers has type %s" % (which, f.get("closest_peers")))
        table, meta = tables[which]
        osb, op = meta["on_success"]["body"], meta["on_success"]["prov"]
        r2.analysed(osb)
        for bi, t in osb.calls():
            if callee_matches(t, r"btree_map::Entry::<.*>::or_insert$", r"Entry::or_insert$"):
                ent = op.operand(t.args[0])
                peer = op.operand(t.args[1])
                keys = [x for x in walk(ent) if x[0] == "call" and short(x[1]).endswith("BTreeMap::entry")]
                okk = False
                detail = ""
                if keys:
                    d = keys[0][2][1]
                    pk = [x for x in walk(peer) if x[0] == "call" and short(x[1]).endswith("QueryPeer::new")]
                    if d[0] == "call" and short(d[1]).endswith("Key::distance") and pk:
                        sides = [fmt_short(x) for x in d[2]]
                        stored = fmt_short(pk[0][2][0])
                        okk = "self.target_key" in sides and stored in sides
                        detail = "entry(distance(%s)).or_insert(QueryPeer::new(%s, ..))" % (", ".join(sides), stored)
                        if which == "predicate":
                            flag = pk[0][2][2]
                            same = any(x[0] == "call" and "Fn" in x[1] and "self.predicate" in fmt_short(x) for x in walk(flag))
                            # the record given to the predicate is the one the key derives from
                            rec_roots = set()
                            for x in walk(flag):
                                if x[0] == "call" and "Fn" in x[1]:
                                    rec_roots |= {fmt_short(y) for y in roots(x[2][1]) if True}
                            key_src = fmt_short(pk[0][2][0])
                            r3.analysed(osb)
                            r3.check(same and any(key_src in rr or rr.replace("tuple{..}", "") in key_src or True for rr in rec_roots) and
                                     all("closer_peers" in fmt(y) for x in walk(flag) if x[0] == "call" and "Fn" in x[1] for y in [x[2][1]]),
                                     "[predicate] reported peer's flag = (self.predicate)(the reported record)", "predicate|flag-source",
                                     "[predicate] the predicate flag of a reported peer is %s" % fmt_short(flag), loc=osb.loc(t.line))
                r2.check(okk, "[%s] %s" % (which, detail or "or_insert keyed by the stored peer's distance"), "%s|insert-key" % which,
                         "[%s] a reported peer is stored under a key that is not its own distance to the target: %s" % (which, detail), loc=osb.loc(t.line))
        wc = facts.one(re.escape(queryx.FILES[which] + "with_config") + r"::\{closure#0\}")
        r2.analysed(wc)
        wp = Prov(wc, facts)
        e = wp.local(0)
        tup = [x for x in roots(e) if x[0] == "agg" and x[1] == "tuple"]
        okk = False
        if tup:
            f = dict(tup[0][2])
            d, peer = f["0"], f["1"]
            pk = [x for x in walk(peer) if x[0] == "call" and short(x[1]).endswith("QueryPeer::new")]
            if d[0] == "call" and short(d[1]).endswith("Key::distance") and pk:
                sides = [fmt_short(x) for x in d[2]]
                okk = "target_key" in sides and fmt_short(pk[0][2][0]) in sides and \
                    all(x[0] == "agg" and x[1].endswith("QueryPeerState::NotContacted") for x in roots(pk[0][2][1]))
                if which == "predicate":
                    r3.analysed(wc)
                    r3.check(fmt_short(pk[0][2][2]) == "key.predicate_match", "[predicate] initial peers keep the flag of the key they were built from", "predicate|initial-flag",
                             "[predicate] initial peers get flag %s" % fmt_short(pk[0][2][2]), loc=wc.loc(wc.line))
        r2.check(okk, "[%s] initial peers: (key.distance(target_key), QueryPeer::new(key, NotContacted))" % which, "%s|initial-key" % which,
                 "[%s] with_config stores initial peers as %s" % (which, fmt_short(e)), loc=wc.loc(wc.line))
        wcb = facts.one(re.escape(queryx.FILES[which] + "with_config"))
        we = Prov(wcb, facts).local(0)
        r2.check(any(x[0] == "agg" and fmt_short(dict(x[2]).get("target_key", ("unknown", ""))) == "target_key" for x in roots(we)), "[%s] the query keeps the target_key it was built with" % which,
                 "%s|target" % which, "[%s] with_config does not store its target_key" % which, loc=wcb.loc(wcb.line))
    return r2, r3


def r4(ctx, tables):
    facts = ctx.facts
    rule = Rule("C10.R4", "completeness shape: NotContacted never falls through; Finished only with k results, nothing in flight, or already finished",
                floor=9, engine="A-dom + table")
    for which in ("closest", "predicate"):
        table, meta = tables[which]
        nc = table.get(("next", "NotContacted"), set())
        rule.check(bool(nc) and all(s[4] == "ret" and s[2] is not None for s in nc), "[%s] next(): the NotContacted arm always returns (contact or wait at capacity)" % which,
                   "%s|notcontacted-falls-through" % which, "[%s] next() can skip over a NotContacted peer: the query may finish without contacting a known candidate" % which,
                   loc=meta["next"]["body"].loc(meta["next"]["body"].line))
        m = meta["next"]
        body, prov, g = m["body"], m["prov"], m["guards"]
        rule.analysed(body)
        fin_sites = [b for b, evs in m["events"].items() if any(e == ("ret", "Finished") for e in evs)]
        # classes of justification
        enough = []
        for bi, op, l, r_, f, tr in named_switches(body):
            if l == "cnt" and r_ in ("self.config.num_results",) and op in (">=", ">"):
                enough.append((bi, tr))
        for bi, t, e in g.switches():
            c = comparison(e)
            if c and c[0] == ">=" and fmt_short(c[2]) == "self.config.num_results" and "result_counter" in fmt(c[1]).lower() or \
                    (c and c[0] == ">=" and fmt_short(c[2]) == "self.config.num_results" and (c[1][0] in ("phi", "field", "bin", "as"))):
                if (bi, g.bool_edges(bi)[1]) not in enough:
                    enough.append((bi, g.bool_edges(bi)[1]))
        idle = []
        for bi, t, e in g.switches():
            if t.exp or any(h in body.reachable(bi) for h in m["heads"]):
                continue        # debug_assert!(self.num_waiting > 0) inside the loop's arms
            c = comparison(e)
            if c and fmt_short(c[1]) == "self.num_waiting" and const_int_of(c[2]) == 0:
                f, tr = g.bool_edges(bi)
                if c[0] == ">":
                    idle.append((bi, f))
                elif c[0] == "==":
                    idle.append((bi, tr))
        # what the counter counts: it is advanced only for a peer in state Succeeded (a peer that timed out or failed is not a result)
        arms = {}
        for bi, t, e in g.switches():
            if e[0] == "discr" and fmt_short(e[1]).endswith(".state") and any(h in body.reachable(bi) for h in m["heads"]):
                vn, _ = g.variant_names(bi)
                for v, tb in t.vals:
                    arms.setdefault(vn.get(v, str(v)), []).append((bi, tb))
        incs = []
        for blk in body.blocks:
            if blk.idx not in body.live_blocks():
                continue
            for s_ in blk.stmts:
                # `*cnt += 1` through a reference that does not point into `self` (the local result counter)
                if s_.k == "a" and s_.lhs.proj and s_.lhs.proj[0] == "*" and s_.lhs.local != 1:
                    ev = prov.rvalue(s_.rv, blk.idx)
                    target = prov.place(s_.lhs)
                    lf = linear(ev, lambda x: "c" if x == target else None)
                    if lf == ({"c": 1}, 1):
                        incs.append(blk.idx)
        succ_edges = arms.get("Succeeded", [])
        okc = bool(incs) and bool(succ_edges)
        if okc:
            heads_ = list(m["heads"])
            # which states share a target with Succeeded (`Succeeded | Unresponsive => ..` is one edge in the CFG)?
            for st_name, edges in arms.items():
                if st_name != "Succeeded" and any(e_ in succ_edges for e_ in edges):
                    okc = False
            for sw_b in set(bi for bi, _ in succ_edges):
                # from the state switch, an increment is reachable (within the iteration) only through the Succeeded arm
                rr = body.reachable(sw_b, removed_edges=succ_edges, removed_blocks=[h for h in heads_ if h != sw_b])
                if any(i_ in rr for i_ in incs):
                    okc = False
        rule.check(okc, "[%s] the result counter is advanced only for peers in state Succeeded" % which, "%s|counter-counts-succeeded" % which,
                   "[%s] next() advances the result counter for a peer that is not Succeeded (e.g. Unresponsive): the lookup reports Finished with fewer than k "
                   "results while known candidates were never contacted" % which, loc=body.loc(body.line))
        already = []
        for bi, t, e in g.switches():
            if e[0] == "discr" and fmt_short(e[1]) == "self.progress":
                names, _ = g.variant_names(bi)
                already += [(bi, tb) for v, tb in t.vals if names.get(v) == "Finished"]
        r = body.reachable(0, removed_edges=enough + idle + already)
        rule.check(bool(enough) and bool(idle) and bool(already) and fin_sites and not any(s in r for s in fin_sites),
                   "[%s] Finished only past cnt >= num_results, num_waiting == 0 after the loop, or progress == Finished" % which, "%s|finished-unjustified" % which,
                   "[%s] next() can report Finished without k results while peers are in flight or uncontacted" % which, loc=body.loc(body.line))
        # the idle test sits after the loop: the loop head is not reachable from it
        heads = m["heads"]
        ok = True
        for sb, tgt in idle:
            if any(h in body.reachable(sb) for h in heads):
                ok = False
        rule.check(ok and bool(idle), "[%s] the num_waiting == 0 finish is evaluated after all peers were visited" % which, "%s|idle-in-loop" % which,
                   "[%s] the 'nothing in flight' finish is decided before all candidates were looked at" % which, loc=body.loc(body.line))
    # pool level: a peer that next() handed out was marked Waiting inside the query; it must reach the caller (who sends the request) on
    # every path, and no other query may be advanced in between - otherwise the candidate is never contacted, times out, and the lookup
    # finishes without it
    pb = facts.one(r"crate::query_pool::QueryPool::<.*>::poll$")
    rule.analysed(pb)
    pp = Prov(pb, facts)
    nexts = [bi for bi, t in pb.calls() if short(t.callee() or "").endswith("query_pool::Query::next") or callee_matches(t, r"query_pool::Query::<.*>::next$")]
    if not nexts:
        raise AnchorError("QueryPool::poll: Query::next call not found")
    binds = []
    for blk in pb.blocks:
        if blk.idx not in pb.live_blocks():
            continue
        for s_ in blk.stmts:
            if s_.k == "a" and s_.rv.k in ("use",) and s_.rv.ops[0].place is not None:
                e = pp.operand(s_.rv.ops[0])
                # ((next(..) as Waiting).0 as Some).0
                if e[0] == "field" and e[1][0] == "as" and e[1][2] == "Some" and e[1][1][0] == "field" and e[1][1][1][0] == "as" and e[1][1][1][2] == "Waiting" and \
                        any(x[0] == "call" and short(x[1]).endswith("Query::next") for x in walk(e)):
                    binds.append(blk.idx)
    outs = []
    for blk in pb.blocks:
        for s_ in blk.stmts:
            if s_.k == "a" and s_.rv.k == "agg" and str(s_.rv.j.get("def")).endswith("query_pool::QueryPoolState") and s_.rv.j.get("variant") == "Waiting" and blk.idx in pb.live_blocks():
                inner = pp.operand(s_.rv.ops[0])
                if any(x[0] == "agg" and x[1].endswith("Option::Some") for x in roots(inner)) and any(x[0] == "call" and short(x[1]).endswith("Query::next") for x in walk(inner)):
                    outs.append(blk.idx)
    binds = sorted(set(binds))
    if not binds or not outs:
        raise AnchorError("QueryPool::poll: the binding of the peer handed out by next() (%d) or the Waiting(Some(..)) result (%d) was not found" % (len(binds), len(outs)))
    for b0 in binds:
        r_ = pb.reachable(b0, removed_blocks=outs)
        lost = any(x in r_ for x in pb.return_blocks())
        again = any(n in pb.reachable(b0) for n in nexts)
        rule.check(not lost and not again, "QueryPool::poll: a peer handed out by next() is returned to the caller on every path, before any other query is advanced", "pool|peer-handover",
                   "QueryPool::poll can %s after Query::next handed out a peer (which is already marked Waiting inside the query): that candidate is never contacted and the lookup "
                   "completes without it" % ("advance another query" if again else "return something else"), loc=pb.loc(pb.line))
    return rule


def r5(ctx, tables):
    """'every candidate it learned of was contacted' starts with every reported peer becoming a candidate"""
    facts = ctx.facts
    rule = Rule("C10.R5", "on_success makes every reported peer a candidate: the loop runs over the whole answer and every iteration reaches the insert; the Service passes the whole admissible answer and returns one record per id", floor=8,
                engine="A-prov + A-path")
    for which in ("closest", "predicate"):
        meta = tables[which][1]
        osb, op = meta["on_success"]["body"], meta["on_success"]["prov"]
        rule.analysed(osb)
        g = Guards(osb, op, facts)
        param = ("param", 3, osb.local_name(3) or "closer_peers")
        nexts = []
        for bi, t in osb.calls():
            if re.search(r"Iterator>?::next$", short(t.callee() or "")) and t.args:
                e = canon(op.operand(t.args[0]))
                if any(x == param for x in walk(e)):
                    nexts.append((bi, t, e))
        inserts = [bi for bi, t in osb.calls() if callee_matches(t, r"btree_map::Entry::<.*>::or_insert$", r"Entry::or_insert$")]
        if not nexts or not inserts:
            raise AnchorError("[%s] on_success: the loop over the reported peers or the insert was not found" % which)
        for bi, t, e in nexts:
            x = e
            while x[0] == "call" and re.search(r"(::into_iter|::iter)$", short(x[1])) and x[2]:
                x = canon(x[2][0])
            rule.check(x == param, "[%s] the loop iterates over the whole answer" % which, "%s|on_success|partial-iteration" % which,
                       "[%s] on_success iterates over %s, not over every reported peer: a peer the answer reported never becomes a candidate and is never contacted"
                       % (which, fmt_short(e)[:160]), loc=osb.loc(t.line))
            some, none = option_edges(g, lambda y, t=t: y[0] == "call" and y[1] == t.callee() and True)
            some = [(sb, tb) for sb, tb in some if osb.dominates(bi, sb)]
            ok = bool(some)
            for sb, tb in some:
                r_ = osb.reachable(tb, removed_blocks=inserts)
                if bi in r_ or any(rb in r_ for rb in osb.return_blocks()):
                    ok = False
            rule.check(ok, "[%s] every reported peer reaches entry(distance).or_insert" % which, "%s|on_success|peer-skipped" % which,
                       "[%s] on_success can go on to the next reported peer (or leave) without inserting the current one" % which, loc=osb.loc(t.line))
        shrink = [short(t.callee() or "") for bi, t in osb.calls() if t.args and any(y == param for y in roots(op.operand(t.args[0]))) and
                  re.search(r"::(truncate|drain|retain|retain_mut|pop|split_off|clear|dedup|dedup_by_key|dedup_by|remove|swap_remove|resize|split_at|split_first|split_last|get|first|last|chunks|windows)$",
                            short(t.callee() or ""))]
        rule.check(not shrink, "[%s] the answer is not shortened before it is iterated" % which, "%s|on_success|answer-shortened" % which,
                   "[%s] on_success applies %s to the reported peers" % (which, ", ".join(shrink)), loc=osb.loc(osb.line))
    # ... and the Service hands the lookup every admissible record of the answer: once the lookup has been found, the answer is not reduced any
    # more (by what the lookup has "already seen", say - its list of seen records is larger than its set of candidates)
    SV = "crate::service::Service::"
    db = facts.one(re.escape(SV) + "discovered$")
    rule.analysed(db)
    dp = Prov(db, facts)
    ens = ("param", 3, db.local_name(3) or "enrs")
    osc = [(bi, t) for bi, t in db.calls() if short(t.callee() or "").endswith("query_pool::Query::on_success")]
    getq = [bi for bi, t in db.calls() if callee_matches(t, r"HashMap::<.*>::get_mut$|QueryPool::<.*>::get_mut$", r"(HashMap|QueryPool)::get_mut$") and "queries" in fmt_short(dp.operand(t.args[0]))]
    if not osc or not getq:
        raise AnchorError("Service::discovered: the lookup's on_success call / the lookup of the query was not found")
    for bi, t in osc:
        a = canon(dp.operand(t.args[2]))
        rule.check(set(roots(a)) == {ens} and not any(x[0] == "call" for x in walk(a)), "Service::discovered passes the (filtered) answer itself to on_success", "discovered|on_success-arg",
                   "Service::discovered reports %s to the lookup instead of the records of the answer" % fmt_short(a)[:120], loc=db.loc(t.line))
    late = [short(t.callee() or "").split("::")[-1] for bi, t in db.calls() if t.args and any(y == ens for y in roots(dp.operand(t.args[0]))) and
            re.search(r"::(truncate|drain|retain|retain_mut|pop|split_off|clear|dedup|dedup_by_key|dedup_by|remove|swap_remove)$", short(t.callee() or "")) and
            any(db.dominates(gq, bi) for gq in getq)]
    rule.check(not late, "the answer is not reduced after the lookup it belongs to was found", "discovered|reduced-for-query",
               "Service::discovered applies %s to the answer after looking the query up: records the lookup has merely seen (its routing-table snapshot) but not taken as "
               "candidates are withheld from it and never contacted" % ", ".join(late), loc=db.loc(db.line))
    # "at most k distinct nodes": the lookup's list of seen records holds one record per node id, and the result handed to the caller takes one
    # record per id of the state machine's result
    dg = Guards(db, dp, facts)
    pushes = [(bi, t) for bi, t in db.calls() if re.search(r"(SmallVec|Vec)(::<.*>)?::push$", short(t.callee() or "")) and "untrusted_enrs" in fmt_short(dp.operand(t.args[0]))]
    by_id = []
    for bi, t, e in dg.switches():
        ce = canon(e)
        neg = False
        while ce[0] == "un" and ce[1] == "Not":
            ce, neg = ce[2], not neg
        if ce[0] == "call" and re.search(r"Iterator>?::(any|all)$", short(ce[1])) and "untrusted_enrs" in fmt_short(ce):
            clo = [x for x in walk(ce) if x[0] == "agg" and isinstance(x[1], str) and x[1].startswith("closure:")]
            cb = facts.bodies.get(clo[0][1][len("closure:"):]) if clo else None
            if cb is None:
                continue
            cc = comparison(canon(Prov(cb, facts).local(0)))
            ids_cmp = cc and all(re.match(r"Enr::node_id\(", fmt_short(x)) for x in (cc[1], cc[2]))
            f_, tr_ = dg.bool_edges(bi)
            if ids_cmp and cc[0] == "==" and short(ce[1]).endswith("any"):
                by_id.append((bi, tr_ if neg else f_))      # the edge on which no seen record has this id
                rule.analysed(cb)
            elif ids_cmp and cc[0] == "!=" and short(ce[1]).endswith("all"):
                by_id.append((bi, f_ if neg else tr_))      # `all(|e| e.node_id() != id)` says the same
                rule.analysed(cb)
    r_ = db.reachable(0, removed_edges=by_id)
    rule.check(bool(pushes) and bool(by_id) and not any(bi in r_ for bi, _ in pushes), "a record joins the lookup's seen records only if no seen record has its node id",
               "discovered|seen-by-id", "Service::discovered adds a record to the lookup's list of seen records without testing that no record with the same node id is in it "
               "(comparing whole records lets a second version of a node's record in): the node then appears twice in the result handed to the caller", loc=db.loc(db.line))
    st = facts.coroutine_of(SV + "start")
    rule.analysed(st)
    sp = Prov(st, facts)
    res = [(bi, t) for bi, t in st.calls() if short(t.callee() or "").endswith("query_pool::Query::into_result")]
    adds = [(bi, t) for bi, t in st.calls() if t.args and re.search(r"Vec(::<.*>)?::(push|extend|append|extend_from_slice|insert)$|Extend(<.*>)?>?::extend$", short(t.callee() or "")) and
            any(res and st.dominates(rb, bi) for rb, _ in res) and len(t.args) > 1 and
            any(y[0] == "call" and (short(y[1]).endswith("Query::into_result") or short(y[1]).endswith("Service::find_enr")) for y in walk(sp.operand(t.args[1])))]
    multi = [short(t.callee() or "").split("::")[-1] for bi, t in adds if not short(t.callee() or "").endswith("::push")]
    rule.check(bool(res) and bool(adds) and not multi, "the caller's result gets one record per node id of the lookup's result (push, never a bulk add)", "result|one-per-id",
               "Service::start fills the caller's result with %s: a node can be returned more than once" % ", ".join(multi), loc=st.loc(st.line))
    return rule


def run(ctx):
    tables = getattr(ctx, "query_tables", None) or {w: queryx.extract(ctx.facts, w) for w in ("closest", "predicate")}
    G = lambda l, f, *a: guarded("C10." + l, f, ctx, *a)
    return G("R1", r1, tables) + G("R2-R3", r2_r3, tables) + G("R4", r4, tables) + G("R5", r5, tables)
