"""A-aff — affine obligations for panic freedom of the decoders.

For a function body this module
  * enumerates the panic-capable sites (MIR Assert terminators, range / element indexing, try_into(..).expect,
    copy_from_slice / clone_from_slice, explicit panics),
  * turns each into linear obligations over symbolic atoms (lengths of the function's slice parameters, values read
    from bytes with their type ranges, named constants),
  * collects the comparison facts on the edges that every path to the site must pass (edge dominance),
  * and decides entailment by Fourier-Motzkin elimination (rational infeasibility of facts AND NOT obligation).
No path is enumerated and nothing is executed."""
import re
from fractions import Fraction

from analysis import (Prov, Guards, fmt, fmt_short, walk, roots, short, comparison, linear, _lin_add, const_int_of,
                      callee_matches, transparent_args, cast_is_lossless, canon, subst_expr, slice_span)

INT_RANGES = {"u8": (0, 2 ** 8 - 1), "u16": (0, 2 ** 16 - 1), "u32": (0, 2 ** 32 - 1), "u64": (0, 2 ** 64 - 1), "usize": (0, 2 ** 64 - 1),
              "i32": (-2 ** 31, 2 ** 31 - 1), "i64": (-2 ** 63, 2 ** 63 - 1), "isize": (-2 ** 63, 2 ** 63 - 1)}
LEN_TRANSPARENT = re.compile(r"(slice::to_vec|Vec::as_slice|Vec::as_mut_slice|ops::Deref>::deref|ops::DerefMut>::deref_mut|Clone>::clone|clone::Clone::clone|"
                             r"convert::AsRef>::as_ref|borrow::Borrow>::borrow|bytes::Bytes::copy_from_slice|Vec::from|ToOwned>::to_owned|"
                             r"boxed::Box::new|convert::Into>::into|convert::From>::from)$")
INDEX_CALL = re.compile(r"(slice::index::index|array::index|ops::Index>::index|ops::IndexMut>::index_mut|slice::index::index_mut|array::index_mut)$")
ARRAY_TY = re.compile(r"^&?(?:mut )?\[u8; (\d+)\]$")


class Fact:
    """sum(coeffs[a] * a) + const  (<= 0 | == 0)"""

    def __init__(self, coeffs, const, eq=False, why=""):
        self.c = {k: Fraction(v) for k, v in coeffs.items() if v != 0}
        self.k = Fraction(const)
        self.eq = eq
        self.why = why

    def __repr__(self):
        terms = " + ".join("%s*%s" % (v, a) for a, v in self.c.items())
        return "%s + %s %s 0" % (terms or "0", self.k, "==" if self.eq else "<=")


def infeasible(facts):
    """Fourier-Motzkin over the rationals: True iff the conjunction has no solution"""
    ineqs = []
    for f in facts:
        ineqs.append((dict(f.c), f.k))
        if f.eq:
            ineqs.append(({a: -v for a, v in f.c.items()}, -f.k))
    vars_ = sorted(set(a for c, _ in ineqs for a in c), key=str)
    for v in vars_:
        pos = [(c, k) for c, k in ineqs if c.get(v, 0) > 0]
        neg = [(c, k) for c, k in ineqs if c.get(v, 0) < 0]
        rest = [(c, k) for c, k in ineqs if c.get(v, 0) == 0]
        new = []
        for cp, kp in pos:
            for cn, kn in neg:
                a, b = cp[v], -cn[v]
                c = {}
                for x in set(cp) | set(cn):
                    if x == v:
                        continue
                    val = cp.get(x, 0) * b + cn.get(x, 0) * a
                    if val != 0:
                        c[x] = val
                new.append((c, kp * b + kn * a))
        ineqs = rest + new
        if len(ineqs) > 4000:
            return False
        for c, k in ineqs:
            if not c and k > 0:
                return True
    return any((not c) and k > 0 for c, k in ineqs)


def find_cursors(body):
    """slice-reference locals that are advanced in place: `let payload = &mut &data[1..]; decode(payload)`.
    Returns (set of cursor locals, list of blocks with calls that may advance them)."""
    cursors = set()
    holders = {}
    for b in body.blocks:
        if b.cleanup:
            continue
        for s in b.stmts:
            if s.k == "a" and s.rv.k == "ref" and s.rv.j["bk"] == "mut" and s.rv.place.is_local() and s.lhs.is_local():
                ty = body.local_ty(s.rv.place.local)
                if re.match(r"^&(?:'\w+ )?\[u8\]$", ty):
                    holders.setdefault(s.rv.place.local, set()).add(s.lhs.local)
    calls = {}
    for c, hs in holders.items():
        # follow moves / reborrows of the &mut &[u8]
        al = set(hs)
        changed = True
        while changed:
            changed = False
            for b in body.blocks:
                for s in b.stmts:
                    if s.k == "a" and s.lhs.is_local() and s.lhs.local not in al:
                        src = None
                        if s.rv.k in ("use", "cast") and s.rv.ops and s.rv.ops[0].place is not None:
                            src = s.rv.ops[0].place
                        elif s.rv.k == "ref" and s.rv.place is not None:
                            src = s.rv.place
                        if src is not None and src.local in al and all(p == "*" for p in src.proj) and body.local_ty(s.lhs.local).startswith("&mut &"):
                            al.add(s.lhs.local)
                            changed = True
        mine = []
        for bi, t in body.calls():
            if any(a.place is not None and a.place.local in al and a.place.is_local() for a in t.args):
                mine.append(bi)
        if mine:
            cursors.add(c)
            calls[c] = sorted(set(mine))
    return cursors, calls


class Aff:
    def __init__(self, body, facts_db, prov=None):
        self.body = body
        self.db = facts_db
        self.cursors, self.cursor_calls = find_cursors(body)
        self.prov = prov or Prov(body, facts_db, cursors=self.cursors)
        self.guards = Guards(body, self.prov, facts_db)
        self.atom_ranges = {}
        self.unknown = []

    # ------------------------------------------------------------------ types of calls
    def call_type(self, e):
        if e[0] != "call" or e[3] is None:
            return None
        path, blk = e[3]
        b = self.db.bodies.get(path)
        if b is None:
            return None
        t = b.blocks[blk].term
        if t.k != "call":
            return None
        return b.tys[t.j["dty"]]

    # ------------------------------------------------------------------ lengths
    def _resolve(self, e):
        """a value read out of the result of a spliced helper (`let (a, b) = helper(..)?`): the projection of the `?` payload is replaced by
        the component of the helper's Ok value it denotes"""
        def fn(x):
            if isinstance(x, tuple) and x and x[0] == "field" and isinstance(x[1], tuple):
                y = x
                while isinstance(y, tuple) and y and y[0] in ("field", "as"):
                    y = y[1]
                if isinstance(y, tuple) and y and y[0] == "call" and re.search(r"Try>?::branch$", short(y[1])) and y[2] and \
                        any(z[0] == "agg" and z[1].endswith("Result::Ok") for z in walk(y[2][0]) if isinstance(z, tuple) and z and z[0] == "agg"):
                    c = canon(x)
                    if c[0] != "unknown" and c != x:
                        return c
            return None
        if not any(isinstance(z, tuple) and z and z[0] == "call" and z[1].endswith("::branch") for z in walk(e)):
            return e
        return subst_expr(e, fn)

    def length(self, e, depth=0):
        """linear form of the length of a slice / Vec / array valued expression, or None"""
        if depth > 30:
            return None
        if depth == 0:
            e = self._resolve(e)
        k = e[0]
        if k == "phi":
            forms = [self.length(x, depth + 1) for x in e[1] if x != ("cycle",)]
            if forms and all(f is not None and f == forms[0] for f in forms):
                return forms[0]
            return None
        if k == "param":
            ty = self.body.local_ty(e[1])
            m = ARRAY_TY.match(ty)
            if m:
                return ({}, int(m.group(1)))
            a = "len:" + e[2]
            self.atom_ranges[a] = (0, 2 ** 63)
            return ({a: 1}, 0)
        if k == "upvar":
            a = "len:" + e[1]
            self.atom_ranges[a] = (0, 2 ** 63)
            return ({a: 1}, 0)
        if k == "cursor":
            a = "len:cursor(%s)" % e[2]
            self.atom_ranges[a] = (0, 2 ** 63)
            return ({a: 1}, 0)
        if k == "agg" and e[1] == "array":
            return ({}, len(e[2]))
        if k == "agg" and e[1].startswith("repeat:"):
            return ({}, int(e[1].split(":")[1]))
        if k == "cast":
            return self.length(e[1], depth + 1)
        if k == "call":
            n = short(e[1])
            ty = self.call_type(e)
            if ty:
                m = ARRAY_TY.match(ty)
                if m:
                    return ({}, int(m.group(1)))
            if INDEX_CALL.search(n) and len(e[2]) == 2:
                base, rng = e[2]
                return self.range_len(base, rng, depth)
            if LEN_TRANSPARENT.search(n) and e[2]:
                return self.length(e[2][0], depth + 1)
            ix = transparent_args(e[1])
            if ix == [0] and e[2]:
                return self.length(e[2][0], depth + 1)
            # an opaque call producing a buffer: its length is an atom of its own
            a = "len:" + fmt_short(e)
            self.atom_ranges[a] = (0, 2 ** 63)
            return ({a: 1}, 0)
        if k == "field":
            ns = set()
            for adt in self.db.adts.values():
                for v in adt["variants"]:
                    for fd in v["fields"]:
                        if fd["name"] == e[2]:
                            m = ARRAY_TY.match(fd["ty"])
                            if m:
                                ns.add(int(m.group(1)))
                                continue
                            m = re.match(r"^\[u8; ([A-Z_][A-Z0-9_]*)\]$", fd["ty"])
                            vals = [int(c["v"]) for pth, c in self.db.consts.items() if m and pth.endswith("::" + m.group(1)) and c.get("v") is not None]
                            ns.add(vals[0] if len(set(vals)) == 1 else None)
            if len(ns) == 1 and None not in ns:
                return ({}, ns.pop())
        if k == "field" and e[2] in ("0", "1") and e[1][0] == "call" and re.search(r"::split_at(_mut)?$", short(e[1][1])) and len(e[1][2]) == 2:
            # the two halves of `s.split_at(n)`: n and len(s) - n
            n = self.value(e[1][2][1])
            whole = self.length(e[1][2][0], depth + 1)
            if n is not None and e[2] == "0":
                return n
            if n is not None and whole is not None:
                return _lin_add(whole, n, -1)
            return None
        if k in ("field", "as", "index"):
            a = "len:" + fmt_short(e)
            self.atom_ranges[a] = (0, 2 ** 63)
            return ({a: 1}, 0)
        return None

    def range_parts(self, rng):
        for x in walk(rng):
            if x[0] == "agg" and "ops::Range" in x[1]:
                kind = x[1].split("::")[-1]
                return kind, dict(x[2])
        return None, None

    def range_len(self, base, rng, depth):
        kind, f = self.range_parts(rng)
        if kind is None:
            return None
        bl = self.length(base, depth + 1)
        if kind == "Range":
            s, e_ = self.value(f["start"]), self.value(f["end"])
            return _lin_add(e_, s, -1) if s and e_ else None
        if kind == "RangeTo":
            return self.value(f["end"])
        if kind == "RangeFrom":
            s = self.value(f["start"])
            return _lin_add(bl, s, -1) if bl and s else None
        if kind == "RangeFull":
            return bl
        if kind == "RangeInclusive":
            return None
        return None

    # ------------------------------------------------------------------ integer values
    def value(self, e):
        e = self._resolve(e)

        def atom(x):
            if x[0] == "call":
                n = short(x[1])
                if re.search(r"(Vec|slice|\[T\]|VecDeque|Bytes|BytesMut)::len$", n) or n.endswith("slice::len") or n.endswith("ArrayVec::len") or \
                        re.search(r"bytes::Buf::remaining$|Buf>::remaining$", n):
                    return self.length(x[2][0])
                if re.search(r"num::from_be_bytes$|num::from_le_bytes$", n):
                    ty = self.call_type(x)
                    a = "val:" + fmt_short(x)
                    if ty in INT_RANGES:
                        self.atom_ranges[a] = INT_RANGES[ty]
                    return a
            if x[0] == "un" and x[1] == "PtrMetadata":
                return self.length(x[2])
            if x[0] == "index":
                name = fmt_short(x)
                if len(x) > 2:
                    iv_ = linear(x[2])
                    if iv_ is not None and not iv_[0]:
                        name = "%s[%d]" % (fmt_short(x[1]), iv_[1])
                        # an element of a sub-slice is an element of the slice it was cut from (`s.split_at(34).0[32]` is `s[32]`)
                        try:
                            base0, st0, _en0 = slice_span(x[1])
                        except Exception:
                            base0, st0 = None, None
                        if base0 is not None and st0 is not None and not st0[0] and canon(base0) != canon(x[1]):
                            name = "%s[%d]" % (fmt_short(base0), st0[1] + iv_[1])
                a = "byte:" + name
                self.atom_ranges[a] = (0, 255)
                return a
            if x[0] == "cast":
                if not cast_is_lossless(x):
                    return None
                inner = self.value(x[1])
                return inner
            if x[0] in ("param", "upvar"):
                a = "val:" + (x[2] if x[0] == "param" else x[1])
                ty = self.body.local_ty(x[1]) if x[0] == "param" else None
                if ty in INT_RANGES:
                    self.atom_ranges[a] = INT_RANGES[ty]
                return a
            return None
        lf = linear(e, atom)
        if lf is None:
            return None
        # atoms that are raw expressions: give them a name
        out = {}
        for a, c in lf[0].items():
            if isinstance(a, str):
                out[a] = out.get(a, 0) + c
            else:
                b = "val:" + fmt_short(a)
                out[b] = out.get(b, 0) + c
        return (out, lf[1])

    # ------------------------------------------------------------------ facts
    def edge_facts(self, site_block):
        """comparison facts on edges every path entry -> site must pass"""
        body = self.body
        out = []
        for bi, t, e in self.guards.switches():
            succs = t.succs()
            if len(succs) < 2:
                continue
            for s in succs:
                r = body.reachable(0, removed_edges=[(bi, s)])
                if site_block in r:
                    continue
                if site_block not in body.live_blocks():
                    continue
                # edge (bi -> s) dominates the site
                f = self.fact_of_edge(bi, t, e, s)
                # a fact about an in-place cursor is stale if the cursor may be advanced between the test and the site
                named = set(m_.group(1) for ff in f for a in ff.c for m_ in re.finditer(r"cursor\((\w+)\)", str(a)))
                if f and named:
                    r1 = body.reachable(s, removed_blocks=[bi])
                    stale = False
                    adv = []
                    for c_, blocks in self.cursor_calls.items():
                        if (body.local_name(c_) or ("_%d" % c_)) in named:
                            adv += blocks
                    for m in adv:
                        if m in r1 and m != site_block:
                            tgt = body.blocks[m].term.target
                            if tgt is not None and (site_block in body.reachable(tgt, removed_blocks=[bi]) or tgt == site_block):
                                stale = True
                    if stale:
                        continue
                out += f
        return out

    def fact_of_edge(self, bi, t, e, succ):
        c = comparison(e)
        facts = []
        if c is None:
            # a match on an integer value: the edge taken fixes the value
            dty = self.body.tys[t.j["dty"]] if "dty" in t.j else ""
            if dty in INT_RANGES and e[0] != "discr":
                v = self.value(e)
                hit = [val for val, tb in t.vals if tb == succ]
                if v is not None and len(hit) == 1 and succ != t.otherwise:
                    facts.append(Fact(v[0], v[1] - hit[0], eq=True, why="%s == %d @%s" % (fmt_short(e)[:60], hit[0], t.line)))
            return facts
        op, a, b = c
        va, vb = self.value(a), self.value(b)
        if va is None or vb is None:
            return facts
        f, tr = self.guards.bool_edges(bi)
        if succ == tr and succ != f:
            holds = op
        elif succ == f and succ != tr:
            holds = {"<": ">=", "<=": ">", ">": "<=", ">=": "<", "==": "!=", "!=": "=="}[op]
        else:
            return facts
        d, k = _lin_add(va, vb, -1)    # a - b
        why = "%s %s %s @%s" % (fmt_short(a), holds, fmt_short(b), t.line)
        if holds == "<":        # a - b <= -1
            facts.append(Fact(d, k + 1, why=why))
        elif holds == "<=":
            facts.append(Fact(d, k, why=why))
        elif holds == ">":      # b - a <= -1
            facts.append(Fact({x: -v for x, v in d.items()}, -k + 1, why=why))
        elif holds == ">=":
            facts.append(Fact({x: -v for x, v in d.items()}, -k, why=why))
        elif holds == "==":
            facts.append(Fact(d, k, eq=True, why=why))
        return facts

    def cursor_init_length(self, name):
        """length of the slice a cursor was created from (`&mut &payload[..n]` -> n)"""
        for c_ in self.cursors:
            if (self.body.local_name(c_) or ("_%d" % c_)) != name:
                continue
            for lhs, kind, payload, blk, _l in self.prov.defs.get(c_, ()):
                if kind == "rv" and lhs.is_local():
                    return self.length(self.prov.rvalue(payload, blk))
                if kind == "call" and lhs.is_local():
                    return self.length(self.prov.call(payload, blk))
        return None

    def size_axioms(self, obligations_text=""):
        """library fact (DESIGN.md sec. 6): a record decoded from a slice s reports size() <= len(s)"""
        out = []
        seen = set()
        for blk in self.body.blocks:
            if blk.cleanup or blk.idx not in self.body.live_blocks():
                continue
            t = blk.term
            if t.k == "call" and re.search(r"enr::Enr::size$", short(t.callee() or "")):
                e = self.prov.call(t, blk.idx)
                v = self.value(e)
                src = [x for x in walk(e[2][0]) if x[0] == "call" and re.search(r"Decodable>::decode$", short(x[1]))]
                if v is None or not src:
                    continue
                arg = src[0][2][0]
                ln = None
                if arg[0] == "cursor":
                    ln = self.cursor_init_length(arg[2])
                else:
                    ln = self.length(arg)
                if ln is not None and fmt_short(e) not in seen:
                    seen.add(fmt_short(e))
                    d, k = _lin_add(v, ln, -1)
                    out.append(Fact(d, k, why="axiom: Enr::size() <= length of the slice it was decoded from"))
        return out

    def range_facts(self):
        out = []
        for a, (lo, hi) in self.atom_ranges.items():
            out.append(Fact({a: -1}, lo, why="%s >= %s" % (a, lo)))
            out.append(Fact({a: 1}, -hi, why="%s <= %s" % (a, hi)))
        return out

    # ------------------------------------------------------------------ obligations
    def prove(self, site_block, obligations, extra_facts=()):
        """obligations: list of ('le', lhs_form, rhs_form) / ('eq', ..) / ('lt', ..). Returns list of failed ones (with reason)."""
        facts = self.edge_facts(site_block) + list(extra_facts)
        failed = []
        for kind, l, r, what in obligations:
            if l is None or r is None:
                failed.append((what, "not expressible as a linear form"))
                continue
            d, k = _lin_add(l, r, -1)     # l - r
            rf = self.range_facts()
            negs = []
            if kind == "le":      # want l - r <= 0 ; negation: r - l <= -1
                negs = [[Fact({x: -v for x, v in d.items()}, -k + 1)]]
            elif kind == "lt":    # want l - r <= -1 ; negation: r - l <= 0
                negs = [[Fact({x: -v for x, v in d.items()}, -k)]]
            elif kind == "eq":    # negation: l - r <= -1  OR  r - l <= -1
                negs = [[Fact(d, k + 1)], [Fact({x: -v for x, v in d.items()}, -k + 1)]]
            ok = all(infeasible(facts + rf + n) for n in negs)
            if not ok:
                failed.append((what, "not entailed by the dominating facts %s" % [f.why for f in facts if f.why][:8]))
        return failed

    def sites(self):
        """panic-capable sites of the body: [(block, kind, description, obligations)]"""
        body, prov = self.body, self.prov
        out = []
        usize_max = ({}, 2 ** 64 - 1)
        zero = ({}, 0)
        for blk in body.blocks:
            if blk.cleanup or blk.idx not in body.live_blocks():
                continue
            t = blk.term
            if t.exp and re.search(r"\b(trace|debug|info|warn|error|event|debug_assert\w*)\b", t.exp):
                if not re.search(r"debug_assert", t.exp):
                    continue
            if t.k == "assert":
                cond = prov.operand(t.cond)
                msg = t.j["msg"]
                if msg == "BoundsCheck":
                    c = comparison(cond)
                    if c and c[0] == ">":
                        c = ("<", c[2], c[1])
                    if c and c[0] == "<":
                        out.append((blk.idx, "index", "%s < %s" % (fmt_short(c[1]), fmt_short(c[2])), [("lt", self.value(c[1]), self.value(c[2]), "index in bounds")], t.line))
                    else:
                        out.append((blk.idx, "index", fmt_short(cond), [("le", None, None, "unrecognised bounds check")], t.line))
                elif msg == "Overflow":
                    # cond = (a op b).1 ; obligation: 0 <= a op b <= max of the type (usize assumed for index arithmetic, u8.. from operands' ranges)
                    inner = cond[1] if cond[0] == "field" else cond
                    if inner[0] == "bin":
                        opn = inner[1][:3]
                        a, b = self.value(inner[2]), self.value(inner[3])
                        hi = self.op_type_max(t)
                        if opn == "Add" and a and b:
                            out.append((blk.idx, "overflow", fmt_short(inner), [("le", _lin_add(a, b, 1), ({}, hi), "no overflow")], t.line))
                        elif opn == "Sub" and a and b:
                            out.append((blk.idx, "overflow", fmt_short(inner), [("le", b, a, "no underflow")], t.line))
                        elif opn == "Mul":
                            v = self.value(("bin", "Mul", inner[2], inner[3]))
                            out.append((blk.idx, "overflow", fmt_short(inner), [("le", v, ({}, hi), "no overflow")], t.line))
                        else:
                            out.append((blk.idx, "overflow", fmt_short(inner), [("le", None, None, "unrecognised arithmetic")], t.line))
                    else:
                        out.append((blk.idx, "overflow", fmt_short(cond), [("le", None, None, "unrecognised overflow check")], t.line))
                else:
                    out.append((blk.idx, "assert", msg + ": " + fmt_short(cond), [("le", None, None, "assertion %s" % msg)], t.line))
                continue
            if t.k != "call" or t.fn is None:
                continue
            n = short(t.callee() or "")
            args = [prov.operand(a) for a in t.args]
            if INDEX_CALL.search(n) and len(args) == 2:
                base, rng = args
                kind, f = self.range_parts(rng)
                bl = self.length(base)
                if kind == "Range":
                    s, e_ = self.value(f["start"]), self.value(f["end"])
                    out.append((blk.idx, "slice", "%s[%s..%s]" % (fmt_short(base)[:60], fmt_short(f["start"]), fmt_short(f["end"])),
                                [("le", s, e_, "start <= end"), ("le", e_, bl, "end <= len")], t.line))
                elif kind == "RangeTo":
                    e_ = self.value(f["end"])
                    out.append((blk.idx, "slice", "%s[..%s]" % (fmt_short(base)[:60], fmt_short(f["end"])), [("le", e_, bl, "end <= len")], t.line))
                elif kind == "RangeFrom":
                    s = self.value(f["start"])
                    out.append((blk.idx, "slice", "%s[%s..]" % (fmt_short(base)[:60], fmt_short(f["start"])), [("le", s, bl, "start <= len")], t.line))
                elif kind == "RangeFull":
                    pass
                else:
                    # element index through the Index trait (Vec<u8>[i])
                    i = self.value(rng)
                    out.append((blk.idx, "index", "%s[%s]" % (fmt_short(base)[:60], fmt_short(rng)), [("lt", i, bl, "index in bounds")], t.line))
                continue
            if re.search(r"::split_at(_mut)?$", n) and len(args) == 2:
                out.append((blk.idx, "split", "%s.split_at(%s)" % (fmt_short(args[0])[:60], fmt_short(args[1])[:40]),
                            [("le", self.value(args[1]), self.length(args[0]), "mid <= len")], t.line))
                continue
            if re.search(r"(Result|Option)::(expect|unwrap)$", n):
                src = args[0]
                ti = [x for x in walk(src) if x[0] == "call" and re.search(r"TryInto>::try_into$|TryFrom>::try_from$", short(x[1]))]
                ty = self.call_type(prov.call(t, blk.idx))
                if ti and ty:
                    m = ARRAY_TY.match(ty)
                    if m:
                        out.append((blk.idx, "try_into", "%s -> [u8; %s]" % (fmt_short(ti[0][2][0])[:70], m.group(1)),
                                    [("eq", self.length(ti[0][2][0]), ({}, int(m.group(1))), "slice length equals the array length")], t.line))
                        continue
                out.append((blk.idx, "unwrap", "%s(%s)" % (n.split("::")[-1], fmt_short(src)[:80]), [("le", None, None, "%s on a fallible value" % n.split("::")[-1])], t.line))
                continue
            if re.search(r"::copy_from_slice$|::clone_from_slice$", n) and len(args) == 2 and "GenericArray" not in n:
                out.append((blk.idx, "copy", "%s <- %s" % (fmt_short(args[0])[:50], fmt_short(args[1])[:50]),
                            [("eq", self.length(args[0]), self.length(args[1]), "equal lengths")], t.line))
                continue
            if re.search(r"GenericArray::clone_from_slice$|GenericArray::from_slice$", n):
                want = self.generic_array_len(t)
                out.append((blk.idx, "generic_array", "%s (len %s)" % (fmt_short(args[0])[:60], want),
                            [("eq", self.length(args[0]), ({}, want) if want else None, "slice length equals the array length")], t.line))
                continue
            if re.search(r"panicking::(panic|panic_fmt|assert_failed|unreachable_display|panic_display|panic_explicit)", n) or n.endswith("panicking::begin_panic"):
                out.append((blk.idx, "panic", "explicit panic", [("le", ({}, 1), ({}, 0), "unreachable")], t.line))
                continue
            if re.search(r"bytes::Buf::advance$|Buf>::advance$", n) and len(args) == 2:
                out.append((blk.idx, "advance", "advance(%s)" % fmt_short(args[1])[:60], [("le", self.value(args[1]), self.length(args[0]), "cnt <= remaining")], t.line))
                continue
        return out

    def op_type_max(self, t):
        """largest value of the integer type the checked arithmetic is performed in: the assert tests field 1 of a `(T, bool)` pair"""
        ty = None
        if t.cond is not None and t.cond.place is not None:
            pl = t.cond.place
            ty = self.body.local_ty(pl.local)
            # follow `_c = move (_p.1)` copies back to the pair
            for _ in range(4):
                m = re.match(r"^\((\w+), bool\)$", ty or "")
                if m:
                    return INT_RANGES.get(m.group(1), (0, 2 ** 64 - 1))[1]
                src = None
                for blk in self.body.blocks:
                    for s in blk.stmts:
                        if s.k == "a" and s.lhs.is_local() and s.lhs.local == pl.local and s.rv.k in ("use", "un") and s.rv.ops and s.rv.ops[0].place is not None:
                            src = s.rv.ops[0].place
                if src is None:
                    break
                pl = src
                ty = self.body.local_ty(pl.local)
        return 2 ** 64 - 1

    def generic_array_len(self, t):
        full = (t.fn or {}).get("inst_full") or (t.fn or {}).get("decl_full") or ""
        # typenum-encoded lengths: U16 = UInt<UInt<UInt<UInt<UInt<UTerm, B1>, B0>, B0>, B0>, B0>; U12 similar
        bits = re.findall(r"B([01])>", full)
        if bits:
            val = 0
            for b in bits:
                val = val * 2 + int(b)
            return val
        m = re.search(r"typenum::U(\d+)", full)
        if m:
            return int(m.group(1))
        return None

    def check_all(self, extra_facts_for=None):
        """-> (list of (site, failed obligations), number of sites, number of obligations)"""
        res = []
        nob = 0
        sites = self.sites()
        for blk, kind, desc, obls, line in sites:
            nob += len(obls)
            extra = extra_facts_for(blk, kind, desc) if extra_facts_for else ()
            failed = self.prove(blk, obls, extra)
            res.append(((blk, kind, desc, line), failed))
        return res, len(sites), nob
