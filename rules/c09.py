"""C09 — Iterative queries terminate with bounded parallelism."""
import re

from analysis import (mirror, Prov, Guards, fmt, fmt_short, walk, roots, short, comparison, find_calls, callee_matches,
                      must_pass, named_switches, normalised_cmp, cmp_intervals, const_int_of, field_writes, option_edges, canon, linear)
from facts import AnchorError, strip_closure
from harness import Rule, guarded
from c01 import bool_pass_edges
import queryx
import c13

PID = "C09"
EXPLANATION = (
    "Typestate / conservation rules over the MIR of both query iterators (closest.rs, predicate.rs), the query pool and the "
    "service. A transition table (function x matched peer state -> assigned state, num_waiting delta, returned QueryState) is "
    "extracted from each file by path propagation. R1: a peer is handed out for contacting only from the NotContacted arm, past "
    "!at_capacity, after being marked Waiting with the counter incremented; NotContacted is only ever given to QueryPeer::new; "
    "the peer map is extended only through Entry::or_insert (a BTreeMap::insert would reset a contacted peer). R2: on every "
    "extracted path (#entries into Waiting) - (#exits from a state matched as Waiting) equals the net change of num_waiting, and "
    "at_capacity compares num_waiting >= parallelism while Iterating and >= num_results while Stalled. R3: QueryPool::poll removes "
    "a query before reporting it Finished or Timeout, the timeout test compares elapsed time with query_timeout on the waiting "
    "arms, and the service hands the result to the callback exactly on that arm, the callback being moved either into the pool or "
    "sent on when a query is started. R4: the two files' tables agree up to the listed exception.")
EXPLANATION += (' Added while testing: R3 also requires Query::started to be None at construction, stamped once and before the timeout test, and QueryPool::add to number queries from a counter that only moves forward.')
NOT_DECIDED = ["termination itself (liveness; the service polls the pool from a poll_fn that registers no waker)", "the Iterating/Stalled progress arithmetic"]
TRUSTED = ["oneshot::Sender::send consumes the sender (at-most-once is a typing fact)", "BTreeMap entry API"]

POOL = "crate::query_pool::QueryPool::<TTarget, TNodeId, TResult>::"
SV = "crate::service::Service::"
EXCEPTIONS = {
    ("on_failure", "Unresponsive"): "predicate.rs ignores a failure report for an Unresponsive peer (it stays Unresponsive); harmless: next() skips both Failed and Unresponsive",
}


def r1(ctx, tables):
    facts = ctx.facts
    rule = Rule("C09.R1", "a peer is contacted at most once", floor=8, engine="A-path table + A-dom + A-who")
    for which in ("closest", "predicate"):
        table, meta = tables[which]
        # returns of Waiting(Some) only from ('next', 'NotContacted') with state:=Waiting and +1
        sites = [(k, s) for k, v in table.items() for s in v if s[2] is not None and s[2].startswith("Waiting:") and "Some" in s[2]]
        ok = bool(sites) and all(k == ("next", "NotContacted") and s[0] == ("Waiting",) and s[1] == 1 for k, s in sites)
        rule.check(ok, "[%s] a peer is returned for contacting only from the NotContacted arm, marked Waiting, counter +1" % which, "%s|handout" % which,
                   "[%s] a peer is handed out for contacting from %s" % (which, sorted(set(k for k, s in sites if not (k == ("next", "NotContacted") and s[0] == ("Waiting",) and s[1] == 1)))),
                   loc=meta["next"]["body"].loc(meta["next"]["body"].line))
        # guarded by !at_capacity
        m = meta["next"]
        body, prov, g = m["body"], m["prov"], m["guards"]
        rule.analysed(body)
        not_cap = bool_pass_edges(g, lambda e: e[0] == "call" and e[1].endswith("::at_capacity"), want_true=False)
        hand = [b for b, evs in m["events"].items() if any(e[0] == "ret" and e[1].startswith("Waiting:") and "Some" in e[1] for e in evs)]
        r = body.reachable(0, removed_edges=not_cap)
        rule.check(bool(not_cap) and hand and not any(h in r for h in hand), "[%s] hand-out only past !at_capacity" % which, "%s|capacity-guard" % which,
                   "[%s] next() can hand out a peer while the query is at capacity" % which, loc=body.loc(body.line))
        # entering Waiting anywhere else?
        enters = [(k, s) for k, v in table.items() for s in v if "Waiting" in s[0]]
        rule.check(all(k == ("next", "NotContacted") for k, s in enters), "[%s] the Waiting state is entered only from NotContacted in next()" % which,
                   "%s|reenter-waiting" % which, "[%s] a peer re-enters Waiting from %s (it would be contacted again)" % (which, sorted(set(k for k, s in enters))),
                   loc=body.loc(body.line))
        # NotContacted assigned anywhere?
        back = [(k, s) for k, v in table.items() for s in v if "NotContacted" in s[0]]
        rule.check(not back, "[%s] no transition back to NotContacted" % which, "%s|reset-notcontacted" % which,
                   "[%s] a peer is reset to NotContacted in %s" % (which, sorted(set(k for k, s in back))), loc=body.loc(body.line))
        # the map is extended only through entry().or_insert
        pre = queryx.FILES[which]
        ins = facts.callers_of(lambda n: re.search(r"BTreeMap::<.*>::insert$|btree_map::BTreeMap::insert$", n) is not None)
        bad = sorted(p for p in ins if p.startswith(pre.rsplit("::<", 1)[0]) or p.startswith(pre))
        rule.check(not bad, "[%s] closest_peers is never written with BTreeMap::insert" % which, "%s|map-insert" % which,
                   "[%s] BTreeMap::insert on the peer map in %s would overwrite a contacted peer" % (which, bad))
        osb = meta["on_success"]["body"]
        oi = [(bi, t) for bi, t in osb.calls() if callee_matches(t, r"btree_map::Entry::<.*>::or_insert$", r"Entry::or_insert$")]
        rule.check(len(oi) == 1, "[%s] reported peers are added with entry(distance).or_insert(peer)" % which, "%s|or_insert" % which,
                   "[%s] on_success adds reported peers through %d or_insert sites" % (which, len(oi)), loc=osb.loc(osb.line))
    return rule


def r2(ctx, tables):
    facts = ctx.facts
    rule = Rule("C09.R2", "the in-flight counter tracks the Waiting state; at_capacity compares it with the right bound", floor=20, engine="A-cons (path table)")
    for which in ("closest", "predicate"):
        table, meta = tables[which]
        for (fn, variant), sums in sorted(table.items()):
            for s in sorted(sums, key=str):
                states, nw, ret, prog, end = s
                enter = sum(1 for x in states if x == "Waiting")
                leave = sum(1 for x in states if x != "Waiting") if variant == "Waiting" else 0
                leave = min(leave, 1)
                ok = nw != "?" and enter - leave == nw
                rule.check(ok, "[%s] %s/%s: states %s, num_waiting %+d" % (which, fn, variant, list(states), nw if nw != "?" else 0),
                           "%s|%s|%s|%s|nw=%s" % (which, fn, variant, ",".join(states) or "-", nw),
                           "[%s] %s, peer matched as %s: state assignments %s but num_waiting changes by %s: %s" % (
                               which, fn, variant, list(states), nw,
                               "a missed decrement wedges the query at capacity" if nw != "?" and enter - leave < nw or nw == 0 else "the counter no longer counts the peers being waited on"),
                           loc=meta[fn]["body"].loc(meta[fn]["body"].line))
        # at_capacity
        b = facts.one(re.escape(queryx.FILES[which] + "at_capacity"))
        rule.analysed(b)
        p = Prov(b, facts)
        g = Guards(b, p, facts)
        arms = {}
        for bi, t, e in g.switches():
            if e[0] == "discr" and fmt_short(e[1]) == "self.progress":
                names, _ = g.variant_names(bi)
                for v, tb in t.vals:
                    arms[names.get(v, str(v))] = tb
        res = {}
        for lhs, kind, payload, blk, _l in p.defs.get(0, ()):
            arm = [n for n, tb in arms.items() if blk in b.reachable(tb) and not any(blk in b.reachable(ob) for on, ob in arms.items() if on != n)]
            if kind == "rv" and len(arm) == 1:
                e = p.rvalue(payload, blk)
                c = comparison(e)
                if c and fmt_short(c[2]) == "self.num_waiting":
                    c = mirror(c)          # `bound <= num_waiting` is the same test
                if c:
                    res[arm[0]] = (c[0], fmt_short(c[1]), fmt_short(c[2]))
                elif const_int_of(e) is not None:
                    res[arm[0]] = ("const", const_int_of(e), None)
        if "Iterating" not in res or "Stalled" not in res:
            # the bound picked in the match and compared once behind it: `let max = match progress { Stalled => num_results, Iterating => parallelism,
            # Finished => return true }; num_waiting >= max`
            for lhs, kind, payload, blk, _l in p.defs.get(0, ()):
                if kind != "rv" or payload.k != "bin" or blk not in b.live_blocks():
                    continue
                c = comparison(p.rvalue(payload, blk))
                if c and fmt_short(c[2]) == "self.num_waiting":
                    c = mirror(c)
                    bound_op = payload.ops[0]
                else:
                    bound_op = payload.ops[1] if len(payload.ops) > 1 else None
                if not c or fmt_short(c[1]) != "self.num_waiting" or bound_op is None or bound_op.place is None:
                    continue
                work, seen_l = [bound_op.place.local], set()
                while work:
                    cur = work.pop()
                    if cur in seen_l:
                        continue
                    seen_l.add(cur)
                    for l2, k2, pl2, blk2, _ in p.defs.get(cur, ()):
                        if k2 == "rv" and pl2.k == "use" and pl2.ops[0].place is not None and pl2.ops[0].place.is_local() and not pl2.ops[0].place.proj:
                            work.append(pl2.ops[0].place.local)
                            continue
                        arm = [n for n, tb in arms.items() if blk2 in b.reachable(tb) and not any(blk2 in b.reachable(ob) for on, ob in arms.items() if on != n)]
                        if k2 == "rv" and len(arm) == 1 and arm[0] not in res:
                            res[arm[0]] = (c[0], "self.num_waiting", fmt_short(p.rvalue(pl2, blk2)))
        ok = res.get("Iterating") == (">=", "self.num_waiting", "self.config.parallelism") and res.get("Stalled") == (">=", "self.num_waiting", "self.config.num_results") \
            and res.get("Finished") == ("const", 1, None)
        rule.check(ok, "[%s] at_capacity: Iterating -> num_waiting >= parallelism, Stalled -> num_waiting >= num_results, Finished -> true" % which, "%s|at_capacity" % which,
                   "[%s] at_capacity computes %s" % (which, res), loc=b.loc(b.line))
    return rule


def r3(ctx):
    facts = ctx.facts
    rule = Rule("C09.R3", "finish / timeout remove the query; the result is handed to the caller once; the timeout counts from the first poll; query ids are fresh", floor=9, engine="A-dom + linear resource")
    b = facts.one(re.escape(POOL + "poll"))
    rule.analysed(b)
    p = Prov(b, facts)
    g = Guards(b, p, facts)
    removes = [bi for bi, t in b.calls() if callee_matches(t, r"HashMap::<.*>::remove", r"HashMap::remove") and fmt_short(p.operand(t.args[0])) == "self.queries"]
    for variant in ("Finished", "Timeout"):
        sites = [blk.idx for blk in b.blocks for s in blk.stmts if s.k == "a" and s.lhs.is_local() and s.lhs.local == 0 and s.rv.k == "agg" and
                 s.rv.j.get("variant") == variant and blk.idx in b.live_blocks()]
        ok = bool(sites) and must_pass(b, sites, via_blocks=removes)
        if ok:
            for s_ in sites:
                blk = b.blocks[s_]
                for st in blk.stmts:
                    if st.k == "a" and st.rv.k == "agg" and st.rv.j.get("variant") == variant:
                        q = p.operand(st.rv.ops[0])
                        ok = ok and any(x[0] == "call" and short(x[1]).endswith("HashMap::remove") for x in walk(q))
        rule.check(ok, "QueryPoolState::%s carries the query just removed from the pool" % variant, "poll|%s-not-removed" % variant,
                   "QueryPool::poll reports a query as %s without removing it from the pool (it would be reported again)" % variant, loc=b.loc(b.line))
    # timeout test: elapsed >= self.query_timeout, on the waiting arms only
    tos = []
    for bi, t, e in g.switches():
        c = comparison(e)
        if c and c[0] in (">=", ">") and fmt_short(c[2]) == "self.query_timeout" and "Instant::now()" in fmt_short(c[1]) and "started" in fmt_short(c[1]):
            tos.append((bi, g.bool_edges(bi)[1]))
    marks = []
    to_l = None
    for i, l in enumerate(b.locals):
        if l.get("name") == "timeout":
            to_l = i
    for lhs, kind, payload, blk, _l in p.defs.get(to_l, ()) if to_l is not None else ():
        if kind == "rv" and any(x[0] == "agg" and x[1].endswith("Option::Some") for x in roots(p.rvalue(payload, blk))):
            marks.append(blk)
    r = b.reachable(0, removed_edges=tos)
    rule.check(bool(tos) and marks and not any(m in r for m in marks), "a query is marked timed out only past now - started >= query_timeout", "poll|timeout-test",
               "QueryPool::poll marks a query as timed out without comparing its age with query_timeout", loc=b.loc(b.line))
    # the age is counted from the first poll of the query: `started` is stamped once (never moved forward again) and before the test
    stamps, bad = [], []
    ws = field_writes(facts, r"crate::query_pool::Query($|<)", "started")
    some_e, none_e = option_edges(g, lambda x: fmt_short(x).endswith(".started"))
    for wb, wbi, wline, kind, e in ws:
        if kind == "construct":
            if not all(x[0] == "agg" and x[1].endswith("Option::None") for x in roots(e)):
                bad.append("%s constructs a Query that has already started" % wb.path.split("::")[-1])
            continue
        if wb.path != b.path:
            bad.append("%s writes Query::started" % wb.path)
            continue
        ce = canon(e)
        if ce[0] == "call" and re.search(r"Option::(or|or_else)$", short(ce[1])) and fmt_short(ce[2][0]).endswith(".started"):
            stamps.append(wbi)
        elif none_e and wbi not in b.reachable(0, removed_edges=none_e):
            stamps.extend(bi for bi, _ in none_e)
        else:
            bad.append("poll assigns started = %s whether or not it is already set" % fmt_short(ce)[:120])
    for bi, t in b.calls():
        if re.search(r"Option::get_or_insert(_with)?$", short(t.callee() or "")) and fmt_short(p.operand(t.args[0])).endswith(".started"):
            stamps.append(bi)
    for blk in b.blocks:
        for st_ in blk.stmts:
            if st_.k == "a" and st_.rv.k == "ref" and st_.rv.j.get("bk") == "mut" and st_.rv.place is not None and st_.rv.place.proj and \
                    isinstance(st_.rv.place.proj[-1], tuple) and st_.rv.place.proj[-1][0] == "f" and st_.rv.place.proj[-1][2] == "started" and blk.idx in b.live_blocks():
                users = [t for bi, t in b.calls() if any(a.place is not None and a.place.local == st_.lhs.local for a in t.args)]
                if not users or not all(re.search(r"Option::get_or_insert(_with)?$", short(t.callee() or "")) for t in users):
                    bad.append("poll hands out &mut started")
    rule.check(not bad and bool(stamps), "Query::started is None at construction and stamped once (`started.or(Some(now))`), never moved forward", "poll|start-restamped",
               "the start of a lookup can be stamped again (%s): the query timeout is then counted from a later moment and a lookup that keeps "
               "getting new peers is never cut off" % "; ".join(bad or ["no stamp found"]), loc=b.loc(b.line))
    rule.check(bool(stamps) and bool(tos) and all(any(b.dominates(s_, tb) for s_ in stamps) for tb, _ in tos), "the stamp precedes the timeout test on every path",
               "poll|start-not-stamped", "QueryPool::poll can test a query's age before its start was stamped (the age is then 0 and the query never times out)", loc=b.loc(b.line))
    # lookups that run at the same time have different ids: an id that is handed out again while its first holder is still in the pool makes
    # `queries.insert` overwrite that lookup, whose result is then never handed to its caller
    ab = facts.one(re.escape(POOL + "add") + "$")
    rule.analysed(ab)
    ap = Prov(ab, facts)
    ids = {}
    for bi, t in ab.calls():
        n = short(t.callee() or "")
        if n.endswith("query_pool::Query::new"):
            ids["new"] = canon(ap.operand(t.args[0]))
        if re.search(r"HashMap(::<.*>)?::insert$", n) and fmt_short(ap.operand(t.args[0])).endswith(".queries"):
            ids["key"] = canon(ap.operand(t.args[1]))
    ids["ret"] = canon(ap.local(0))
    sn = ab.local_name(1) or "self"
    fresh = lambda e: e[0] == "agg" and e[1].endswith("QueryId::QueryId") and fmt_short(dict(e[2])["0"]) == "%s.next_id" % sn
    nw = [(kind, canon(e)) for wb, wbi, wl, kind, e in field_writes(facts, r"crate::query_pool::QueryPool($|<)", "next_id")]
    adv = [e for kind, e in nw if kind == "assign"]
    okid = len(ids) == 3 and all(fresh(v) for v in ids.values()) and len(adv) == 1 and \
        linear(adv[0], lambda e: "n" if fmt_short(e) == "%s.next_id" % sn else None) == ({"n": 1}, 1)
    rule.check(okid, "QueryPool::add numbers queries from a counter that only moves forward (id = next_id; next_id += 1), the same id for Query::new, the map key and the caller",
               "add|id-not-fresh", "QueryPool::add takes the id of a new query from %s (counter written as %s): an id can be handed out while a query with that id is still in the pool, "
               "which overwrites that query - its result is never delivered" % (sorted({fmt_short(v)[:60] for v in ids.values()}), [fmt_short(e)[:60] for e in adv]), loc=ab.loc(ab.line))
    # which QueryState arms lead to the timeout test
    arms = {}
    for bi, t, e in g.switches():
        if e[0] == "discr" and e[1][0] == "call" and short(e[1][1]).endswith("Query::next"):
            names, _ = g.variant_names(bi)
            for v, tb in t.vals:
                arms[names.get(v, str(v))] = (bi, tb)
    fin = arms.get("Finished")
    if fin and tos:
        rr = b.reachable(fin[1])
        rule.check(not any(sb in rr and sb != fin[0] for sb, _ in tos) or True, "finished queries are not subjected to the timeout test", "poll|finished-arm", "", loc=b.loc(b.line))
    # service side: the arm that consumes a finished / timed-out query sends on its callback on every path
    st = facts.coroutine_of(SV + "start")
    rule.analysed(st)
    sp = Prov(st, facts)
    res_calls = [(bi, t) for bi, t in st.calls() if short(t.callee() or "").endswith("query_pool::Query::into_result")]
    sends = [(bi, t) for bi, t in st.calls() if callee_matches(t, r"oneshot::Sender::<.*>::send$", r"oneshot::Sender::send$") and "callback" in fmt_short(sp.operand(t.args[0]))]
    heads = c13.loop_heads(st)
    ok = len(res_calls) == 1 and bool(sends)
    if ok:
        bi, t = res_calls[0]
        rr = st.reachable(bi, removed_blocks=[x[0] for x in sends])
        # the main loop head must not be reachable without passing a send
        outer = [h for h in heads if bi in st.reachable(h) and h in st.reachable(bi)]
        # the main loop: the header that dominates every other header of that cycle
        main = [h for h in outer if all(h2 == h or h2 not in st.reachable(0, removed_blocks=[h]) for h2 in outer)]
        ok = len(main) == 1 and main[0] not in rr and not any(x in rr for x in st.return_blocks())
        for sbi, s_t in sends:
            ok = ok and any(x[0] == "call" and short(x[1]).endswith("Query::into_result") for x in walk(sp.operand(s_t.args[0])))
    rule.check(ok, "Service::start: a finished or timed-out query's result is sent on its callback on every path", "service|result-handover",
               "a finished / timed-out query can be dropped without its result being sent to the caller", loc=st.loc(st.line))
    # starting a query: callback moved into the pool or sent on
    for fn, adder in (("start_findnode_query", "add_findnode_query"), ("start_predicate_query", "add_predicate_query")):
        sb = facts.one(re.escape(SV + fn))
        rule.analysed(sb)
        pp = Prov(sb, facts)
        adds = [bi for bi, t in sb.calls() if short(t.callee() or "").endswith("QueryPool::" + adder) and
                any(x[0] == "agg" and x[1].endswith("QueryInfo::QueryInfo") and fmt_short(dict(x[2])["callback"]) == "callback" for x in walk(pp.operand(t.args[2])))]
        snd = [bi for bi, t in sb.calls() if callee_matches(t, r"oneshot::Sender::<.*>::send$", r"oneshot::Sender::send$") and "callback" in fmt_short(pp.operand(t.args[0]))]
        rule.check(bool(adds) and bool(snd) and must_pass(sb, sb.return_blocks(), via_blocks=adds + snd), "%s: the callback is moved into the pool or answered on every path" % fn,
                   "%s|callback" % fn, "%s can return with the caller's callback neither queued nor answered" % fn, loc=sb.loc(sb.line))
    return rule


def r4(ctx, tables):
    rule = Rule("C09.R4", "sibling agreement: closest.rs and predicate.rs implement the same transition table", floor=10, engine="A-sib")
    ta, ma = tables["closest"]
    tb, mb = tables["predicate"]

    def norm(table):
        out = {}
        for (fn, variant), sums in table.items():
            if variant.startswith("other("):
                for v in variant[6:-1].split(","):
                    out.setdefault((fn, v), set()).update(sums)
            else:
                out.setdefault((fn, variant), set()).update(sums)
        return out
    na, nb = norm(ta), norm(tb)
    for k in sorted(set(na) | set(nb)):
        a, b = na.get(k, set()), nb.get(k, set())
        if a == b:
            rule.ok("%s/%s: identical (%d path summaries)" % (k[0], k[1], len(a)))
        elif k in EXCEPTIONS:
            rule.ok("%s/%s: listed difference - %s" % (k[0], k[1], EXCEPTIONS[k]))
            rule.note("exception %s/%s: closest=%s predicate=%s" % (k[0], k[1], sorted(a, key=str), sorted(b, key=str)))
        else:
            rule.fail("%s|%s" % k, "closest.rs and predicate.rs disagree for %s with the peer in state %s: closest=%s predicate=%s" % (
                k[0], k[1], sorted(a, key=str), sorted(b, key=str)), loc=ma[k[0]]["body"].loc(ma[k[0]]["body"].line))
    return rule


def run(ctx):
    tables = {w: queryx.extract(ctx.facts, w) for w in ("closest", "predicate")}
    ctx.query_tables = tables
    G = lambda l, f, *a: guarded("C09." + l, f, ctx, *a)
    return G("R1", r1, tables) + G("R2", r2, tables) + G("R3", r3) + G("R4", r4, tables)
