"""C06 — RPC message codec is exact, total and strict (structural clauses)."""
import re

from analysis import (emptiness_test, test_edges, flow_key, Prov, Guards, fmt, fmt_short, walk, roots, short, canon, lossy_casts, comparison, find_calls, callee_matches,
                      must_pass, const_int_of, writes_into, _lin_add, linear, closure_return_in_caller_terms, mirror, option_edges)
from aff import Aff, Fact
from facts import AnchorError, strip_closure
from harness import Rule, guarded
from c01 import bool_pass_edges
import c13

PID = "C06"
EXPLANATION = (
    "Sibling / dominance / affine rules over the MIR of the RPC codec. R1 (uniform strictness of the six arms): every construction "
    "of Message::Request / Message::Response in Message::decode is past header.list, past header.payload_length == payload.len(), past "
    "Ok(RequestId::decode) and past the arm's own payload.is_empty() test with no read of the payload cursor after it. R2 (field "
    "validation): RequestId::decode returns Ok only for at most 8 bytes; FINDNODE only after every distance passed `<= 256`; PONG only for "
    "an IP of 4 or 16 bytes and a non-zero port; NODES records only through Ok(Enr::decode). R3 (writer/reader tables): Request::msg_type "
    "/ Response::msg_type equal the decode arm table, and per message the ordered classes of RLP items written equal those read. R4 (no "
    "panic): every panic-capable site of Message::decode and RequestId::decode is an affine obligation entailed by its dominating facts; "
    "facts about the in-place payload cursor are dropped when the cursor may be advanced in between; one library axiom is used "
    "(Enr::size() of a decoded record is at most the length of the slice it was decoded from).")
EXPLANATION += (' Added while testing: R5 (framing): every outer list header of Request::encode / Response::encode declares the length of the buffer appended right after it (or the sum of Encodable::length over exactly the items encoded after it).')
NOT_DECIDED = ["round-trip equality and RLP canonicity (value level)", "the folding of IPv4-mapped IPv6 addresses being 'by design'"]
TRUSTED = ["alloy_rlp decoders return errors rather than panic", "axiom: Enr::size() <= length of the slice the record was decoded from"]
TECHNIQUE = "static analysis over type-checked MIR: sibling-table comparison, dominance, affine obligations with Fourier-Motzkin entailment"

R = "crate::rpc::"


def classes_written(facts, body_pat, enum_field):
    """per variant: ordered list of RLP item classes written into `list`"""
    b = facts.one(body_pat)
    p = Prov(b, facts)
    g = Guards(b, p, facts)
    arms = {}
    for bi, t, e in g.switches():
        if e[0] == "discr" and fmt_short(e[1]) == enum_field:
            names, _ = g.variant_names(bi)
            for v, tb in t.vals:
                arms[names.get(v, str(v))] = tb
    out = {}
    for vname, tb in arms.items():
        region = b.reachable(tb)
        others = set()
        for on, ob in arms.items():
            if on != vname:
                others |= b.reachable(ob)
        mine = []
        for bi, t in b.calls():
            if bi in region and bi not in others and re.search(r"alloy_rlp::Encodable( for [^>]*)?>::encode$|alloy_rlp::Header::encode$", t.callee_full() or ""):
                ty = (t.callee_full() or "").split(" as ")[0].lstrip("<")
                if ty.endswith("Header::encode"):
                    ty = "alloy_rlp::Header"
                mine.append((bi, ty))
        # order by dominance
        mine.sort(key=flow_key(b, mine))
        seq = []
        prev = None
        inner_headers = [bi for bi, ty in mine if cls(ty) == "header"]
        for bi, ty in mine:
            c = cls(ty)
            if c == "header":
                continue
            if c == "enr":
                # records written one by one form a list only when wrapped by their own header (besides the outer one)
                c = "list<enr>" if any(h in b.reachable(bi) for h in inner_headers[:-1]) and len(inner_headers) >= 2 else "enr*"
            if prev is not None and bi not in b.reachable(prev) and prev not in b.reachable(bi):
                # alternatives of one position (match ip { V4 => .., V6 => .. })
                if seq[-1] != c:
                    seq[-1] = "alt(%s|%s)" % (seq[-1], c)
                continue
            prev = bi
            seq.append(c)
        # collapse the record encoding (Header + Enr..., or Vec<Enr>) into one class
        norm = []
        for c in seq:
            if c in ("enr", "list<enr>"):
                if not norm or norm[-1] != "list<enr>":
                    norm.append("list<enr>")
            else:
                norm.append(c)
        out[vname] = norm
    return b, out


def cls(ty):
    ty = ty.strip()
    m = re.search(r"<impl alloy_rlp::Encodable for ([^>]+(?:<.*>)?)>::encode$", ty) or re.search(r"<impl alloy_rlp::Decodable for ([^>]+(?:<.*>)?)>::decode$", ty)
    if m:
        ty = m.group(1)
    if re.search(r"^\[u8\]$|^&\[u8\]$|Bytes$|Ipv4Addr$|Ipv6Addr$", ty):
        return "bytes"
    if ty in ("u64",):
        return "u64"
    if ty in ("u16",):
        return "u16"
    if re.search(r"^std::vec::Vec<u64>$", ty):
        return "list<u64>"
    if re.search(r"^std::vec::Vec<enr::Enr", ty):
        return "list<enr>"
    if re.search(r"^enr::Enr", ty):
        return "enr"
    if ty.endswith("alloy_rlp::Header"):
        return "header"
    return "?" + ty


def r1_r2_r3(ctx):
    facts = ctx.facts
    r1 = Rule("C06.R1", "uniform strictness of the six decode arms", floor=25, engine="A-sib + A-dom")
    r2 = Rule("C06.R2", "field validation: id length, distances, IP length, port, records", floor=7, engine="A-dom + A-aff")
    r3 = Rule("C06.R3", "writer / reader tables agree: message types and ordered RLP item classes", floor=7, engine="A-sib")
    b = facts.one(re.escape(R + "Message::decode"))
    for r_ in (r1, r2, r3):
        r_.analysed(b)
    a = Aff(b, facts)
    p, g = a.prov, a.guards
    cur = [c for c in a.cursors if any(callee_matches(b.blocks[m].term, r"Decodable>::decode$|Header::decode$") for m in a.cursor_calls[c]) and len(a.cursor_calls[c]) > 3]
    if len(cur) != 1:
        raise AnchorError("Message::decode: payload cursor not identified (%s)" % sorted(a.cursors))
    cur = cur[0]
    cname = "cursor(%s)" % (b.local_name(cur) or "_%d" % cur)
    adv = a.cursor_calls[cur]
    # arms
    arms = {}
    for bi, t, e in g.switches():
        if fmt_short(e) == "data[0]":
            for v, tb in t.vals:
                arms[v] = tb
            arms["other"] = t.otherwise
    if sorted(k for k in arms if k != "other") != [1, 2, 3, 4, 5, 6]:
        raise AnchorError("Message::decode: message type arms are %s" % sorted(map(str, arms)))
    # construction sites
    sites = {}
    for blk in b.blocks:
        if blk.idx not in b.live_blocks():
            continue
        for s in blk.stmts:
            if s.k == "a" and s.rv.k == "agg" and s.rv.j.get("def") == R + "Message":
                inner = p.operand(s.rv.ops[0])
                bodies = sorted(set(x[1].split("::")[-2] + "::" + x[1].split("::")[-1] for x in walk(inner) if x[0] == "agg" and re.search(r"rpc::(Request|Response)Body::", x[1])))
                arm = [k for k, tb in arms.items() if k != "other" and blk.idx in b.reachable(tb) and
                       not any(blk.idx in b.reachable(ob) for ok_, ob in arms.items() if ob != tb)]
                sites[blk.idx] = (s.rv.j["variant"], bodies, arm[0] if len(arm) == 1 else None, s.line)
    if len(sites) != 6:
        r1.fail("arms|sites", "Message::decode constructs messages at %d sites (6 confirmed by hand)" % len(sites), loc=b.loc(b.line))
    # common guards
    list_edges = bool_pass_edges(g, lambda e: e[0] == "field" and e[2] == "list" and "Header::decode(%s)" % cname in fmt_short(e), want_true=True)
    # every list header read from the payload cursor: its payload_length must equal what remains
    hdr_calls = [bi for bi, t in b.calls() if callee_matches(t, r"alloy_rlp::Header::decode$") and t.args and fmt_short(p.operand(t.args[0])) == cname]
    len_edges = {}
    for bi, t, e in g.switches():
        c = comparison(e)
        if not (c and c[0] in ("==", "!=")):
            continue
        for x, y in ((c[1], c[2]), (c[2], c[1])):
            if x[0] == "field" and x[2] == "payload_length" and fmt_short(y) == "slice::len(%s)" % cname:
                hs = [w[3][1] for w in walk(x) if w[0] == "call" and w[3] and w[3][0] == b.path and w[3][1] in hdr_calls]
                f, tr = g.bool_edges(bi)
                for h in hs:
                    stale = [m for m in adv if m != h and m in b.reachable(b.blocks[h].term.target) and bi in b.reachable(b.blocks[m].term.target, removed_blocks=[h])]
                    if not stale:
                        len_edges.setdefault(h, []).append((bi, tr if c[0] == "==" else f))
    id_edges = []
    for bi, t, e in g.switches():
        if e[0] == "discr" and any(x[0] == "call" and x[1] == R + "RequestId::decode" for x in walk(e[1])):
            names, _ = g.variant_names(bi)
            id_edges += [(bi, tb) for v, tb in t.vals if names.get(v) in ("Continue", "Ok")]
    empties = test_edges(g, emptiness_test, lambda x: fmt_short(x) == cname, want=True)
    for blk, (variant, bodies, arm, line) in sorted(sites.items()):
        label = "%s (type %s)" % ("/".join(bodies), arm)
        for nm, edges, msg in (("header.list", list_edges, "whose outer RLP header is not a list"), ("Ok(RequestId::decode)", id_edges, "with an invalid request id")):
            r = b.reachable(0, removed_edges=edges)
            r1.check(bool(edges) and blk not in r, "%s: only past %s" % (label, nm), "arm%s|%s" % (arm, nm), "Message::decode can accept a %s message %s" % ("/".join(bodies), msg), loc=b.loc(line))
        for h in hdr_calls:
            if blk not in b.reachable(h):
                continue
            inner = any(h in b.reachable(tb) for k, tb in arms.items())
            what = "record list" if inner else "outer list"
            edges = len_edges.get(h, [])
            r = b.reachable(0, removed_edges=edges)
            r1.check(bool(edges) and blk not in r, "%s: only past %s header.payload_length == payload.len()" % (label, what), "arm%s|%s-length" % (arm, what.replace(" ", "-")),
                     "Message::decode can accept a %s message with trailing or missing bytes after the %s (its declared length is never compared with what remains)" % ("/".join(bodies), what),
                     loc=b.loc(b.blocks[h].term.line))
        # own emptiness check, with no cursor read after it
        ok = False
        for sb, tgt in empties:
            if blk in b.reachable(0, removed_edges=[(sb, tgt)]):
                continue
            between = [m for m in adv if m in b.reachable(tgt, removed_blocks=[sb]) and blk in b.reachable(b.blocks[m].term.target or m)]
            if not between:
                ok = True
        if not ok and empties:
            # the check hoisted behind the match: the message is built first, and every way from there to `Ok(message)` passes the emptiness test,
            # with no cursor read in between
            ret_ok = [bb.idx for bb in b.blocks for s_ in bb.stmts if s_.k == "a" and s_.lhs.is_local() and s_.lhs.local == 0 and s_.rv.k == "agg" and
                      s_.rv.j.get("variant") == "Ok" and bb.idx in b.live_blocks()]
            after = b.reachable(blk, removed_edges=empties)
            tests = {sb for sb, _ in empties}
            between = [m for m in adv if m in b.reachable(blk) and m != blk and any(sb in b.reachable(b.blocks[m].term.target or m) for sb in tests)]
            ok = bool(ret_ok) and not any(x in after for x in ret_ok if x != blk) and not between and \
                (blk not in ret_ok or False)
        r1.check(ok, "%s: payload.is_empty() is tested after the last field was read" % label, "arm%s|trailing" % arm,
                 "Message::decode accepts a %s message with trailing bytes inside the list (no emptiness check after the last field)" % "/".join(bodies), loc=b.loc(line))
    # ---- R3 (a): message type tables
    wt = {}
    for fn, enumf in (("Request::msg_type", "self.body"), ("Response::msg_type", "self.body")):
        wb = facts.one(re.escape(R + fn))
        r3.analysed(wb)
        wp = Prov(wb, facts)
        wg = Guards(wb, wp, facts)
        for bi, t, e in wg.switches():
            if e[0] == "discr":
                names, _ = wg.variant_names(bi)
                for v, tb in t.vals:
                    vals = set()
                    for lhs, kind, payload, bl2, _l in wp.defs.get(0, ()):
                        if kind == "rv" and payload.k == "use" and bl2 in wb.reachable(tb) and not any(bl2 in wb.reachable(ob) for ov, ob in t.vals if ob != tb):
                            vals.add(payload.ops[0].const_int())
                    if len(vals) == 1:
                        wt["%sBody::%s" % (fn.split("::")[0], names.get(v, str(v)))] = vals.pop()
    rt = {}
    for blk, (variant, bodies, arm, line) in sites.items():
        for bd in bodies:
            rt[bd] = arm
    r3.check(wt == rt and len(wt) == 6, "message types: writer %s == reader" % wt, "msg-type|tables", "msg_type() writes %s but Message::decode reads %s" % (wt, rt), loc=b.loc(b.line))
    # ---- R3 (b): item classes
    wreq, wcls_req = classes_written(facts, re.escape(R + "Request::encode"), "self.body")
    wres, wcls_res = classes_written(facts, re.escape(R + "Response::encode"), "self.body")
    r3.analysed(wreq, wres)
    written = {}
    for k, v in wcls_req.items():
        written["RequestBody::" + k] = v
    for k, v in wcls_res.items():
        written["ResponseBody::" + k] = v
    # reader: decode calls on the cursor, in order, common prefix (id) + the arm's
    reads = [(bi, t) for bi, t in b.calls() if callee_matches(t, r"alloy_rlp::Decodable>::decode$|alloy_rlp::Header::decode$") and
             t.args and fmt_short(p.operand(t.args[0])) == cname]
    common = [(bi, t) for bi, t in reads if all(bi not in b.reachable(tb) for k, tb in arms.items())]

    def rcls(t):
        n = t.callee_full() or ""
        if n.endswith("Header::decode"):
            return "header"
        return cls(n.split(" as ")[0].lstrip("<"))
    common.sort(key=flow_key(b, common))
    prefix = [rcls(t) for _, t in common if rcls(t) != "header"]
    read = {}
    for blk, (variant, bodies, arm, line) in sites.items():
        tb = arms[arm]
        mine = [(bi, t) for bi, t in reads if bi in b.reachable(tb) and not any(bi in b.reachable(ob) for ok_, ob in arms.items() if ob != tb)]
        mine.sort(key=flow_key(b, mine))
        seq = []
        for bi, t in mine:
            c = rcls(t)
            if c == "header":
                # the record list: Header::decode followed by the per-record loop
                seq.append("list<enr>")
            else:
                seq.append(c)
        # records are decoded from sub-slices, not from the cursor: they do not appear in `reads`
        for bd in bodies:
            read[bd] = prefix + seq
    for bd in sorted(set(written) | set(read)):
        r3.check(written.get(bd) == read.get(bd), "%s: written %s == read" % (bd, written.get(bd)), "items|%s" % bd,
                 "%s is written as %s but read as %s" % (bd, written.get(bd), read.get(bd)), loc=b.loc(b.line))
    # ---- R2
    rid = facts.one(re.escape(R + "RequestId::decode"))
    r2.analysed(rid)
    ra = Aff(rid, facts)
    oks = [blk for lhs, kind, payload, blk, _l in ra.prov.defs.get(0, ()) if kind == "rv" and payload.k == "agg" and payload.j.get("variant") == "Ok"]
    L = ra.length(("param", 1, "data"))
    okk = bool(oks) and all(not ra.prove(o, [("le", L, ({}, 8), "len <= 8")]) for o in oks) and all(bool(ra.prove(o, [("le", L, ({}, 7), "len <= 7")])) for o in oks)
    r2.check(okk, "RequestId::decode: Ok only for at most 8 bytes (and 8 is accepted)", "request-id|length", "RequestId::decode accepts ids longer than 8 bytes (or rejects legal ones)", loc=rid.loc(rid.line))
    for blk, (variant, bodies, arm, line) in sorted(sites.items()):
        if "RequestBody::FindNode" in bodies:
            # the distances stored in the message
            stored = None
            for s_ in b.blocks[blk].stmts:
                pass
            for bb in b.blocks:
                for s_ in bb.stmts:
                    if s_.k == "a" and s_.rv.k == "agg" and str(s_.rv.j.get("def")).endswith("rpc::RequestBody") and s_.rv.j.get("variant") == "FindNode" and bb.idx in b.live_blocks():
                        stored = canon(p.operand(s_.rv.ops[0]))
            if stored is None:
                raise AnchorError("Message::decode: RequestBody::FindNode construction not found")
            bad = []
            ok_edge = []
            for bi, t, e in g.switches():
                c = comparison(e)
                if c and c[0] in (">", "<=") and const_int_of(c[2]) == 256 and is_element_of(canon(c[1]), stored):
                    f, tr = g.bool_edges(bi)
                    bad.append(tr if c[0] == ">" else f)
                    ok_edge.append((bi, f if c[0] == ">" else tr))
            nexts = [bi for bi, t in b.calls() if callee_matches(t, r"slice::Iter<.*u64> as .*Iterator>::next$", r"Iterator>::next$") and bi in b.reachable(arms[arm]) and
                     "Decodable>::decode(%s)" % cname in fmt_short(p.operand(t.args[0]))]
            okk = bool(bad) and bool(nexts) and not any(blk in b.reachable(x) for x in bad) and must_pass(b, [blk], via_blocks=nexts)
            if not okk:
                # the loop written with an iterator search: `if let Some(d) = distances.iter().find(|d| **d > 256) { reject }`, `if distances.iter().any(|d| *d > 256)`,
                # `if !distances.iter().all(|d| *d <= 256)`: the message is built only where no element exceeded the limit
                safe = []
                for bi, t, e in g.switches():
                    inner, neg = e, False
                    while inner[0] == "un" and inner[1] == "Not":
                        inner, neg = inner[2], not neg
                    src = inner[1] if inner[0] == "discr" else inner
                    src = canon(src)
                    if not (src[0] == "call" and re.search(r"Iterator>?::(find|any|all|position)$", short(src[1])) and len(src[2]) == 2):
                        continue
                    it = canon(src[2][0])
                    if not (it[0] == "call" and re.search(r"::(iter|into_iter)$", short(it[1])) and it[2] and canon(it[2][0]) == stored):
                        continue
                    pred = closure_return_in_caller_terms(facts, src[2][1], [("unknown", "element")])
                    c_ = comparison(pred) if pred is not None else None
                    if not c_:
                        continue
                    for cc in (c_, mirror(c_)):
                        if canon(cc[1]) == ("unknown", "element") and const_int_of(cc[2]) == 256 and cc[0] in (">", "<="):
                            which = short(src[1]).split("::")[-1]
                            over = cc[0] == ">"          # the predicate is true for an element above the limit
                            if inner[0] == "discr" and which in ("find", "position") and over:
                                so, no = option_edges(g, lambda y, src=src: canon(y) == src)
                                safe += [x for x in no if x[0] == bi]
                            elif which == "any" and over:
                                f_, tr_ = g.bool_edges(bi)
                                safe.append((bi, tr_ if neg else f_))
                            elif which == "all" and not over:
                                f_, tr_ = g.bool_edges(bi)
                                safe.append((bi, f_ if neg else tr_))
                okk = bool(safe) and blk not in b.reachable(0, removed_edges=safe)
            r2.check(okk, "FINDNODE: constructed only after the loop over its distances, whose `> 256` edge rejects", "findnode|distances",
                     "Message::decode can accept a FINDNODE request with a distance above 256", loc=b.loc(line))
        if "ResponseBody::Pong" in bodies:
            lens = []
            for bi, t, e in g.switches():
                if e[0] == "call" and (fmt_short(e).startswith("Bytes::len(") or (re.search(r"(slice|Bytes)::len$", short(e[1])) and any(
                        x[0] == "call" and re.search(r"<alloy_rlp::Bytes as alloy_rlp::Decodable>::decode$|Bytes as .*Decodable>::decode$", x[1]) for x in walk(e)))):
                    lens.append((bi, sorted(v for v, _ in t.vals), t.otherwise))
            okk = len(lens) == 1 and lens[0][1] == [4, 16] and blk not in b.reachable(lens[0][2])
            r2.check(okk, "PONG: only for an IP field of 4 or 16 bytes", "pong|ip-length", "Message::decode can accept a PONG whose IP field is neither 4 nor 16 bytes", loc=b.loc(line))
            port_ok = []
            for bi, t, e in g.switches():
                if e[0] == "discr" and any(x[0] == "call" and short(x[1]).endswith("TryInto>::try_into") for x in walk(e[1])):
                    names, _ = g.variant_names(bi)
                    port_ok += [(bi, tb) for v, tb in t.vals if names.get(v) == "Ok"]
            r = b.reachable(0, removed_edges=port_ok)
            r2.check(bool(port_ok) and blk not in r, "PONG: only past Ok(NonZeroU16::try_from(port))", "pong|port", "Message::decode can accept a PONG with port 0", loc=b.loc(line))
            # the port stored is the checked value itself: Ok payload of try_into applied to the decoded u16, no cast in between
            pstored = None
            for bb in b.blocks:
                for s_ in bb.stmts:
                    if s_.k == "a" and s_.rv.k == "agg" and str(s_.rv.j.get("def")).endswith("rpc::ResponseBody") and s_.rv.j.get("variant") == "Pong" and bb.idx in b.live_blocks():
                        pstored = canon(p.operand(s_.rv.ops[s_.rv.j["fields"].index("port")]))
            okp = pstored is not None and pstored[0] == "field" and pstored[1][0] == "as" and pstored[1][2] == "Ok" and pstored[1][1][0] == "call" and \
                short(pstored[1][1][1]).endswith("TryInto>::try_into") and not lossy_casts(pstored) and \
                any(x[0] == "call" and re.search(r"<u16 as alloy_rlp::Decodable>::decode$", short(x[1])) for x in walk(pstored[1][1][2][0]))
            tgt = [t.callee_full() for bi, t in b.calls() if callee_matches(t, r"TryInto>::try_into$") and bi in b.reachable(arms[arm])]
            okp = okp and bool(tgt) and all("NonZero" in (x or "") for x in tgt)
            r2.check(okp, "PONG: the port stored is the Ok value of the NonZeroU16 conversion of the decoded u16", "pong|port-value",
                     "the PONG port stored is %s, not the checked non-zero conversion of the decoded port" % (fmt_short(pstored) if pstored else "?"), loc=b.loc(line))
        if "ResponseBody::Nodes" in bodies:
            appends = [(bi, t) for bi, t in b.calls() if callee_matches(t, r"vec::Vec::<.*>::(append|push)$", r"Vec::(append|push)$") and bi in b.reachable(arms[arm])]
            okk = bool(appends)
            enr_dec = [bi for bi, t in b.calls() if callee_matches(t, r"enr::Enr<.*> as alloy_rlp::Decodable>::decode$", r"<enr::Enr as alloy_rlp::Decodable>::decode$")]
            cont = []
            for bi, t, e in g.switches():
                if e[0] == "discr" and any(x[0] == "call" and callee_like(x[1]) for x in walk(e[1])):
                    names, _ = g.variant_names(bi)
                    cont += [(bi, tb) for v, tb in t.vals if names.get(v) in ("Continue", "Ok")]
            r = b.reachable(0, removed_edges=cont)
            okk = okk and bool(enr_dec) and bool(cont) and not any(bi in r for bi, _ in appends)
            r2.check(okk, "NODES: a record is collected only past Ok(Enr::decode)", "nodes|records", "Message::decode can collect a record that did not decode as a valid signed record", loc=b.loc(line))
    rr = b.reachable(arms["other"])
    r2.check(not any(s in rr for s in sites), "an unknown message type is rejected", "msg-type|unknown", "Message::decode can accept an unknown message type", loc=b.loc(b.line))
    return r1, r2, r3


def is_element_of(e, collection):
    """e is exactly `(next(iter(collection)) as Some).0`: the iterated element itself, with no cast or arithmetic applied (a truncating cast such
    as `*d as u32` would let large values through)"""
    if not (e[0] == "field" and e[2] == "0" and e[1][0] == "as" and e[1][2] == "Some"):
        return False
    nx = e[1][1]
    if not (nx[0] == "call" and re.search(r"Iterator>::next$", short(nx[1])) and nx[2]):
        return False
    it = nx[2][0]
    while it[0] == "call" and re.search(r"slice::iter$|IntoIterator>::into_iter$|Deref>::deref$", short(it[1])) and it[2]:
        it = it[2][0]
    return it == collection


def callee_like(name):
    return re.search(r"<enr::Enr(<.*>)? as alloy_rlp::Decodable>::decode$", name) is not None


def r4(ctx):
    rule = Rule("C06.R4", "no panic on any input: every panic-capable site of Message::decode / RequestId::decode is entailed by its dominating facts", floor=6,
                engine="A-aff (Fourier-Motzkin, cursor-aware)")
    n = 0
    for prof, facts in ctx.all_profiles():
        for pat in (R + "Message::decode", R + "RequestId::decode"):
            b = facts.one(re.escape(pat))
            rule.analysed(b)
            a = Aff(b, facts)
            ax = a.size_axioms()
            res, ns, no = a.check_all(lambda blk, kind, desc: ax)
            n += ns
            name = "::".join(pat.split("::")[-2:])
            for (blk, kind, desc, line), failed in res:
                site = "[%s] %s %s: %s" % (prof, name, kind, desc[:90])
                if failed:
                    rule.fail("%s|%s|%s" % (name, kind, re.sub(r"\s+", " ", desc)[:80]),
                              "%s can panic: %s at %s - %s" % (name, kind, desc[:120], "; ".join("%s (%s)" % (w, why[:200]) for w, why in failed)), loc=b.loc(line), site=site)
                else:
                    rule.ok(site, "entailed" + (" (uses the Enr::size axiom)" if kind == "advance" else ""))
    rule.note("panic-capable sites examined: %d; axioms: Enr::size() <= len(source slice)" % n)
    return rule


def r5(ctx):
    """'the bytes equal the RLP layout': the outer list header a message is framed with declares exactly the length of what follows it"""
    facts = ctx.facts
    rule = Rule("C06.R5", "framing: every outer list header declares the length of the item bytes written right after it", floor=7, engine="A-prov + A-path")
    for fn in ("crate::rpc::Request::encode", "crate::rpc::Response::encode"):
        b = facts.one(re.escape(fn) + "$")
        rule.analysed(b)
        p = Prov(b, facts)
        henc = [(bi, t) for bi, t in b.calls() if short(t.callee() or "").endswith("Header::encode") and len(t.args) == 2]
        if not henc:
            raise AnchorError("%s: no Header::encode call" % fn)
        for bi, t in henc:
            h = [x for x in roots(p.operand(t.args[0])) if x[0] == "agg" and x[1].endswith("Header")]
            buf = canon(p.operand(t.args[1]))
            site = "%s|frame@%s" % (fn.split("::")[-2], b.arm_label(bi) if hasattr(b, "arm_label") else "")
            if len(h) != 1:
                rule.fail("%s|frame|header" % fn.split("::")[-2], "%s encodes a header that is not built in place" % fn, loc=b.loc(t.line))
                continue
            f = dict(h[0][2])
            plen = canon(f.get("payload_length", ("unknown", "")))
            is_list = const_int_of(f.get("list", ("unknown", ""))) == 1
            # what is written into the same buffer after the header, up to the return
            after = []
            for bj, t2 in b.calls():
                if bj == bi or bj not in b.reachable(t.target) or not t2.args:
                    continue
                n = short(t2.callee() or "")
                if re.search(r"::extend_from_slice$|::put_slice$|::extend$|::push$|::put_u8$", n) and canon(p.operand(t2.args[0])) == buf:
                    after.append(("raw", canon(p.operand(t2.args[1])), t2))
                elif re.search(r"Encodable>?::encode$", n) and len(t2.args) == 2 and canon(p.operand(t2.args[1])) == buf:
                    after.append(("item", canon(p.operand(t2.args[0])), t2))
            ok = False
            detail = "payload_length = %s, followed by %s" % (fmt_short(plen)[:100], ", ".join("%s %s" % (k, fmt_short(x)[:40]) for k, x, _ in after)[:160])
            if plen[0] == "call" and re.search(r"::len$", short(plen[1])) and plen[2]:
                # form A: the items were encoded into a list buffer L; header(len(L)); extend_from_slice(L)
                L = canon(plen[2][0])
                ok = len(after) == 1 and after[0][0] == "raw" and after[0][1] == L
            else:
                # form B: payload_length = sum of Encodable::length(item) over exactly the items encoded after the header
                lin = linear(plen)
                if lin is not None and lin[1] == 0 and lin[0] and all(v == 1 for v in lin[0].values()) and \
                        all(k[0] == "call" and re.search(r"Encodable>?::length$", short(k[1])) and k[2] for k in lin[0]):
                    want = sorted(fmt(canon(k[2][0]), -60) for k in lin[0])
                    got = sorted(fmt(x, -60) for k, x, _ in after if k == "item")
                    ok = want == got and all(k == "item" for k, _, _ in after)
            rule.check(ok and is_list, "%s line %s: list header declares the length of what follows" % (fn.split("::")[-2], ""), "%s|frame|payload-length" % fn.split("::")[-2],
                       "%s frames a message with a header whose payload_length is not the length of the bytes written after it (%s): the encoded message is not valid RLP for "
                       "some field values and does not decode to the same message" % (fn, detail), loc=b.loc(t.line))
    return rule


def run(ctx):
    G = lambda l, f, *a: guarded("C06." + l, f, ctx, *a)
    return G("R1-R3", r1_r2_r3) + G("R4", r4) + G("R5", r5)
