#!/usr/bin/env python3
"""debug aid: non-macro skeleton (switches, calls, aggregates) of bodies matching a regex"""
import sys
from facts import Facts
from analysis import *
f = Facts(sys.argv[1] if len(sys.argv) > 2 else '/verif/out/dev.jsonl')
pat = sys.argv[-1]
for b in f.find(pat):
    prov = Prov(b, f)
    print("==", b.path, "args", b.arg_count, "blocks", len(b.blocks))
    live = b.live_blocks()
    for blk in b.blocks:
        if blk.idx not in live or blk.cleanup:
            continue
        t = blk.term
        for s in blk.stmts:
            if s.k == 'a' and not s.exp and s.rv.k == 'agg' and s.rv.j['ak'] in ('adt',) :
                print("  bb%d  %s   // %s" % (blk.idx, s, s.line))
        if t.exp and not (t.exp.startswith('desugar:Await') and t.k=='yield'):
            continue
        if t.k == 'switch':
            print("  bb%d  switch %s -> %s else %s   // %s" % (blk.idx, fmt_short(prov.operand(t.discr))[:200], t.vals, t.otherwise, t.line))
        elif t.k == 'call':
            print("  bb%d  %s = %s(%s) -> %s  // %s" % (blk.idx, t.dest, short(t.callee() or '?'), ", ".join(fmt_short(prov.operand(a))[:80] for a in t.args), t.target, t.line))
        elif t.k in ('ret','yield'):
            print("  bb%d  %s  // %s" % (blk.idx, t.k, t.line))
