"""C18 — Inbound rate limiting and ban lists are enforced (structural clauses only)."""
import re

from analysis import (membership_test, mirror, Prov, Guards, fmt, fmt_short, walk, roots, short, comparison, find_calls, callee_matches,
                      must_pass, const_int_of, normalised_cmp, canon, field_writes, closures_of, subst_expr, cmp_intervals, flag_cases)
from facts import AnchorError, strip_closure
from harness import Rule, guarded
from c01 import bool_pass_edges

PID = "C18"
EXPLANATION = (
    "Dominance / who-may-write rules over the MIR of the inbound filter. R1 (stage order and precedence): in initial_pass and "
    "final_pass the permit-list hit returns true before anything else, a ban-list hit returns false before any rate accounting, a "
    "disabled filter returns true without consulting the limiter; in RecvHandler::handle_inbound the order is exemption lookup, "
    "initial_pass, decode, final_pass (only for packets with a source id) and the packet is forwarded only past both. R2: on the "
    "Err edge of allows(Ip) / allows(NodeId) the matching ban map receives that key with ban_duration.map(|d| now + d) and false "
    "is returned; exceeding the total quota drops without banning. R3: the writers of the permit/ban list are the enumerated set "
    "and the unban sweep keeps entries that are permanent or not yet due. R4: each LimitKind is routed to its own limiter and key, a "
    "refused request leaves the bucket untouched, the refusal test and the bucket update have the GCRA affine forms (refuse iff now < "
    "tat + t*tokens - tau; accept: tat := max(now, tat) + t*tokens) and prune keeps every bucket whose tat is not in the past. The "
    "quantitative statement itself - 'at most burst + rate x window admitted in any window, conforming traffic never refused' - "
    "is about integer time sequences and is NOT decided here; R4 only fixes the formulas it rests on.")
EXPLANATION += (" Added while testing: R1 also requires the total quota to be charged only after the sender's own quota admitted the packet and the filter stages to be evaluated only for sources no response is expected from. R5: each limiter is built from its own configured quota, the builder's fields are written only by their setters, and from_quota sets tau = period, t = period / tokens.")
NOT_DECIDED = ["the GCRA arithmetic of the rate limiter (burst + rate x window; conforming traffic never refused)", "that RateLimiter::prune changes no decision",
               "max_nodes_per_ip / max_bans_per_ip escalation counts"]
TRUSTED = ["RateLimiter::allows returns Err exactly when the quota is exceeded (not analysed)"]

F = "crate::socket::filter::Filter::"
PBL_WRITERS = {
    "crate::discv5::Discv5::ban_ip", "crate::discv5::Discv5::ban_ip_remove", "crate::discv5::Discv5::ban_node", "crate::discv5::Discv5::ban_node_remove",
    "crate::discv5::Discv5::new", "crate::discv5::Discv5::permit_ip", "crate::discv5::Discv5::permit_ip_remove", "crate::discv5::Discv5::permit_node",
    "crate::discv5::Discv5::permit_node_remove", "crate::handler::Handler::unban_nodes_check", "crate::service::Service::handle_rpc_response",
    F + "final_pass", F + "initial_pass",
}


def const_sites(body, prov):
    t, f = [], []
    for lhs, kind, payload, blk, _l in prov.defs.get(0, ()):
        if blk not in body.live_blocks():
            continue
        if kind == "rv" and payload.k == "use":
            c = payload.ops[0].const_int()
            if c == 1:
                t.append(blk)
            elif c == 0:
                f.append(blk)
    return t, f


def pass_rule(rule, facts, fn, permit_field, ban_field, key_desc, limit_kind, ban_key_pred):
    b = facts.one(re.escape(F + fn))
    rule.analysed(b)
    p = Prov(b, facts)
    g = Guards(b, p, facts)
    trues, falses = const_sites(b, p)
    permit_true, permit_false, banned_true, banned_false, en_true, en_false = [], [], [], [], [], []
    for bi, t, e in g.switches():
        inner, neg = e, False
        while inner[0] == "un" and inner[1] == "Not":
            inner, neg = inner[2], not neg
        f, tr = g.bool_edges(bi)
        if neg:
            f, tr = tr, f
        s = fmt(inner)
        mt = membership_test(inner)
        if mt is not None and "PERMIT_BAN_LIST" in s:
            cont, _key, mneg = mt
            tt, ff = (f, tr) if mneg else (tr, f)
            if permit_field in fmt_short(cont):
                permit_true.append((bi, tt)); permit_false.append((bi, ff))
            if ban_field in fmt_short(cont):
                banned_true.append((bi, tt)); banned_false.append((bi, ff))
        if fmt_short(inner) == "self.enabled":
            en_true.append((bi, tr)); en_false.append((bi, f))
    allows = [(bi, t) for bi, t in b.calls() if (t.callee() or "").endswith("rate_limiter::RateLimiter::allows")]
    # a limiter call inside a closure handed to a combinator (`self.rate_limiter.as_mut().is_some_and(|rl| rl.allows(&kind).is_err())`) is consulted
    # where the combinator is called: it is listed under that block, with its arguments rewritten into this function's terms
    for cb, cp, to_caller in closures_of(facts, b):
        for cbi, ct in cb.calls():
            if not (ct.callee() or "").endswith("rate_limiter::RateLimiter::allows"):
                continue
            host = [(bi, t) for bi, t in b.calls() if any(isinstance(x, tuple) and x and x[0] == "agg" and x[1] == "closure:" + cb.path for a in t.args for x in walk(p.operand(a)))]
            if len(host) == 1:
                allows.append((host[0][0], _ClosureCall(ct, [canon(to_caller(cp.operand(a))) for a in ct.args], (cb.path, cbi))))
    others = [bi for bi, t in b.calls() if callee_matches(t, r"HashMap::<.*>::insert$", r"HashMap::insert$", r"LruCache::<.*>::(insert|get_mut)$", r"LruCache::(insert|get_mut)$")]
    if not (permit_true and banned_true and en_true and allows):
        raise AnchorError("%s: permit / ban / enabled tests or limiter calls not found" % fn)
    # permit first
    r = b.reachable(0, removed_edges=permit_false)
    later = [x[0] for x in banned_true] + [bi for bi, _ in allows] + others
    rule.check(not any(x in r for x in later), "%s: nothing but the permit test runs before the permit decision" % fn, "%s|permit-first" % fn,
               "%s consults the ban list or the limiter before the permit list" % fn, loc=b.loc(b.line))
    ok = True
    for sb, tgt in permit_true:
        rr = b.reachable(tgt)
        if any(x in rr for x in falses) or any(bi in rr for bi, _ in allows):
            ok = False
    rule.check(ok, "%s: a permitted %s always passes" % (fn, key_desc), "%s|permit-passes" % fn, "%s can refuse or rate-account a permitted %s" % (fn, key_desc), loc=b.loc(b.line))
    # banned before rate accounting
    r = b.reachable(0, removed_edges=banned_false)
    rule.check(not any(bi in r for bi, _ in allows), "%s: the limiter is consulted only for a %s that is not banned" % (fn, key_desc), "%s|ban-before-rate" % fn,
               "%s runs rate accounting for a banned %s" % (fn, key_desc), loc=b.loc(b.line))
    ok = True
    for sb, tgt in banned_true:
        rr = b.reachable(tgt)
        if any(x in rr for x in trues):
            ok = False
    rule.check(ok, "%s: a banned %s is always dropped" % (fn, key_desc), "%s|ban-drops" % fn, "%s can pass a packet from a banned %s" % (fn, key_desc), loc=b.loc(b.line))
    # disabled
    r = b.reachable(0, removed_edges=en_true)
    rule.check(not any(bi in r for bi, _ in allows), "%s: the limiter is consulted only when the filter is enabled" % fn, "%s|disabled-rate" % fn,
               "%s rate-limits although the filter is disabled" % fn, loc=b.loc(b.line))
    ok = True
    for sb, tgt in en_false:
        rr = b.reachable(tgt)
        if any(x in rr for x in falses):
            ok = False
    rule.check(ok, "%s: with the filter disabled the packet passes" % fn, "%s|disabled-passes" % fn, "%s can drop a packet although the filter is disabled" % fn, loc=b.loc(b.line))
    return b, p, g, allows, trues, falses


def r1(ctx):
    facts = ctx.facts
    rule = Rule("C18.R1", "stage order and precedence of permit list, ban list, enabled flag and limiter; order of the receive pipeline", floor=15,
                engine="A-dom")
    ctx.c18 = {}
    ctx.c18["initial_pass"] = pass_rule(rule, facts, "initial_pass", "permit_ips", "ban_ips", "IP", "Ip", None)
    ctx.c18["final_pass"] = pass_rule(rule, facts, "final_pass", "permit_nodes", "ban_nodes", "node id", "NodeId", None)
    # the keys tested
    for fn, want in (("initial_pass", "SocketAddr::ip(src)"), ("final_pass", "node_address.node_id")):
        b, p, g, allows, trues, falses = ctx.c18[fn]
        for bi, t, e in g.switches():
            inner = e
            while inner[0] == "un":
                inner = inner[2]
            mt = membership_test(inner)
            if mt is not None and "PERMIT_BAN_LIST" in fmt(inner):
                k = fmt_short(mt[1])
                rule.check(k == want, "%s tests %s" % (fn, k), "%s|list-key" % fn, "%s looks up %s in the permit/ban list" % (fn, k), loc=b.loc(t.line))
    # within a stage: the sender's own quota is consulted (and, if exceeded, the sender banned) before the shared total quota is charged -
    # otherwise a sender over its quota drains the total budget of everyone else, and is dropped without being banned once the total is spent
    b, p, g, allows, trues, falses = ctx.c18["initial_pass"]
    own = [(bi, t) for bi, t in allows if any(x[0] == "agg" and x[1].endswith("LimitKind::Ip") for x in walk(_arg(p, t, 1)))]
    total = [(bi, t) for bi, t in allows if any(x[0] == "agg" and x[1].endswith("LimitKind::Total") for x in walk(_arg(p, t, 1)))]
    own_ok = []
    for bi, t, e in g.switches():
        inner, neg = e, False
        while inner[0] == "un" and inner[1] == "Not":
            inner, neg = inner[2], not neg
        hit = [x for x in walk(inner) if x[0] == "call" and x[1].endswith("rate_limiter::RateLimiter::allows") and x[3] and x[3][1] in [o[0] for o in own]]
        if not hit:
            continue
        f, tr = g.bool_edges(bi) if inner[0] == "call" else (None, None)
        if inner[0] == "call" and re.search(r"Result::is_err$", short(inner[1])):
            own_ok.append((bi, tr if neg else f))
        elif inner[0] == "call" and re.search(r"Result::is_ok$", short(inner[1])):
            own_ok.append((bi, f if neg else tr))
        elif inner[0] == "discr":
            names, _ = g.variant_names(bi)
            own_ok += [(bi, tb) for v, tb in t.vals if names.get(v) == "Ok"]
    r = b.reachable(0, removed_edges=own_ok)
    rule.check(bool(own) and bool(total) and bool(own_ok) and not any(bi in r for bi, _ in total), "initial_pass: the total quota is charged only after the sender's own (IP) quota admitted the packet",
               "initial_pass|own-quota-first", "initial_pass charges the total quota before (or without) consulting the sender's own IP quota: a sender over its quota uses up the budget of "
               "the others and escapes the ban once the total is exhausted", loc=b.loc(b.line))
    # handle_inbound pipeline
    hi = facts.coroutine_of("crate::socket::recv::RecvHandler::handle_inbound")
    rule.analysed(hi)
    p = Prov(hi, facts)
    g = Guards(hi, p, facts)
    ip_calls = [(bi, t) for bi, t in hi.calls() if (t.callee() or "") == F + "initial_pass"]
    fp_calls = [(bi, t) for bi, t in hi.calls() if (t.callee() or "") == F + "final_pass"]
    dec = [(bi, t) for bi, t in hi.calls() if (t.callee() or "") == "crate::packet::Packet::decode"]
    fwd = []
    for bi, t in hi.calls():
        if callee_matches(t, r"mpsc::Sender::<.*>::send$", r"mpsc::Sender::send$") and any(x[0] == "agg" and x[1].endswith("RecvPacket::Inbound") for x in walk(p.operand(t.args[1]))):
            fwd.append(bi)
    if not (ip_calls and fp_calls and dec and fwd):
        raise AnchorError("handle_inbound: pipeline stages not found")
    exempt, not_exempt = [], []
    for bi, t, e in g.switches():
        inner, neg = e, False
        while inner[0] == "un" and inner[1] == "Not":
            inner, neg = inner[2], not neg
        mt = membership_test(inner)
        if mt is not None and "expected_responses" in fmt_short(mt[0]):
            f, tr = g.bool_edges(bi)
            exempt.append((bi, f if (neg != mt[2]) else tr))
            not_exempt.append((bi, tr if (neg != mt[2]) else f))
    # a datagram from an address this node is waiting on is not subjected to the filter at all: the filter stages have side effects (they use up
    # the sender's and the total quota and ban on excess), so they run only on the not-expected edge
    r_ne = hi.reachable(0, removed_edges=not_exempt)
    rule.check(bool(not_exempt) and not any(bi in r_ne for bi, _ in ip_calls + fp_calls), "handle_inbound: the filter stages run only for sources no response is expected from",
               "inbound|filter-for-expected", "handle_inbound evaluates initial_pass / final_pass for a source a response is expected from: solicited responses use up the "
               "quotas meant for unsolicited datagrams, and a peer that only answers this node's requests can be banned", loc=hi.loc(hi.line))
    ip_pass = bool_pass_edges(g, lambda e: e[0] == "call" and e[1] == F + "initial_pass")
    fp_pass = bool_pass_edges(g, lambda e: e[0] == "call" and e[1] == F + "final_pass")
    r = hi.reachable(0, removed_edges=exempt + ip_pass)
    rule.check(bool(ip_pass) and not any(bi in r for bi, _ in dec), "handle_inbound: decoding only past initial_pass (or an exemption)", "inbound|decode-before-initial",
               "handle_inbound decodes a packet that did not pass the IP stage", loc=hi.loc(hi.line))
    src_none = []
    for bi, t, e in g.switches():
        if e[0] == "discr" and "Packet::src_id" in fmt_short(e[1]):
            src_none += [(bi, s_) for s_ in t.succs() if s_ not in [tb for v, tb in t.vals if v == 1]]
    r = hi.reachable(0, removed_edges=exempt + fp_pass + src_none)
    rule.check(bool(fp_pass) and not any(x in r for x in fwd), "handle_inbound: forwarded only past final_pass (exempt, or no source id)", "inbound|forward-before-final",
               "handle_inbound forwards a packet with a source id that did not pass the node stage", loc=hi.loc(hi.line))
    rule.check(must_pass(hi, [bi for bi, _ in fp_calls], via_blocks=[bi for bi, _ in dec]), "handle_inbound: final_pass runs after decoding", "inbound|final-before-decode",
               "final_pass runs before the packet is decoded", loc=hi.loc(hi.line))
    for bi, t in fp_calls:
        a = p.operand(t.args[1])
        okk = any(x[0] == "agg" and x[1].endswith("NodeAddress::NodeAddress") and "src_address" in fmt_short(dict(x[2])["socket_addr"]) and "Packet::src_id" in fmt_short(dict(x[2])["node_id"]) for x in walk(a))
        rule.check(okk, "final_pass is given NodeAddress{source address, packet's src id}", "inbound|final-args", "final_pass is called with %s" % fmt_short(a), loc=hi.loc(t.line))
    for bi, t in ip_calls:
        rule.check(fmt_short(p.operand(t.args[1])) == "src_address", "initial_pass is given the (normalised) source address", "inbound|initial-args",
                   "initial_pass is called with %s" % fmt_short(p.operand(t.args[1])), loc=hi.loc(t.line))
    return rule


class _ClosureCall:
    """a call found in a closure, presented like a terminator of the enclosing function"""
    def __init__(self, t, exprs, key):
        self.t, self.exprs, self.key = t, exprs, key
        self.line = t.line
        self.args = t.args

    def callee(self):
        return self.t.callee()


def _arg(p, t, i):
    return t.exprs[i] if isinstance(t, _ClosureCall) else p.operand(t.args[i])


def _akey(b, bi, t):
    return t.key if isinstance(t, _ClosureCall) else (b.path, bi)


def r2(ctx):
    facts = ctx.facts
    rule = Rule("C18.R2", "excess is banned for the configured duration (Ip / NodeId); exceeding the total quota drops without banning", floor=5,
                engine="A-dom + A-prov")
    for fn, kind, ban_field, key in (("initial_pass", "Ip", "ban_ips", "SocketAddr::ip(src)"), ("final_pass", "NodeId", "ban_nodes", "node_address.node_id")):
        if fn not in getattr(ctx, "c18", {}):
            raise AnchorError("%s: the stage tests were not identified (see C18.R1)" % fn)
        b, p, g, allows, trues, falses = ctx.c18[fn]
        for abi, at in allows:
            lk = _arg(p, at, 1)
            kinds = [x[1].split("::")[-1] for x in roots(lk) if x[0] == "agg" and "LimitKind::" in x[1]]
            akey = _akey(b, abi, at)
            err_edges = []
            for bi, t, e in g.switches():
                for inner, on_true, val in flag_cases(e):
                    if inner[0] == "call" and re.search(r"Result::is_(err|ok)$", short(inner[1])) and inner[2][0][0] == "call" and inner[2][0][3] == akey:
                        f, tr = g.bool_edges(bi)
                        is_err = short(inner[1]).endswith("is_err")
                        if val == is_err:          # on this edge the call returned Err
                            err_edges.append((bi, tr if on_true else f))
                if e[0] == "discr" and e[1][0] == "call" and e[1][3] == akey:
                    names, _ = g.variant_names(bi)
                    err_edges += [(bi, tb) for v, tb in t.vals if names.get(v) == "Err"]
            if not err_edges:
                rule.fail("%s|allows|%s|unchecked" % (fn, kinds), "%s ignores the result of allows(%s)" % (fn, kinds), loc=b.loc(at.line))
                continue
            bans = []
            for bi, t in b.calls():
                if callee_matches(t, r"HashMap::<.*>::insert$", r"HashMap::insert$") and "PERMIT_BAN_LIST" in fmt(p.operand(t.args[0])) and ban_field in fmt_short(p.operand(t.args[0])):
                    bans.append((bi, t))
            for sb, tgt in err_edges:
                rr = b.reachable(tgt)
                drops = not any(x in rr for x in trues)
                if kinds == [kind]:
                    key_ok = [bt for bbi, bt in bans if fmt_short(p.operand(bt.args[1])) == key and
                              any(x[0] == "call" and short(x[1]).endswith("Option::map") and fmt_short(x[2][0]) == "self.ban_duration" for x in walk(p.operand(bt.args[2])))]
                    must = bool(key_ok) and not any(x in b.reachable(tgt, removed_blocks=[bbi for bbi, bt in bans if bt in key_ok]) for x in b.return_blocks())
                    rule.check(drops and must, "%s: allows(%s) = Err -> %s.insert(%s, ban_duration.map(now + d)) and drop" % (fn, kind, ban_field, key),
                               "%s|excess-%s" % (fn, kind), "%s does not ban %s for ban_duration (and drop the packet) when its quota is exceeded" % (fn, key), loc=b.loc(at.line))
                elif kinds == ["Total"]:
                    nb = not any(bbi in rr for bbi, _ in bans)
                    rule.check(drops and nb, "%s: allows(Total) = Err -> drop without banning" % fn, "%s|excess-Total" % fn,
                               "%s bans (or passes) on exceeding the total quota" % fn, loc=b.loc(at.line))
        # the closure computing the ban expiry
        for cb, _cp, _tc in closures_of(facts, b):      # the closures built in this function (after inlining, those of a `ban_timeout()` helper too)
            if cb.arg_count == 2:
                cp = Prov(cb, facts)
                e = cp.local(0)
                s = fmt_short(e)
                if "Instant::now" in s:
                    rule.check(re.search(r"Add>::add\(Instant::now\(\), \w+\)", s) is not None, "%s: ban expiry = Instant::now() + duration" % fn, "%s|ban-expiry" % fn,
                               "%s computes the ban expiry as %s" % (fn, s), loc=cb.loc(cb.line))
    return rule


def r3(ctx):
    facts = ctx.facts
    rule = Rule("C18.R3", "who edits the permit / ban list; the unban sweep keeps permanent and not-yet-due entries", floor=3, engine="A-who + A-prov")
    w = set()
    for pth, b in facts.bodies.items():
        pr = None
        for bi, t in b.calls():
            if callee_matches(t, r"RwLock::<.*>::write$", r"RwLock::write$"):
                pr = pr or Prov(b, facts)
                if "PERMIT_BAN_LIST" in fmt(pr.operand(t.args[0])):
                    w.add(strip_closure(pth))
    extra = sorted(w - PBL_WRITERS)
    rule.check(not extra and {F + "initial_pass", F + "final_pass"} <= w, "writers of PERMIT_BAN_LIST: %s" % sorted(x.split("::")[-1] for x in w), "ban-list|writers",
               "PERMIT_BAN_LIST is written from %s (not in the enumerated set)" % extra)
    ub = facts.one(r"crate::handler::Handler::unban_nodes_check")
    rule.analysed(ub)
    n = 0
    for pth, cb in sorted(facts.bodies.items()):
        if not pth.startswith(ub.path + "::{closure#"):
            continue
        cp = Prov(cb, facts)
        e = cp.local(0)
        s = fmt(e)
        alts = e[1] if e[0] == "phi" else (e,)
        keep_perm = any(x[0] == "call" and short(x[1]).endswith("Option::is_none") for a in alts for x in walk(a)) or "is_none" in s
        if not keep_perm:
            cg = Guards(cb, cp, facts)
            perm_edges = bool_pass_edges(cg, lambda x: x[0] == "call" and short(x[1]).endswith("Option::is_none") and "time" in fmt_short(x[2][0]))
            t_sites = [blk for lhs, kind, payload, blk, _l in cp.defs.get(0, ()) if kind == "rv" and payload.k == "use" and payload.ops[0].const_int() == 1]
            keep_perm = bool(perm_edges) and bool(t_sites) and not any(x in cb.reachable(0, removed_edges=perm_edges) for x in t_sites)
        keep_future = False
        for a in alts:
            c = comparison(a)
            if c and c[0] in ("<", "<=") and "Instant::now" in fmt(c[1]) and "time" in fmt_short(c[2]):
                keep_future = True
            if c and c[0] in (">", ">=") and "Instant::now" in fmt(c[2]) and "time" in fmt_short(c[1]):
                keep_future = True
        n += 1
        rule.check(keep_perm and keep_future, "unban sweep keeps entries with no expiry or an expiry after now", "unban|retain|%d" % n,
                   "the unban sweep's retain predicate is %s" % fmt_short(e), loc=cb.loc(cb.line))
    if n != 2:
        rule.fail("unban|sites", "unban sweep closures found: %d (2 confirmed by hand)" % n)
    return rule


def r4(ctx):
    facts = ctx.facts
    rule = Rule("C18.R4", "limiter dispatch and bookkeeping shape: each LimitKind goes to its own limiter and key; a refused request does not advance the bucket; "
                "prune drops only buckets that are already full", floor=6, engine="A-prov + A-dom")
    RL = "crate::socket::filter::rate_limiter::"
    b = facts.one(re.escape(RL + "RateLimiter::allows"))
    rule.analysed(b)
    p = Prov(b, facts)
    g = Guards(b, p, facts)
    arms = {}
    for bi, t, e in g.switches():
        if e[0] == "discr" and fmt_short(e[1]) == "request":
            names, _ = g.variant_names(bi)
            for v, tb in t.vals:
                arms[names.get(v, str(v))] = tb
    want = {"Total": ("self.total_rl", "tuple{..}"), "Ip": ("self.ip_rl.0", "request.0"), "NodeId": ("self.node_rl.0", "request.0")}
    for kind, (lim, key) in want.items():
        if kind not in arms:
            rule.fail("dispatch|%s|missing" % kind, "RateLimiter::allows has no arm for LimitKind::%s" % kind, loc=b.loc(b.line))
            continue
        is_allows = lambda t: (t.callee() or "").endswith("rate_limiter::Limiter::<Key>::allows") or short(t.callee() or "").endswith("rate_limiter::Limiter::allows")
        # (block of the dispatching function the call belongs to, argument expressions in the dispatching function's terms)
        calls = [(bi, [canon(p.operand(a)) for a in t.args]) for bi, t in b.calls() if is_allows(t)]
        # `self.ip_rl.as_mut().map_or(Ok(()), |limiter| limiter.allows(now, ip, tokens))`: the call sits in a closure of a combinator; it belongs to
        # the block that hands the closure to the combinator, its receiver is the combinator's payload
        for cb, cp, to_caller in closures_of(facts, b):
            for cbi, ct in cb.calls():
                if not is_allows(ct):
                    continue
                host = [(bi, t) for bi, t in b.calls() if any(isinstance(x, tuple) and x and x[0] == "agg" and x[1] == "closure:" + cb.path for a in t.args for x in walk(p.operand(a)))]
                if len(host) != 1:
                    continue
                hbi, ht = host[0]
                payload = ("field", ("as", canon(p.operand(ht.args[0])), "Some"), "0")
                MARK = ("unknown", "closure-payload")
                args_ = [canon(subst_expr(to_caller(subst_expr(cp.operand(a), lambda x: MARK if isinstance(x, tuple) and x and x[0] == "param" and len(x) > 1 and x[1] == 2 else None)),
                                          lambda x, payload=payload: payload if x == MARK else None)) for a in ct.args]
                calls.append((hbi, args_))
        mine = [(bi, a) for bi, a in calls if bi in b.reachable(arms[kind]) and not any(bi in b.reachable(tb) for k2, tb in arms.items() if k2 != kind)]
        okk = len(mine) == 1 and len(mine[0][1]) == 4 and fmt_short(mine[0][1][0]) == lim and fmt_short(mine[0][1][2]) == key and \
            fmt_short(mine[0][1][1]) == "Instant::elapsed(self.init_time)" and const_int_of(mine[0][1][3]) == 1
        rule.check(okk, "LimitKind::%s -> %s.allows(elapsed, %s, 1)" % (kind, lim.replace(".0", ""), key), "dispatch|%s" % kind,
                   "RateLimiter::allows routes LimitKind::%s to %s" % (kind, [(fmt_short(a[0]), fmt_short(a[2])) for _, a in mine if len(a) > 2]), loc=b.loc(b.line))
    # Limiter::allows: the bucket is advanced only on the accepting path; TooSoon only when now < earliest
    la = facts.one(re.escape(RL + "Limiter::<Key>::allows"))
    rule.analysed(la)
    p = Prov(la, facts)
    g = Guards(la, p, facts)
    def is_now(x):
        """the current time in nanoseconds: Duration::as_nanos(<the time parameter>), possibly cast"""
        x = canon(x)
        while x[0] == "cast":
            x = canon(x[1])
        return x[0] == "call" and short(x[1]).endswith("Duration::as_nanos") and x[2] and canon(x[2][0])[0] == "param"

    def tat_atom(x):
        if x[0] == "call" and short(x[1]).endswith("Ord::max") and len(x[2]) == 2:
            if any(is_now(y) for y in x[2]) and any("or_insert" in fmt_short(y) and not is_now(y) for y in x[2]):
                return "max(now,tat)"
        if x[0] == "field" and x[2] == "0" and x[1][0] == "bin" and x[1][1] == "MulWithOverflow" and {fmt_short(x[1][2]), fmt_short(x[1][3])} == {"self.t", "tokens"}:
            return "t*tokens"
        if x[0] == "bin" and x[1] == "Mul" and {fmt_short(x[2]), fmt_short(x[3])} == {"self.t", "tokens"}:
            return "t*tokens"
        if x[0] == "call" and short(x[1]).endswith("Entry::or_insert"):
            return "tat"
        if is_now(x):
            return "now"
        return None

    def conf_atom(x):
        a = tat_atom(x)
        if a:
            return a
        if fmt_short(x) == "self.tau":
            return "tau"
        return None
    # the conformance test, found by what it compares: x = now - (tat + t*tokens - tau); the request is refused where x < 0
    early = []
    conf_seen = []
    for bi, t, e in g.switches():
        nc = normalised_cmp(e, conf_atom)
        if nc and set(nc[0]) == {"now", "tat", "t*tokens", "tau"} and nc[1] == 0:
            d, k, op = nc
            sgn = d["now"]
            if d != {"now": sgn, "tat": -sgn, "t*tokens": -sgn, "tau": sgn} or abs(sgn) != 1:
                conf_seen.append((d, k, op))
                continue
            ivs = cmp_intervals(sgn, k, op)
            if ivs is None:
                continue
            f_, tr_ = g.bool_edges(bi)
            (lo_t, hi_t), (lo_f, hi_f) = ivs
            if hi_t is not None and hi_t <= -1 and lo_f is not None and lo_f >= 0:
                early.append((bi, (f_, tr_)))           # true edge refuses
            elif hi_f is not None and hi_f <= -1 and lo_t is not None and lo_t >= 0:
                early.append((bi, (tr_, f_)))           # false edge refuses (the test is written as the acceptance `now >= earliest`)
            else:
                conf_seen.append((d, k, op))
    early = [x for i, x in enumerate(early) if x not in early[:i]]
    writes = [blk.idx for blk in la.blocks for s in blk.stmts if s.k == "a" and s.lhs.proj == ("*",) and blk.idx in la.live_blocks() and
              "u64" in la.local_ty(s.lhs.local)]
    oks = [blk for lhs, kind, payload, blk, _l in p.defs.get(0, ()) if kind == "rv" and payload.k == "agg" and payload.j.get("variant") == "Ok"]
    toosoon = [blk.idx for blk in la.blocks for s in blk.stmts if s.k == "a" and s.rv.k == "agg" and s.rv.j.get("variant") == "TooSoon"]
    okk = len(early) == 1 and bool(writes) and bool(oks) and bool(toosoon)
    if okk:
        sb, (f, tr) = early[0]
        r_refuse = la.reachable(tr)
        r_accept = la.reachable(f)
        okk = not any(w in r_refuse for w in writes) and all(w in r_accept for w in writes) and all(x in r_refuse for x in toosoon) and \
            not any(x in r_accept for x in toosoon) and not any(o in r_refuse for o in oks)
    rule.check(okk, "Limiter::allows: refused (now < earliest) -> Err without touching the bucket; accepted -> bucket advanced, Ok", "limiter|bookkeeping",
               "Limiter::allows advances the bucket of a refused request or refuses outside `now < earliest_time`", loc=la.loc(la.line))
    # the accepted request advances the bucket from max(now, old tat): idle time is not credited beyond a full bucket
    from analysis import linear
    forms = []
    for blk in la.blocks:
        for s_ in blk.stmts:
            if s_.k == "a" and s_.lhs.proj == ("*",) and blk.idx in la.live_blocks() and "u64" in la.local_ty(s_.lhs.local):
                e = p.rvalue(s_.rv, blk.idx)
                alts = e[1] if e[0] == "phi" else (e,)
                forms.append([linear(a, tat_atom) for a in alts])
    okk = bool(forms)
    for alts in forms:
        direct = alts == [({"max(now,tat)": 1, "t*tokens": 1}, 0)]
        branch = sorted(str(a) for a in alts) == sorted(str(a) for a in [({"now": 1, "t*tokens": 1}, 0), ({"tat": 1, "t*tokens": 1}, 0)])
        if not (direct or branch):
            okk = False
    rule.check(okk, "accepted request: tat := max(now, tat) + t * tokens", "limiter|tat-update",
               "Limiter::allows advances the bucket as %s instead of max(now, tat) + t*tokens: an idle key is credited its whole idle time (unbounded burst), and pruning the key changes later decisions" % forms,
               loc=la.loc(la.line))
    # the conformance test: refuse iff now < tat + t*tokens - tau (either orientation, either branch order)
    rule.check(len(early) == 1 and not conf_seen, "refusal test: now < (tat + t*tokens) - tau", "limiter|conformance-test",
               "Limiter::allows does not refuse exactly where now < tat + t*tokens - tau (other tests over these quantities: %s)" % (conf_seen,), loc=la.loc(la.line))
    # prune
    pc = facts.one(re.escape(RL + "Limiter::<Key>::prune") + r"::\{closure#0\}")
    rule.analysed(pc)
    e = Prov(pc, facts).local(0)
    c = comparison(e)
    okk = c is not None and ((c[0] in (">=", ">") and fmt_short(c[1]) == "tat" and fmt_short(c[2]) == "lim") or (c[0] in ("<=", "<") and fmt_short(c[2]) == "tat" and fmt_short(c[1]) == "lim"))
    rule.check(okk, "Limiter::prune keeps exactly the buckets whose tat is not before the pruning time", "limiter|prune",
               "Limiter::prune's retain predicate is %s: pruning may drop a bucket that is not full yet and so change later decisions" % fmt_short(e), loc=pc.loc(pc.line))
    pr = facts.one(re.escape(RL + "Limiter::<Key>::prune"))
    pe = Prov(pr, facts)
    for bi, t in pr.calls():
        if callee_matches(t, r"HashMap::<.*>::retain", r"HashMap::retain$"):
            clo = pe.operand(t.args[1])
            lim = dict(clo[2]).get("lim") if clo[0] == "agg" else None
            rule.check(lim is not None and fmt_short(lim) in ("Duration::as_nanos(time_limit)",), "prune's limit is the pruning time", "limiter|prune-limit",
                       "prune compares against %s" % (fmt_short(lim) if lim else "?"), loc=pr.loc(t.line))
    rp = facts.one(re.escape(RL + "RateLimiter::prune"))
    rule.analysed(rp)
    pe = Prov(rp, facts)
    n = 0
    for bi, t in rp.calls():
        if short(t.callee() or "").endswith("rate_limiter::Limiter::prune"):
            n += 1
            rule.check(fmt_short(pe.operand(t.args[1])) == "Instant::elapsed(self.init_time)", "RateLimiter::prune passes the current time", "limiter|prune-now|%d" % n,
                       "RateLimiter::prune prunes with %s" % fmt_short(pe.operand(t.args[1])), loc=rp.loc(t.line))
    return rule


def r5(ctx):
    """'the configured burst plus rate times the window': each limiter is built from the quota configured for it, and a quota becomes
    (tau, t) = (replenish_all_every, replenish_all_every / max_tokens)"""
    facts = ctx.facts
    rule = Rule("C18.R5", "each limiter is built from its own configured quota (total / per node / per ip) and a quota becomes tau = period, t = period / tokens",
                floor=11, engine="A-prov + ADT field writers")
    RL = "crate::socket::filter::rate_limiter::"
    b = facts.one(re.escape(RL + "RateLimiterBuilder::build"))
    rule.analysed(b)
    p = Prov(b, facts)
    built = None
    for x in roots(p.local(0)):
        if x[0] == "agg" and x[1].endswith("Result::Ok"):
            for y in roots(dict(x[2])["0"]):
                if y[0] == "agg" and y[1].endswith("RateLimiter::RateLimiter"):
                    built = dict(y[2])
    if built is None:
        raise AnchorError("RateLimiterBuilder::build: the RateLimiter it returns was not found")
    quotas = ("total_quota", "node_quota", "ip_quota")
    sn = b.local_name(1) or "self"
    for fld, q in (("total_rl", "total_quota"), ("node_rl", "node_quota"), ("ip_rl", "ip_quota")):
        text = fmt(canon(built.get(fld, ("unknown", ""))), -60)
        used = [x for x in quotas if re.search(r"\b%s\.%s\b" % (re.escape(sn), x), text)]
        rule.check(used == [q] and "from_quota" in text, "build: %s = Limiter::from_quota(self.%s)" % (fld, q), "build|%s" % fld,
                   "RateLimiterBuilder::build makes %s from %s: that limiter enforces another quota than the one configured for it"
                   % (fld, ", ".join("self." + u for u in used) or "no configured quota"), loc=b.loc(b.line))
    # the builder's setters store the quota they are given in their own field; nothing else writes the fields
    for q in quotas:
        ws = field_writes(facts, re.escape(RL + "RateLimiterBuilder"), q)
        ok = True
        detail = []
        for wb, wbi, wline, kind, e in ws:
            if kind == "construct":
                ok = ok and (wb.path.endswith("Default>::default") or all(x[0] == "agg" and x[1].endswith("Option::None") for x in roots(e)))
                continue
            okw = wb.path == RL + "RateLimiterBuilder::" + q and all(x[0] == "agg" and x[1].endswith("Option::Some") and dict(x[2])["0"] == ("param", 2, wb.local_name(2)) for x in roots(e))
            if not okw:
                detail.append("%s stores %s" % (wb.path.split("::")[-1], fmt_short(e)[:80]))
            ok = ok and okw
        rule.check(ok and any(k == "assign" for _, _, _, k, _ in ws), "RateLimiterBuilder::%s is set only by its setter, to the quota given" % q, "builder|%s" % q,
                   "RateLimiterBuilder::%s is written elsewhere or with another value (%s)" % (q, "; ".join(detail)), loc=None)
        nb = facts.one(re.escape(RL + "RateLimiterBuilder::" + q.replace("_quota", "_n_every")))
        rule.analysed(nb)
        e = canon(Prov(nb, facts).local(0))
        okn = e[0] == "call" and e[1] == RL + "RateLimiterBuilder::" + q and len(e[2]) == 2 and e[2][1][0] == "agg" and \
            fmt_short(dict(e[2][1][2]).get("max_tokens", ("unknown", ""))) == (nb.local_name(2) or "n") and \
            fmt_short(dict(e[2][1][2]).get("replenish_all_every", ("unknown", ""))) == (nb.local_name(3) or "time_period")
        rule.check(okn, "%s(n, period) = %s(Quota{period, n})" % (q.replace("_quota", "_n_every"), q), "builder|%s|n_every" % q,
                   "RateLimiterBuilder::%s builds %s" % (q.replace("_quota", "_n_every"), fmt_short(e)[:160]), loc=nb.loc(nb.line))
    # a quota becomes (tau, t)
    fq = facts.one(re.escape(RL + "Limiter::<Key>::from_quota"))
    rule.analysed(fq)
    fp = Prov(fq, facts)
    lim = None
    for x in roots(fp.local(0)):
        if x[0] == "agg" and x[1].endswith("Result::Ok"):
            for y in roots(dict(x[2])["0"]):
                if y[0] == "agg" and y[1].endswith("Limiter::Limiter"):
                    lim = dict(y[2])
    if lim is None:
        raise AnchorError("Limiter::from_quota: the Limiter it returns was not found")
    qn = fq.local_name(1) or "quota"

    def arith(e):
        """the arithmetic core of a converted value: drops try_into / map_err / `?` wrappers"""
        e = canon(e)
        while True:
            if e[0] == "field" and e[1][0] == "as":
                e = canon(e[1][1])
            elif e[0] == "call" and re.search(r"Try>?::branch$|Result::map_err$|TryInto>?::try_into$|TryFrom>?::try_from$|From>?::from$|Into>?::into$", short(e[1])) and e[2]:
                e = canon(e[2][0])
            else:
                return e
    tau, t = arith(lim.get("tau", ("unknown", ""))), arith(lim.get("t", ("unknown", "")))
    per = "Duration::as_nanos(%s.replenish_all_every)" % qn
    rule.check(fmt_short(tau) == per, "from_quota: tau = replenish_all_every (the burst a fresh key may use at once)", "from_quota|tau",
               "Limiter::from_quota sets tau = %s" % fmt_short(tau)[:160], loc=fq.loc(fq.line))
    okt = t[0] == "bin" and t[1] == "Div" and fmt_short(t[2]) == per and fmt_short(t[3]).replace(" as u128", "").strip("()") == "%s.max_tokens" % qn
    rule.check(okt, "from_quota: t = replenish_all_every / max_tokens (the time one token takes to come back)", "from_quota|t",
               "Limiter::from_quota sets t = %s" % fmt_short(t)[:160], loc=fq.loc(fq.line))
    return rule


def run(ctx):
    G = lambda l, f, *a: guarded("C18." + l, f, ctx, *a)
    return G("R1", r1) + G("R2", r2) + G("R3", r3) + G("R4", r4) + G("R5", r5)
