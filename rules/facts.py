"""Fact loading and MIR helper classes (E2 front end).

A `Facts` object holds every exported body of one crate plus ADT / impl / const facts. `Body`
wraps one body and offers CFG helpers. Nothing here executes the analysed code.
"""
import json
import os
import re
from collections import defaultdict


class Place:
    __slots__ = ("local", "proj")

    def __init__(self, j):
        self.local = j[0]
        self.proj = tuple(tuple(p) if isinstance(p, list) else p for p in j[1])

    def key(self):
        return (self.local, tuple(pk(p) for p in self.proj))

    def is_local(self):
        return not self.proj

    def field_names(self):
        return [p[2] for p in self.proj if isinstance(p, tuple) and p[0] == "f"]

    def __repr__(self):
        s = "_%d" % self.local
        for p in self.proj:
            if p == "*":
                s = "(*%s)" % s
            elif p[0] == "f":
                s += ".%s" % p[2]
            elif p[0] == "d":
                s += " as %s" % p[1]
            elif p[0] == "i":
                s += "[_%d]" % p[1]
            elif p[0] == "ci":
                s += "[%s%d]" % ("-" if p[3] else "", p[1])
            elif p[0] == "s":
                s += "[%d..%s%d]" % (p[1], "-" if p[3] else "", p[2])
            else:
                s += ".<%s>" % p[0]
        return s


def pk(p):
    """projection element key without the type index"""
    if p == "*":
        return "*"
    if p[0] == "f":
        return ("f", p[1])
    if p[0] == "d":
        return ("d", p[2])
    return tuple(p)


class Operand:
    __slots__ = ("kind", "place", "const")

    def __init__(self, j):
        self.kind = j[0]
        self.place = None
        self.const = None
        if self.kind in ("c", "m"):
            self.place = Place(j[1])
        elif self.kind == "k":
            self.const = j[1]

    def is_const(self):
        return self.kind == "k"

    def const_int(self):
        if self.const is not None and "v" in self.const:
            return int(self.const["v"])
        return None

    def const_def(self):
        if self.const is not None:
            return self.const.get("def")
        return None

    def fn(self):
        if self.const is not None:
            return self.const.get("fn")
        return None

    def __repr__(self):
        if self.kind == "c":
            return "copy %r" % self.place
        if self.kind == "m":
            return "move %r" % self.place
        if self.kind == "k":
            c = self.const
            if "fn" in c:
                return "fn(%s)" % c["fn"]["decl"]
            if "v" in c:
                d = c.get("def")
                return "const %s%s" % (c["v"], (" /*%s*/" % d) if d and not c.get("promoted") else "")
            if "def" in c:
                return "const {%s%s}" % (c["def"], " promoted" if c.get("promoted") else "")
            return "const ?"
        return "<rt>"


class Rvalue:
    __slots__ = ("k", "j", "ops", "place")

    def __init__(self, j):
        self.k = j["k"]
        self.j = j
        self.ops = []
        self.place = None
        if self.k in ("use", "repeat", "cast"):
            self.ops = [Operand(j["op"])]
        elif self.k == "bin":
            self.ops = [Operand(j["a"]), Operand(j["b"])]
        elif self.k == "un":
            self.ops = [Operand(j["a"])]
        elif self.k == "agg":
            self.ops = [Operand(o) for o in j["ops"]]
        elif self.k in ("ref", "rawptr", "discr"):
            self.place = Place(j["pl"])

    def __repr__(self):
        j = self.j
        if self.k == "use":
            return repr(self.ops[0])
        if self.k == "ref":
            return "&%s%r" % ("mut " if j["bk"] == "mut" else ("fake " if j["bk"] == "fake" else ""), self.place)
        if self.k == "rawptr":
            return "&raw %r" % self.place
        if self.k == "cast":
            return "%r as <%s>" % (self.ops[0], j["ck"])
        if self.k == "bin":
            return "%s(%r, %r)" % (j["op"], self.ops[0], self.ops[1])
        if self.k == "un":
            return "%s(%r)" % (j["op"], self.ops[0])
        if self.k == "discr":
            return "discriminant(%r)" % self.place
        if self.k == "agg":
            ak = j["ak"]
            if ak == "adt":
                return "%s::%s{%s}" % (j["def"], j["variant"], ", ".join(
                    "%s: %r" % (f, o) for f, o in zip(j["fields"], self.ops)))
            if ak in ("closure", "coroutine"):
                return "%s@%s{%s}" % (ak, j["def"], ", ".join(
                    "%s: %r" % (f, o) for f, o in zip(j["fields"], self.ops)))
            return "%s(%s)" % (ak, ", ".join(repr(o) for o in self.ops))
        if self.k == "repeat":
            return "[%r; _]" % self.ops[0]
        return "<%s>" % self.k


class Stmt:
    __slots__ = ("k", "lhs", "rv", "line", "exp", "variant", "local")

    def __init__(self, j):
        self.k = j["k"]
        self.lhs = None
        self.rv = None
        self.variant = None
        self.local = None
        self.line = None
        self.exp = None
        if "s" in j:
            self.line = j["s"][0]
            self.exp = j["s"][1] if len(j["s"]) > 1 else None
        if self.k == "a":
            self.lhs = Place(j["l"])
            self.rv = Rvalue(j["r"])
        elif self.k == "sd":
            self.lhs = Place(j["l"])
            self.variant = j["v"]
        elif self.k == "dead":
            self.local = j["l"]

    def __repr__(self):
        if self.k == "a":
            return "%r = %r" % (self.lhs, self.rv)
        if self.k == "sd":
            return "discriminant(%r) = %d" % (self.lhs, self.variant)
        return "StorageDead(_%d)" % self.local


class Term:
    __slots__ = ("k", "j", "line", "exp", "args", "dest", "fn", "fop", "target", "discr", "vals",
                 "otherwise", "place", "cond", "drop", "imag")

    def __init__(self, j):
        self.k = j["k"]
        self.j = j
        self.line = j["s"][0]
        self.exp = j["s"][1] if len(j["s"]) > 1 else None
        self.args = []
        self.dest = None
        self.fn = None
        self.fop = None
        self.target = j.get("t")
        self.discr = None
        self.vals = []
        self.otherwise = None
        self.place = None
        self.cond = None
        self.drop = None
        self.imag = j.get("imag")
        if self.k == "call":
            self.fn = j["fn"]
            self.fop = Operand(j["fop"]) if j.get("fop") else None
            self.args = [Operand(a) for a in j["args"]]
            self.dest = Place(j["dest"])
        elif self.k == "switch":
            self.discr = Operand(j["d"])
            self.vals = [(int(v), b) for v, b in j["vals"]]
            self.otherwise = j["else"]
        elif self.k == "drop":
            self.place = Place(j["pl"])
        elif self.k == "assert":
            self.cond = Operand(j["cond"])
        elif self.k == "yield":
            self.dest = Place(j["arg"])
            self.drop = j.get("drop")

    # ---- callee helpers
    def callee(self):
        """best name of the callee: resolved instance if available, else declared"""
        if self.fn is None:
            return None
        return self.fn.get("inst") or self.fn.get("decl")

    def callee_decl(self):
        return self.fn.get("decl") if self.fn else None

    def callee_full(self):
        if self.fn is None:
            return None
        return self.fn.get("inst_full") or self.fn.get("decl_full")

    def names(self):
        if self.fn is None:
            return []
        return [self.fn[k] for k in ("inst", "decl", "inst_full", "decl_full") if k in self.fn]

    def succs(self, normal_only=True):
        k = self.k
        if k == "goto":
            return [self.target]
        if k == "switch":
            out = []
            for _, b in self.vals:
                if b not in out:
                    out.append(b)
            if self.otherwise not in out:
                out.append(self.otherwise)
            return out
        if k in ("call", "drop", "assert"):
            return [self.target] if self.target is not None else []
        if k == "yield":
            out = [self.target]
            if not normal_only and self.drop is not None:
                out.append(self.drop)
            return out
        return []

    def __repr__(self):
        k = self.k
        if k == "goto":
            return "goto -> bb%d" % self.target
        if k == "switch":
            return "switchInt(%r) -> [%s, otherwise: bb%d]" % (
                self.discr, ", ".join("%d: bb%d" % (v, b) for v, b in self.vals), self.otherwise)
        if k == "call":
            name = self.callee_full() or ("(%r)" % self.fop)
            return "%r = %s(%s) -> %s" % (self.dest, name, ", ".join(repr(a) for a in self.args),
                                          "bb%d" % self.target if self.target is not None else "!")
        if k == "drop":
            return "drop(%r) -> bb%d" % (self.place, self.target)
        if k == "assert":
            return "assert(%s%r, %s) -> bb%d" % ("" if self.j["exp"] else "!", self.cond, self.j["msg"], self.target)
        if k == "yield":
            return "yield -> bb%d (arg %r)" % (self.target, self.dest)
        return k


class Block:
    __slots__ = ("idx", "stmts", "term", "cleanup")

    def __init__(self, idx, j):
        self.idx = idx
        self.cleanup = j["cleanup"]
        self.stmts = [Stmt(s) for s in j["st"]]
        self.term = Term(j["term"])


class Body:
    def __init__(self, j):
        self.j = j
        self.path = j["path"]
        self.file = j["file"]
        self.line = j["line"]
        self.arg_count = j["arg_count"]
        self.locals = j["locals"]
        self.tys = j["tys"]
        self.coroutine = j["coroutine"]
        self.parent = j.get("parent")
        self.defkind = j["defkind"]
        self._blocks = None
        self._preds = None
        self._reach = None

    @property
    def blocks(self):
        if self._blocks is None:
            self._blocks = [Block(i, b) for i, b in enumerate(self.j["blocks"])]
        return self._blocks

    def relfile(self):
        f = self.file
        i = f.find("src/")
        return f[i:] if i >= 0 else f

    def loc(self, line):
        return "%s:%s" % (self.relfile(), line)

    def local_ty(self, l):
        return self.tys[self.locals[l]["ty"]]

    def local_name(self, l):
        return self.locals[l].get("name")

    def ty(self, idx):
        return self.tys[idx]

    def place_ty(self, place):
        """type string of a place where it can be told: the local's type, `*` strips one reference,
        a field projection carries its own type; downcasts keep the enum type"""
        ty = self.local_ty(place.local)
        for p in place.proj:
            if ty is None:
                return None
            if p == "*":
                m = re.match(r"^&(?:'\w+ )?(?:mut )?(.*)$", ty)
                if m:
                    ty = m.group(1)
                elif ty.startswith("std::boxed::Box<"):
                    ty = ty[len("std::boxed::Box<"):-1]
                else:
                    ty = None
            elif isinstance(p, tuple) and p[0] == "f":
                ty = self.tys[p[3]]
            elif isinstance(p, tuple) and p[0] == "d":
                pass
            else:
                ty = None
        return ty

    def succs(self, b):
        return self.blocks[b].term.succs()

    def preds(self):
        if self._preds is None:
            p = defaultdict(list)
            for b in self.blocks:
                if b.cleanup:
                    continue
                for s in b.term.succs():
                    p[s].append(b.idx)
            self._preds = p
        return self._preds

    def reachable(self, start=0, removed_edges=(), removed_blocks=()):
        """set of blocks reachable from `start` along normal edges. Edges that contradict a constant just assigned on the path
        (`r = Err(..); .. match branch(r) { Continue => .. }`, `ok = false; .. if ok {..}`) are not followed: see _ValueTracker."""
        removed_edges = set(removed_edges)
        removed_blocks = set(removed_blocks)
        if start in removed_blocks:
            return set()
        vt = self.value_tracker()
        if vt is None:
            seen = {start}
            stack = [start]
            while stack:
                b = stack.pop()
                for s in self.blocks[b].term.succs():
                    if s in seen or s in removed_blocks or (b, s) in removed_edges:
                        continue
                    seen.add(s)
                    stack.append(s)
            return seen
        init = vt.initial()
        seen_states = {(start, init)}
        seen = {start}
        stack = [(start, init)]
        while stack:
            b, st = stack.pop()
            for s, st2 in vt.step(b, st):
                if s in removed_blocks or (b, s) in removed_edges:
                    continue
                if (s, st2) in seen_states:
                    continue
                seen_states.add((s, st2))
                seen.add(s)
                stack.append((s, st2))
        return seen

    def value_tracker(self):
        if not hasattr(self, "_vt"):
            self._vt = None
            if not os.environ.get("VERIF_PLAIN_REACH"):
                vt = _ValueTracker(self)
                if vt.tracked:
                    self._vt = vt
        return self._vt

    def idoms(self):
        """immediate dominators over the normal-edge CFG (Cooper-Harvey-Kennedy); {block: idom}, entry maps to itself"""
        if getattr(self, "_idom", None) is not None:
            return self._idom
        order = []
        seen = {0}
        stack = [(0, iter(self.blocks[0].term.succs()))]
        while stack:
            b, it = stack[-1]
            adv = False
            for s in it:
                if s not in seen:
                    seen.add(s)
                    stack.append((s, iter(self.blocks[s].term.succs())))
                    adv = True
                    break
            if not adv:
                order.append(b)
                stack.pop()
        rpo = list(reversed(order))
        num = {b: i for i, b in enumerate(rpo)}
        preds = defaultdict(list)
        for b in rpo:
            for s in self.blocks[b].term.succs():
                if s in num:
                    preds[s].append(b)
        idom = {0: 0}

        def intersect(a, c):
            while a != c:
                while num[a] > num[c]:
                    a = idom[a]
                while num[c] > num[a]:
                    c = idom[c]
            return a
        changed = True
        while changed:
            changed = False
            for b in rpo[1:]:
                ps = [p_ for p_ in preds[b] if p_ in idom]
                if not ps:
                    continue
                new = ps[0]
                for p_ in ps[1:]:
                    new = intersect(p_, new)
                if idom.get(b) != new:
                    idom[b] = new
                    changed = True
        self._idom = idom
        return idom

    def dominates(self, h, u):
        idom = self.idoms()
        if u not in idom or h not in idom:
            return False
        while True:
            if u == h:
                return True
            if u == 0:
                return False
            u = idom[u]

    def live_blocks(self):
        if self._reach is None:
            self._reach = self.reachable(0)
        return self._reach

    def calls(self, live_only=True):
        """yield (block index, Term) for every call terminator"""
        live = self.live_blocks() if live_only else None
        for b in self.blocks:
            if b.cleanup:
                continue
            if live is not None and b.idx not in live:
                continue
            if b.term.k == "call":
                yield b.idx, b.term

    def return_blocks(self):
        live = self.live_blocks()
        return [b.idx for b in self.blocks if b.term.k == "ret" and b.idx in live and not b.cleanup]

    def dump(self, only_live=True, skip_macros=()):
        out = []
        out.append("fn %s  [%s:%d] args=%d" % (self.path, self.relfile(), self.line, self.arg_count))
        for i, l in enumerate(self.locals):
            out.append("    let _%d: %s%s" % (i, self.tys[l["ty"]], ("  // %s" % l["name"]) if l.get("name") else ""))
        live = self.live_blocks()
        for b in self.blocks:
            if only_live and b.idx not in live:
                continue
            if b.cleanup:
                continue
            out.append("  bb%d:" % b.idx)
            for s in b.stmts:
                if s.k == "dead":
                    continue
                out.append("    %r;  // %s%s" % (s, s.line, (" " + s.exp) if s.exp else ""))
            t = b.term
            out.append("    %r;  // %s%s" % (t, t.line, (" " + t.exp) if t.exp else ""))
        return "\n".join(out)


_KNOWN_PARAMS = None


def known_params():
    global _KNOWN_PARAMS
    if _KNOWN_PARAMS is None:
        p = os.path.join(os.path.dirname(os.path.abspath(__file__)), "known_params.json")
        _KNOWN_PARAMS = json.load(open(p)) if os.path.exists(p) else {}
    return _KNOWN_PARAMS


def _each_place(bj):
    """every place (a [local, proj] list) of a body's JSON, for in-place edits"""
    def operand(o):
        if o and o[0] in ("c", "m"):
            yield o[1]
    for blk in bj["blocks"]:
        for st in blk["st"]:
            if st["k"] == "a":
                yield st["l"]
                r = st["r"]
                if "pl" in r:
                    yield r["pl"]
                for key in ("op", "a", "b"):
                    if key in r and isinstance(r[key], list):
                        yield from operand(r[key])
                for o in r.get("ops", ()):
                    yield from operand(o)
            elif st["k"] == "sd":
                yield st["l"]
        t = blk["term"]
        for a in t.get("args", ()):
            yield from operand(a)
        for key in ("dest", "pl", "arg"):
            if key in t and isinstance(t[key], list):
                yield t[key]
        for key in ("d", "cond", "fop", "v"):
            if t.get(key) and isinstance(t[key], list):
                yield from operand(t[key])


def normalise_names(facts):
    """Rules print parameters and captured variables by name. So that renaming a parameter or a captured local (a behaviour-preserving edit)
    cannot change what a rule sees, the names of the pinned tree (known_params.json, by position) are written over the current ones for every
    function that still has the same number of parameters. Returns {path: {current name: pinned name}} for the evidence."""
    ref = known_params()
    out = {}
    # closures are numbered in source order: when a closure is added to or removed from a function, the later ones change their paths, and the
    # names recorded for `f::{closure#1}` belong to another closure. Names are mapped for a function's closures only when the set of its
    # closure paths is the pinned one.
    def parent_of(pth):
        return pth.split("::{closure#")[0]
    cur_sets, ref_sets = {}, {}
    for pth in facts.bodies:
        if "::{closure#" in pth:
            cur_sets.setdefault(parent_of(pth), set()).add(pth)
    for pth in ref:
        if "::{closure#" in pth:
            ref_sets.setdefault(parent_of(pth), set()).add(pth)
    renumbered = {par for par in set(cur_sets) | set(ref_sets) if cur_sets.get(par, set()) != ref_sets.get(par, set())}
    for path, b in facts.bodies.items():
        r = ref.get(path)
        if r is None:
            continue
        if "::{closure#" in path and parent_of(path) in renumbered:
            continue
        bj = b.j
        ren = {}
        if len(r["params"]) == bj["arg_count"]:
            for i, want in enumerate(r["params"]):
                loc = bj["locals"][i + 1]
                if want and loc.get("name") and loc["name"] != want:
                    ren[loc["name"]] = want
                    loc["name"] = want
        # let-bound variables: by position among the named locals, when their number and types are unchanged (a pure renaming keeps both)
        want_locals = r.get("locals")
        if want_locals is not None:
            cur = [(i, loc) for i, loc in enumerate(bj["locals"]) if i > bj["arg_count"] and loc.get("name")]
            same_names = sorted(loc["name"] for _, loc in cur) == sorted(wn for wn, _ in want_locals)
            # (if only the order of declarations changed the names are still the pinned ones and nothing is mapped)
            if not same_names and len(cur) == len(want_locals) and all(bj["tys"][loc["ty"]] == wt for (i, loc), (wn, wt) in zip(cur, want_locals)):
                for (i, loc), (wn, wt) in zip(cur, want_locals):
                    if loc["name"] != wn:
                        ren[loc["name"]] = wn
                        loc["name"] = wn
        ups = r.get("upvars")
        if ups:
            seen_ix = set()
            for pl in _each_place(bj):
                if pl[0] == 1:
                    for e in pl[1]:
                        if isinstance(e, list) and e[0] == "f":
                            seen_ix.add(str(e[1]))
                            break
                        if e != "*":
                            break
            if not seen_ix <= set(ups):
                ups = None      # a different closure now lives under this path
        if ups:
            for pl in _each_place(bj):
                if pl[0] != 1:
                    continue
                for e in pl[1]:
                    if isinstance(e, list) and e[0] == "f":
                        want = ups.get(str(e[1]))
                        if want and e[2] != want:
                            ren[e[2]] = want
                            e[2] = want
                        break
                    if e != "*":
                        break
        # closure / coroutine constructions inside this body
        for blk in bj["blocks"]:
            for st in blk["st"]:
                if st["k"] == "a" and st["r"].get("k") == "agg" and st["r"].get("ak") in ("closure", "coroutine"):
                    if parent_of(str(st["r"].get("def"))) in renumbered and "::{closure#" in str(st["r"].get("def")):
                        continue
                    cu = (ref.get(st["r"].get("def")) or {}).get("upvars")
                    if cu and st["r"].get("fields"):
                        for i, nm in enumerate(st["r"]["fields"]):
                            want = cu.get(str(i))
                            if want and nm != want:
                                ren[nm] = want
                                st["r"]["fields"][i] = want
        if ren:
            out[path] = ren
            b._blocks = None
    return out


TRACKED_ADTS = {"std::result::Result": {0: "Ok", 1: "Err"}, "std::option::Option": {0: "None", 1: "Some"},
                "std::ops::ControlFlow": {0: "Continue", 1: "Break"}, "core::result::Result": {0: "Ok", 1: "Err"},
                "core::option::Option": {0: "None", 1: "Some"}, "core::ops::ControlFlow": {0: "Continue", 1: "Break"}}
_BRANCH = re.compile(r"ops::Try>::branch$|ops::try_trait::Try>::branch$|::Try::branch$")


class _ValueTracker:
    """Constant propagation of booleans and of Option / Result / ControlFlow variants along a path, for plain locals that are never
    mutably borrowed. Only locals in the backward slice of a switch operand are tracked. Abstract values: None (unknown), ("b", 0|1),
    ("v", adt, variant index), ("d", discriminant value). Sound by construction: any assignment that is not understood resets to unknown,
    and an unknown value follows every edge."""

    def __init__(self, body):
        self.body = body
        blocks = body.blocks
        # locals whose address is taken mutably (or by raw pointer) are never tracked
        self.untrackable = set()
        defs = defaultdict(list)
        for b in blocks:
            if b.cleanup:
                continue
            for s in b.stmts:
                if s.k == "a":
                    if s.rv.k in ("ref", "rawptr") and s.rv.place is not None and (s.rv.k == "rawptr" or s.rv.j.get("bk") == "mut"):
                        if not any(x == "*" for x in s.rv.place.proj):
                            self.untrackable.add(s.rv.place.local)
                    if s.lhs.is_local():
                        defs[s.lhs.local].append(("rv", s.rv))
                    else:
                        if not any(x == "*" for x in s.lhs.proj):
                            defs[s.lhs.local].append(("partial", None))
                elif s.k == "sd" and s.lhs is not None:
                    defs[s.lhs.local].append(("partial", None))
            t = b.term
            if t.k == "call" and t.dest is not None:
                defs[t.dest.local].append(("call", t) if t.dest.is_local() else ("partial", None))
            if t.k == "yield" and t.dest is not None:
                defs[t.dest.local].append(("partial", None))
        self.defs = defs
        # backward slice from switch operands
        work = []
        for b in blocks:
            if b.cleanup:
                continue
            t = b.term
            if t.k == "switch" and t.discr is not None and t.discr.place is not None and t.discr.place.is_local():
                work.append(t.discr.place.local)
        rel = set()
        useful = False
        while work:
            l = work.pop()
            if l in rel or l in self.untrackable or l <= body.arg_count and l != 0 and False:
                continue
            rel.add(l)
            for kind, d in defs.get(l, ()):
                if kind == "rv":
                    if d.k == "use" and d.ops[0].place is not None and d.ops[0].place.is_local():
                        work.append(d.ops[0].place.local)
                    elif d.k == "un" and d.j.get("op") == "Not" and d.ops[0].place is not None and d.ops[0].place.is_local():
                        work.append(d.ops[0].place.local)
                    elif d.k == "discr" and d.place is not None and d.place.is_local():
                        work.append(d.place.local)
                    if (d.k == "use" and d.ops[0].const_int() in (0, 1)) or (d.k == "agg" and d.j.get("ak") == "adt" and d.j.get("def") in TRACKED_ADTS):
                        useful = True
                elif kind == "call":
                    if any(_BRANCH.search(n or "") for n in d.names()) and d.args and d.args[0].place is not None and d.args[0].place.is_local():
                        work.append(d.args[0].place.local)
        self.tracked = sorted(rel) if useful else []
        self.index = {l: i for i, l in enumerate(self.tracked)}

    def initial(self):
        return frozenset()

    def _val(self, vals, op):
        if op.place is not None:
            if op.place.is_local() and op.place.local in self.index:
                return vals.get(op.place.local)
            return None
        c = op.const_int()
        if c in (0, 1) and op.const is not None:
            ty = self.body.tys[op.const["ty"]] if "ty" in op.const else None
            if ty == "bool":
                return ("b", c)
        return None

    def step(self, bidx, st):
        blk = self.body.blocks[bidx]
        vals = dict(st)
        ix = self.index

        def put(l, v):
            if v is None:
                vals.pop(l, None)
            else:
                vals[l] = v
        for s in blk.stmts:
            if s.k == "a":
                l = s.lhs.local
                if l not in ix:
                    continue
                if not s.lhs.is_local():
                    if not any(x == "*" for x in s.lhs.proj):
                        put(l, None)
                    continue
                rv = s.rv
                v = None
                if rv.k == "use":
                    v = self._val(vals, rv.ops[0])
                elif rv.k == "un" and rv.j.get("op") == "Not":
                    a = self._val(vals, rv.ops[0])
                    if a and a[0] == "b":
                        v = ("b", 1 - a[1])
                elif rv.k == "agg" and rv.j.get("ak") == "adt" and rv.j.get("def") in TRACKED_ADTS:
                    v = ("v", rv.j["def"].split("::")[-1], rv.j.get("vidx"))
                elif rv.k == "discr" and rv.place is not None and rv.place.is_local() and rv.place.local in ix:
                    a = vals.get(rv.place.local)
                    if a and a[0] == "v":
                        v = ("d", a[2])
                put(l, v)
            elif s.k == "sd" and s.lhs is not None and s.lhs.local in ix:
                put(s.lhs.local, None)
            elif s.k == "dead" and s.local in ix:
                put(s.local, None)      # out of scope: its value cannot matter any more (keeps the state space small)
        t = blk.term
        if t.k == "call":
            if t.dest is not None and t.dest.local in ix:
                v = None
                if t.dest.is_local() and any(_BRANCH.search(n or "") for n in t.names()) and t.args and t.args[0].place is not None:
                    a = self._val(vals, t.args[0])
                    if a and a[0] == "v":
                        if a[1] == "Result":
                            v = ("v", "ControlFlow", 0 if a[2] == 0 else 1)
                        elif a[1] == "Option":
                            v = ("v", "ControlFlow", 0 if a[2] == 1 else 1)
                elif t.dest.is_local():
                    # the error path of `?`: from_residual of a Result residual is an Err, of an Option residual a None
                    nm = [n or "" for n in t.names()]
                    if any(re.search(r"^<std::result::Result<.*> as std::ops::FromResidual<std::result::Result<std::convert::Infallible, .*>>>::from_residual$", n) for n in nm):
                        v = ("v", "Result", 1)
                    elif any(re.search(r"^<std::option::Option<.*> as std::ops::FromResidual<std::option::Option<std::convert::Infallible>>>::from_residual$", n) for n in nm):
                        v = ("v", "Option", 0)
                put(t.dest.local, v)
            # moved-out arguments are dead afterwards
            for a_ in t.args:
                if a_.kind == "m" and a_.place is not None and a_.place.is_local() and a_.place.local in vals:
                    vals.pop(a_.place.local, None)
            st2 = frozenset(vals.items())
            return [(s_, st2) for s_ in t.succs()]
        if t.k == "yield" and t.dest is not None and t.dest.local in ix:
            put(t.dest.local, None)
        if t.k == "switch" and t.discr is not None:
            a = self._val(vals, t.discr)
            if t.discr.kind == "m" and t.discr.place is not None and t.discr.place.is_local():
                vals.pop(t.discr.place.local, None)
            st2 = frozenset(vals.items())
            if a is not None and a[0] in ("b", "d"):
                n = a[1]
                hit = [b_ for v_, b_ in t.vals if v_ == n]
                tgt = hit[0] if hit else t.otherwise
                return [(tgt, st2)] if tgt is not None else []
            return [(s_, st2) for s_ in t.succs()]
        st2 = frozenset(vals.items())
        return [(s_, st2) for s_ in t.succs()]


class Facts:
    def __init__(self, path):
        self.meta = None
        self.bodies = {}
        self.adts = {}
        self.impls = []
        self.consts = {}
        with open(path) as f:
            for line in f:
                if not line.strip():
                    continue
                d = json.loads(line)
                t = d["t"]
                if t == "body":
                    self.bodies[d["path"]] = Body(d)
                elif t == "adt":
                    self.adts[d["path"]] = d
                elif t == "impl":
                    self.impls.append(d)
                elif t == "const":
                    self.consts[d["path"]] = d
                elif t == "meta":
                    self.meta = d
        self._callers = None
        self.path = path
        self.renamed = normalise_names(self) if not os.environ.get("VERIF_NO_RENAME") else {}

    def body(self, path):
        return self.bodies.get(path)

    def find(self, pattern):
        """bodies whose path matches the regex (full match)"""
        r = re.compile(pattern)
        return [b for p, b in sorted(self.bodies.items()) if r.fullmatch(p)]

    def one(self, pattern):
        m = self.find(pattern)
        if len(m) != 1:
            raise AnchorError("anchor %r matched %d bodies" % (pattern, len(m)))
        return m[0]

    def const_value(self, path):
        c = self.consts.get(path)
        if c is None or c.get("v") is None:
            raise AnchorError("constant %r not found or not scalar" % path)
        return int(c["v"])

    def coroutine_of(self, fn_path):
        """the coroutine body of an `async fn` (its {closure#0})"""
        b = self.bodies.get(fn_path + "::{closure#0}")
        if b is None or not b.coroutine:
            raise AnchorError("no coroutine body for %r" % fn_path)
        return b

    def call_sites(self, pred):
        """all (body, block idx, term) whose callee satisfies pred(term)"""
        out = []
        for p in sorted(self.bodies):
            b = self.bodies[p]
            for bi, t in b.calls():
                if pred(t):
                    out.append((b, bi, t))
        return out

    def callers_of(self, name_pred):
        """set of body paths containing a live call to a callee whose any name matches"""
        out = defaultdict(list)
        for p in sorted(self.bodies):
            b = self.bodies[p]
            for bi, t in b.calls():
                if any(name_pred(n) for n in t.names()):
                    out[p].append((bi, t))
        return out


class AnchorError(Exception):
    """an anchor of a rule could not be located: the check fails closed"""
    pass


def strip_closure(path):
    """the enclosing named function of a closure / coroutine body path"""
    return re.sub(r"(::\{closure#\d+\})+$", "", path)
