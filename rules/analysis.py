"""Core analyses of the rule engine (E2): provenance expressions (A-prov), guard / edge-cut
reachability (A-dom), finite-state path propagation (A-path / A-cons), call-graph queries (A-who).

All analyses are classical static analyses over the exported MIR CFG. Nothing is executed.
"""
import re
from collections import defaultdict, deque

from facts import Place, Operand, Body, AnchorError, pk, strip_closure

# ---------------------------------------------------------------------------------- expressions
#
# Expr is a nested tuple:
#   ("param", idx, name)            function parameter (by-value or reference, refs are transparent)
#   ("upvar", name)                 captured variable of a closure / parameter of an async fn
#   ("field", base, name)           field projection (ADT field name, or tuple index as string)
#   ("as", base, variant)           enum downcast
#   ("index", base)                 slice/array element
#   ("call", callee, args, (path, block))
#   ("const", text)                 literal or named constant
#   ("agg", what, ((name, expr), ...))
#   ("phi", (exprs...))             several reaching definitions (flow-insensitive)
#   ("bin", op, a, b) ("un", op, a) ("cast", a) ("discr", a)
#   ("partial", path, expr)         a write into a sub-place of the value
#   ("resume",)                     value handed back at an await point
#   ("cycle",) ("unknown", why)


def short(name):
    """path without generic arguments; `<A as B>::m` keeps its shape with A and B shortened"""
    if name is None:
        return None
    if "<" not in name:
        return name
    out = []
    i = 0
    n = len(name)
    while i < n:
        c = name[i]
        if c == "<":
            depth = 0
            j = i
            while j < n:
                if name[j] == "<":
                    depth += 1
                elif name[j] == ">" and not (j > 0 and name[j - 1] == "-"):
                    depth -= 1
                    if depth == 0:
                        break
                j += 1
            inner = name[i + 1:j]
            # top-level " as " ?
            d = 0
            pos = -1
            for k in range(len(inner)):
                if inner[k] == "<":
                    d += 1
                elif inner[k] == ">" and not (k > 0 and inner[k - 1] == "-"):
                    d -= 1
                elif d == 0 and inner.startswith(" as ", k):
                    pos = k
                    break
            if pos >= 0 and (i == 0 or name[i - 1] in " (&,"):
                out.append("<%s as %s>" % (short(inner[:pos]), short(inner[pos + 4:])))
            else:
                # generic argument list: drop it (and a preceding turbofish `::`)
                if out and "".join(out).endswith("::"):
                    joined = "".join(out)[:-2]
                    out = [joined]
            i = j + 1
        else:
            out.append(c)
            i += 1
    return "".join(out)


class Prov:
    def __init__(self, body, facts=None, cursors=()):
        self.body = body
        self.facts = facts
        self.cursors = set(cursors)      # locals whose value is mutated through a &mut handed to calls: kept as opaque leaves
        self.defs = defaultdict(list)   # local -> [(lhs Place, kind, payload, block)]
        self.is_closure_like = body.defkind == "Closure"
        for b in body.blocks:
            if b.cleanup:
                continue
            for s in b.stmts:
                if s.k == "a":
                    self.defs[s.lhs.local].append((s.lhs, "rv", s.rv, b.idx, s.line))
            t = b.term
            if t.k == "call":
                self.defs[t.dest.local].append((t.dest, "call", t, b.idx, t.line))
            elif t.k == "yield":
                self.defs[t.dest.local].append((t.dest, "resume", t, b.idx, t.line))
        self._memo = {}
        self._active = set()

    # -- public
    def operand(self, op):
        if op.kind in ("c", "m"):
            return self.place(op.place)
        if op.kind == "k":
            c = op.const
            if "fn" in c:
                return ("const", "fn:" + c["fn"]["decl"])
            d = c.get("def")
            if d and not c.get("promoted"):
                if "fv" in c:
                    return ("const", "%s=f:%s" % (d, c["fv"]))
                return ("const", d if "v" not in c else "%s=%s" % (d, c["v"]))
            if "v" in c:
                return ("const", c["v"])
            if "fv" in c:
                return ("const", "f:" + c["fv"])     # a float literal; const_int_of does not read it as an integer
            if d:
                return ("const", "promoted")
            return ("const", "?:" + self.body.tys[c["ty"]])
        return ("unknown", "runtime-check")

    def place(self, place):
        base = self.local(place.local)
        return self.project(base, place.proj)

    def project(self, e, proj):
        for p in proj:
            e = self.project1(e, p)
        return e

    def project1(self, e, p):
        if p == "*":
            return e
        k = e[0]
        if k == "phi":
            return mkphi([self.project1(x, p) for x in e[1]])
        if p[0] == "f":
            name = p[2]
            if k == "agg":
                for n, x in e[2]:
                    if n == name:
                        return x
                return ("field", e, name)
            if k == "partial":
                # a write into a sub-place: relevant only if it is the same field
                if e[1] and e[1][0] == ("f", p[1]):
                    rest = e[1][1:]
                    return e[2] if not rest else ("partial", rest, e[2])
                return ("nothing",)
            if self.is_closure_like and e == ("param", 1, "env"):
                return ("upvar", name[6:] if name.startswith("_ref__") else name)
            return ("field", e, name)
        if p[0] == "d":
            if k == "agg" and e[1].endswith("::" + p[1]):
                return e
            return ("as", e, p[1])
        if p[0] in ("i", "ci", "s"):
            if k == "agg" and (e[1] == "array" or e[1].startswith("repeat:")):
                return mkphi([x for _, x in e[2]]) if e[2] else ("unknown", "empty-array")
            if p[0] == "i":
                return ("index", e, self.local(p[1]))
            if p[0] == "ci" and not p[3]:
                return ("index", e, ("const", str(p[1])))
            return ("index", e)
        return e

    def local(self, l):
        if l in self._memo:
            return self._memo[l]
        if l in self._active:
            return ("cycle",)
        self._active.add(l)
        try:
            e = self._local(l)
        finally:
            self._active.discard(l)
        # a value computed while an enclosing cycle was being cut is not final: do not cache it
        if not self._active or not any(x == ("cycle",) for x in walk(e)):
            self._memo[l] = e
        return e

    def _local(self, l):
        body = self.body
        if l in self.cursors:
            return ("cursor", l, body.local_name(l) or ("_%d" % l))
        alts = []
        if 1 <= l <= body.arg_count:
            name = body.local_name(l)
            if self.is_closure_like and l == 1:
                alts.append(("param", 1, "env"))
            else:
                alts.append(("param", l, name or ("arg%d" % l)))
        for lhs, kind, payload, blk, _line in self.defs.get(l, ()):
            if lhs.proj and lhs.proj[0] == "*":
                # write through a reference held in this local: does not redefine the local itself
                continue
            if kind == "rv":
                e = self.rvalue(payload, blk)
            elif kind == "call":
                e = self.call(payload, blk)
            else:
                e = ("resume",)
            proj = [p for p in lhs.proj if p != "*"]
            if lhs.proj and lhs.proj[0] == "*":
                # write through a reference held in this local: does not redefine the local itself
                continue
            if proj:
                e = ("partial", tuple(pk(p) for p in proj), e)
            alts.append(e)
        if not alts:
            return ("unknown", "undefined _%d" % l)
        return mkphi(alts)

    def rvalue(self, rv, blk):
        k = rv.k
        if k == "use":
            return self.operand(rv.ops[0])
        if k in ("ref", "rawptr"):
            return self.place(rv.place)
        if k == "cast":
            inner = self.operand(rv.ops[0])
            ck = rv.j["ck"]
            if ck.startswith("PointerCoercion") or ck in ("PtrToPtr", "Transmute", "Subtype"):
                return inner
            src_ty = None
            o = rv.ops[0]
            try:
                if o.place is not None:
                    src_ty = self.body.place_ty(o.place)
                elif o.const is not None and "ty" in o.const:
                    src_ty = self.body.tys[o.const["ty"]]
            except Exception:
                src_ty = None
            return ("cast", inner, self.body.tys[rv.j["ty"]], src_ty)
        if k == "bin":
            return ("bin", rv.j["op"], self.operand(rv.ops[0]), self.operand(rv.ops[1]))
        if k == "un":
            return ("un", rv.j["op"], self.operand(rv.ops[0]))
        if k == "discr":
            return ("discr", self.place(rv.place))
        if k == "agg":
            ak = rv.j["ak"]
            if ak == "adt":
                what = "%s::%s" % (rv.j["def"], rv.j["variant"])
                names = rv.j["fields"]
            elif ak in ("closure", "coroutine"):
                what = "%s:%s" % (ak, rv.j["def"])
                names = [n[6:] if n.startswith("_ref__") else n for n in rv.j["fields"]]
            else:
                what = ak
                names = [str(i) for i in range(len(rv.ops))]
            return ("agg", what, tuple((n, self.operand(o)) for n, o in zip(names, rv.ops)))
        if k == "repeat":
            n = rv.j.get("n")
            return ("agg", "array" if n is None else "repeat:%d" % n, (("0", self.operand(rv.ops[0])),))
        return ("unknown", k)

    def _vec_macro_content(self, t):
        """`vec![a, b]` lowers to Box::new_uninit(), a store of the array through the box, and box_assume_init_into_vec_unsafe(box): the array
        stored, if it can be identified"""
        if not t.args or t.args[0].place is None:
            return None
        chain = {t.args[0].place.local}
        for _ in range(4):
            for blk in self.body.blocks:
                for s in blk.stmts:
                    if s.k == "a" and s.lhs.is_local() and s.lhs.local in chain and s.rv.k in ("use", "cast") and s.rv.ops and s.rv.ops[0].place is not None \
                            and s.rv.ops[0].place.is_local():
                        chain.add(s.rv.ops[0].place.local)
        stores = [(blk.idx, s) for blk in self.body.blocks if not blk.cleanup for s in blk.stmts
                  if s.k == "a" and s.lhs.local in chain and s.lhs.proj and s.lhs.proj[0] == "*" and s.rv.k == "agg" and s.rv.j.get("ak") == "array"]
        if len(stores) != 1:
            return None
        return self.rvalue(stores[0][1].rv, stores[0][0])

    def call(self, t, blk):
        name = t.callee() or "<indirect>"
        if name.endswith("boxed::box_assume_init_into_vec_unsafe"):
            arr = self._vec_macro_content(t)
            if arr is not None:
                return ("call", "std::slice::<impl [T]>::into_vec", (arr,), (self.body.path, blk))
        args = tuple(self.operand(a) for a in t.args)
        if t.fn is None and t.fop is not None:
            return ("call", "<indirect>", (self.operand(t.fop),) + args, (self.body.path, blk))
        return ("call", name, args, (self.body.path, blk))


def mkphi(alts):
    flat = []
    alts = [a for a in alts if a != ("nothing",)] or [("unknown", "no-definition")]
    for a in alts:
        if a[0] == "phi":
            for x in a[1]:
                if x not in flat:
                    flat.append(x)
        elif a not in flat:
            flat.append(a)
    if len(flat) == 1:
        return flat[0]
    return ("phi", tuple(flat))


def fmt(e, depth=0):
    if depth > 12:
        return "…"
    k = e[0]
    if k == "param":
        return "%s" % e[2]
    if k == "upvar":
        return "%s" % e[1]
    if k == "field":
        return "%s.%s" % (fmt(e[1], depth + 1), e[2])
    if k == "as":
        return "(%s as %s)" % (fmt(e[1], depth + 1), e[2])
    if k == "index":
        return "%s[%s]" % (fmt(e[1], depth + 1), fmt(e[2], depth + 1) if len(e) > 2 else "_")
    if k == "call":
        return "%s(%s)" % (short(e[1]), ", ".join(fmt(a, depth + 1) for a in e[2]))
    if k == "const":
        return "const(%s)" % (e[1],)
    if k == "agg":
        return "%s{%s}" % (short(e[1]), ", ".join("%s: %s" % (n, fmt(x, depth + 1)) for n, x in e[2]))
    if k == "phi":
        return "φ(%s)" % " | ".join(fmt(x, depth + 1) for x in e[1])
    if k == "bin":
        return "%s(%s, %s)" % (e[1], fmt(e[2], depth + 1), fmt(e[3], depth + 1))
    if k == "un":
        return "%s(%s)" % (e[1], fmt(e[2], depth + 1))
    if k == "cast":
        return "(%s as %s)" % (fmt(e[1], depth + 1), e[2])
    if k == "discr":
        return "discr(%s)" % fmt(e[1], depth + 1)
    if k == "partial":
        return "partial%s=%s" % (list(e[1]), fmt(e[2], depth + 1))
    if k == "cursor":
        return "cursor(%s)" % e[2]
    return "<%s>" % ",".join(str(x) for x in e)


def walk(e, seen=None):
    """all sub-expressions (pre-order)"""
    yield e
    k = e[0]
    if k in ("field", "as", "index", "discr"):
        yield from walk(e[1])
    elif k == "cast":
        yield from walk(e[1])
    elif k == "call":
        for a in e[2]:
            yield from walk(a)
    elif k == "agg":
        for _, x in e[2]:
            yield from walk(x)
    elif k == "phi":
        for x in e[1]:
            yield from walk(x)
    elif k == "bin":
        yield from walk(e[2])
        yield from walk(e[3])
    elif k == "un":
        yield from walk(e[2])
    elif k == "partial":
        yield from walk(e[2])


def calls_in(e):
    return [x for x in walk(e) if x[0] == "call"]


def contains_call(e, pred):
    for x in walk(e):
        if x[0] == "call" and pred(x[1]):
            return True
    return False


# Library functions through which a value is considered to flow unchanged (A-prov's transparent
# table). Matching is on the generic-free path. Each entry: regex -> indices of the arguments the
# result derives from.
TRANSPARENT = [
    (r"(std|core|alloc)::clone::Clone::clone", [0]),
    (r".*::clone::Clone>::clone", [0]),
    (r".*::Clone::clone", [0]),
    (r"(std|core)::convert::(Into::into|From::from|AsRef::as_ref|AsMut::as_mut)", [0]),
    (r"(std|core)::convert::num::from", [0]),
    (r"(std|core)::ops::(Deref::deref|DerefMut::deref_mut)", [0]),
    (r"(std|core)::borrow::(Borrow::borrow|BorrowMut::borrow_mut)", [0]),
    (r"(std|core)::option::Option::(as_ref|as_mut|as_deref|unwrap|expect|cloned|copied|take|unwrap_or_default)", [0]),
    (r"(std|core)::result::Result::(as_ref|as_mut|unwrap|expect|ok)", [0]),
    (r"(std|alloc)::boxed::Box::new", [0]),
    (r"(std|alloc)::vec::Vec::(as_slice|as_mut_slice)", [0]),
    (r"(std|alloc)::slice::(.*::)?to_vec", [0]),
    (r"(std|core)::slice::.*::(iter|iter_mut|as_ref)", [0]),
    (r"(std|core)::iter::IntoIterator::into_iter", [0]),
    (r"(std|core)::pin::Pin::(new|new_unchecked|as_mut|get_mut)", [0]),
    (r"(std|core)::future::IntoFuture::into_future", [0]),
    (r"(std|alloc)::sync::Arc::new", [0]),
    (r"(std|alloc)::borrow::ToOwned::to_owned", [0]),
]
_TRANSPARENT_RE = [(re.compile(p), ix) for p, ix in TRANSPARENT]


def transparent_args(callee):
    n = short(callee)
    for r, ix in _TRANSPARENT_RE:
        if r.fullmatch(n):
            return ix
    # resolved impl paths look like `<T as core::clone::Clone>::clone`
    m = re.search(r" as (?:std|core|alloc)::([\w:]+)>::(\w+)$", n)
    if m:
        tr = m.group(1) + "::" + m.group(2)
        if tr in ("clone::Clone::clone", "convert::Into::into", "convert::From::from", "convert::AsRef::as_ref",
                  "ops::Deref::deref", "ops::DerefMut::deref_mut", "borrow::Borrow::borrow",
                  "borrow::ToOwned::to_owned", "iter::IntoIterator::into_iter", "future::IntoFuture::into_future"):
            return [0]
    return None


def roots(e, extra_transparent=None, through=None):
    """leaves of an expression after looking through transparent calls, fields kept as access paths.
    Returns a set of expressions (calls that are not transparent are roots themselves)."""
    out = set()

    def go(x, depth):
        if depth > 60:
            out.add(("unknown", "depth"))
            return
        k = x[0]
        if k == "phi":
            for y in x[1]:
                go(y, depth + 1)
        elif k == "call":
            ix = transparent_args(x[1])
            if ix is None and extra_transparent:
                ix = extra_transparent(x)
            if ix is not None and x[2]:
                for i in ix:
                    if i < len(x[2]):
                        go(x[2][i], depth + 1)
            else:
                out.add(x)
        elif k == "cast":
            if cast_is_lossless(x):
                go(x[1], depth + 1)
            else:
                out.add(x)      # a truncating cast is not the identity: the value does not flow through unchanged
        elif k == "partial":
            go(x[2], depth + 1)
        elif k in ("field", "as", "index"):
            # keep access path but normalise the base through transparent calls
            bases = roots(x[1], extra_transparent)
            for b in bases:
                if k == "field" and b[0] == "agg":
                    hit = [y for n, y in b[2] if n == x[2]]
                    if hit:
                        go(hit[0], depth + 1)
                        continue
                if k == "as" and b[0] == "agg":
                    go(b, depth + 1)
                    continue
                out.add((k, b) + tuple(x[2:]))
        elif k == "cycle":
            pass
        else:
            out.add(x)

    go(e, 0)
    return out


def access_path(e):
    """('param'|'upvar'|'call' root, [field names...]) for a pure access path, else None"""
    names = []
    while True:
        k = e[0]
        if k == "field":
            names.append(e[2])
            e = e[1]
        elif k in ("as", "index"):
            e = e[1]
        elif k == "cast":
            e = e[1]
        else:
            break
    names.reverse()
    return e, names


# ---------------------------------------------------------------------------------- guards

KNOWN_VARIANTS = {
    "Option": ["None", "Some"],
    "Result": ["Ok", "Err"],
    "Poll": ["Ready", "Pending"],
    "ControlFlow": ["Continue", "Break"],
    "Ordering": None,
    "SocketAddr": ["V4", "V6"],
    "IpAddr": ["V4", "V6"],
}


class Guards:
    """classification of switch terminators of one body"""

    def __init__(self, body, prov=None, facts=None):
        self.body = body
        self.prov = prov or Prov(body, facts)
        self.facts = facts

    def switch_expr(self, bidx):
        t = self.body.blocks[bidx].term
        assert t.k == "switch"
        return self.prov.operand(t.discr)

    def switches(self):
        """(block, terminator, expression switched on). A comparison is reported twice, as written and with its operands swapped
        (`a < b` and `b > a`): the two are the same predicate with the same edges, and rules that look for one orientation must
        not care which one the source happens to use."""
        live = self.body.live_blocks()
        for b in self.body.blocks:
            if b.idx in live and not b.cleanup and b.term.k == "switch":
                e = self.prov.operand(b.term.discr)
                yield b.idx, b.term, e
                m = mirror_expr(e)
                if m is not None:
                    yield b.idx, b.term, m
                # `opt.is_some_and(|x| P(x))` is the test `P(payload of opt)` taken only when there is a payload: its true edge implies P, its
                # false edge "no payload or not P". Rules that look for the test P find it reported on the same switch, in the caller's terms.
                for le in lift_option_predicates(self.facts, e):
                    yield b.idx, b.term, le
                    m = mirror_expr(le)
                    if m is not None:
                        yield b.idx, b.term, m

    def variant_names(self, bidx):
        """for a switch on discriminant(place): value -> variant name, using downcasts found in the
        successor blocks, the well-known enums, or local ADT facts"""
        body = self.body
        t = body.blocks[bidx].term
        e = self.prov.operand(t.discr)
        names = {}
        # find the place whose discriminant is read
        pl = None
        for s in reversed(body.blocks[bidx].stmts):
            if s.k == "a" and s.rv.k == "discr" and t.discr.place is not None and s.lhs.local == t.discr.place.local:
                pl = s.rv.place
                break
        ty = None
        if pl is not None:
            ty = body.place_ty(pl)
        if ty:
            base = re.sub(r"^&(mut )?", "", ty)
            head = short(base).split("::")[-1]
            m = re.match(r"(?:std|core)::(?:option::Option|result::Result|task::Poll|ops::ControlFlow|net::SocketAddr|net::IpAddr)", base)
            if m:
                vs = KNOWN_VARIANTS.get(head)
                if vs:
                    names = {i: v for i, v in enumerate(vs)}
            elif self.facts is not None:
                adt_path = re.sub(r"<.*$", "", base)
                adt = self.facts.adts.get(adt_path)
                if adt:
                    names = {i: v["name"] for i, v in enumerate(adt["variants"])}
        return names, pl

    def bool_edges(self, bidx):
        """(false_target, true_target) of a switch on a bool"""
        t = self.body.blocks[bidx].term
        f = None
        for v, b in t.vals:
            if v == 0:
                f = b
        return f, t.otherwise


def reachable_without(body, removed_edges=(), removed_blocks=(), start=0):
    return body.reachable(start, removed_edges, removed_blocks)


def must_pass(body, target_blocks, via_blocks=(), via_edges=(), start=0):
    """True iff every path start -> any target passes one of via_blocks / via_edges"""
    r = body.reachable(start, via_edges, via_blocks)
    return not any(t in r for t in target_blocks)


def path_to(body, target_blocks, removed_edges=(), removed_blocks=(), start=0):
    """a shortest block path start -> target avoiding the removed parts (for reports)"""
    removed_edges = set(removed_edges)
    removed_blocks = set(removed_blocks)
    targets = set(target_blocks)
    prev = {start: None}
    dq = deque([start])
    while dq:
        b = dq.popleft()
        if b in targets:
            out = []
            while b is not None:
                out.append(b)
                b = prev[b]
            return list(reversed(out))
        for s in body.blocks[b].term.succs():
            if s in prev or s in removed_blocks or (b, s) in removed_edges:
                continue
            prev[s] = b
            dq.append(s)
    return None


def describe_path(body, blocks, limit=14):
    """human-readable summary of a block path: the source lines of the branching points"""
    out = []
    last = None
    for i, b in enumerate(blocks):
        t = body.blocks[b].term
        if t.k == "switch" and i + 1 < len(blocks) and not t.exp:
            nxt = blocks[i + 1]
            vals = [str(v) for v, tb in t.vals if tb == nxt]
            lab = ",".join(vals) if vals else "otherwise"
            s = "%s:%d[%s]" % (body.relfile(), t.line, lab)
            if s != last:
                out.append(s)
                last = s
    if len(out) > limit:
        out = out[:limit // 2] + ["…"] + out[-limit // 2:]
    return out


# ---------------------------------------------------------------------------------- path engine

def propagate(body, init, transfer, start=0, max_states=40000, edge_filter=None):
    """forward propagation of sets of abstract states (breadth first, so witnesses are shortest).
    transfer(block_idx, state) -> iterable of (succ_block | None, new_state). `None` as successor
    means the path ends (return); those states are collected as exits.
    Returns (states_in: dict block -> set(states), exits: list of (block, state), parent map).
    Edges that contradict a constant assigned on the path (`ok = false; .. if ok {..}`, the `Err` of a spliced helper reaching the `?`'s
    Continue arm) are not followed: the walk carries the state of the body's value tracker (facts._ValueTracker) next to the caller's state."""
    vt = body.value_tracker() if hasattr(body, "value_tracker") else None
    states_in = defaultdict(set)
    states_in[start].add(init)
    v0 = vt.initial() if vt is not None else None
    work = deque([(start, init, v0)])
    seen = {(start, init, v0)}
    parent = {(start, init): None}
    allpreds = defaultdict(set)
    exits = []
    n = 0
    while work:
        b, st, vs = work.popleft()
        n += 1
        if n > max_states:
            raise RuntimeError("path analysis diverges in %s (more than %d states): a loop is not neutral"
                               % (body.path, max_states))
        feasible = None
        if vt is not None:
            feasible = {}
            for s_, vs2 in vt.step(b, vs):
                feasible.setdefault(s_, []).append(vs2)
        for succ, ns in transfer(b, st):
            if succ is None:
                if (b, st, ns) not in exits:
                    exits.append((b, st, ns))
                continue
            if edge_filter is not None and not edge_filter(b, succ):
                continue
            if feasible is not None and succ not in feasible:
                continue
            allpreds[(succ, ns)].add((b, st))
            if ns not in states_in[succ]:
                states_in[succ].add(ns)
                parent[(succ, ns)] = (b, st)
            for vs2 in (feasible[succ] if feasible is not None else [None]):
                if (succ, ns, vs2) not in seen:
                    seen.add((succ, ns, vs2))
                    work.append((succ, ns, vs2))
    parent["__allpreds__"] = allpreds
    return states_in, exits, parent


def witness(parent, node):
    """block path from the start to `node` = (block, state)"""
    out = []
    while node is not None:
        out.append(node)
        node = parent.get(node)
    out.reverse()
    return out


def edge_label(body, prov, blk, succ):
    """line-free description of the decision taken on edge blk->succ (None if not a decision)"""
    t = body.blocks[blk].term
    if t.k != "switch":
        return None
    e = prov.operand(t.discr)
    vals = [v for v, tb in t.vals if tb == succ]
    if e[0] == "discr":
        inner = e[1]
        what = fmt_short(inner)
        if vals:
            lab = variant_label(inner, vals[0], body, blk)
        else:
            others = [v for v, _ in t.vals]
            lab = "not(%s)" % ",".join(variant_label(inner, v, body, blk) for v in others)
        return "%s is %s" % (what, lab)
    lab = "true" if (not vals or vals[0] != 0) else "false"
    if vals and e[0] not in ("call", "bin", "un"):
        lab = str(vals[0])
    return "%s = %s" % (fmt_short(e), lab)


def variant_label(inner, v, body, blk):
    # try to name the variant from the type of the inspected place
    names, pl = Guards(body).variant_names(blk)
    if v in names:
        return names[v]
    return "#%d" % v


def fmt_short(e, depth=0):
    """compact, line-free rendering used in violation keys: callee last segments and field paths"""
    k = e[0]
    if depth > 6:
        return "…"
    if k == "call":
        n = short(e[1]).split("::")
        name = "::".join(n[-2:]) if len(n) >= 2 else n[-1]
        ix = transparent_args(e[1])
        if ix == [0] and e[2]:
            return fmt_short(e[2][0], depth)
        return "%s(%s)" % (name, ", ".join(fmt_short(a, depth + 1) for a in e[2]))
    if k == "param":
        return e[2]
    if k == "upvar":
        return e[1]
    if k == "field":
        return "%s.%s" % (fmt_short(e[1], depth), e[2])
    if k == "as":
        return fmt_short(e[1], depth)
    if k == "index":
        return "%s[%s]" % (fmt_short(e[1], depth), fmt_short(e[2], depth + 1) if len(e) > 2 else "")
    if k == "const":
        return str(e[1])
    if k == "bin":
        return "%s(%s, %s)" % (e[1], fmt_short(e[2], depth + 1), fmt_short(e[3], depth + 1))
    if k == "un":
        return "%s(%s)" % (e[1], fmt_short(e[2], depth + 1))
    if k == "cast":
        return fmt_short(e[1], depth)
    if k == "discr":
        return "discr(%s)" % fmt_short(e[1], depth + 1)
    if k == "phi":
        return "φ(%s)" % "|".join(sorted(set(fmt_short(x, depth + 1) for x in e[1])))
    if k == "agg":
        return "%s{..}" % short(e[1]).split("::")[-1]
    if k == "cursor":
        return "cursor(%s)" % e[2]
    return k


# ---------------------------------------------------------------------------------- call graph / async

def is_async_fn(facts, fn_path):
    b = facts.bodies.get(fn_path + "::{closure#0}")
    return b is not None and b.coroutine


def async_param_names(facts, fn_path):
    """parameter names of an async fn in order, from the outer thin body's coroutine aggregate"""
    outer = facts.bodies.get(fn_path)
    if outer is None:
        raise AnchorError("no body %s" % fn_path)
    for b in outer.blocks:
        for s in b.stmts:
            if s.k == "a" and s.rv.k == "agg" and s.rv.j["ak"] == "coroutine":
                names = s.rv.j["fields"]
                order = []
                for n, o in zip(names, s.rv.ops):
                    if o.place is not None and o.place.is_local():
                        order.append((o.place.local, n))
                order.sort()
                return [n for _, n in order]
    raise AnchorError("%s is not an async fn" % fn_path)


def callee_matches(t, *patterns):
    """does the call terminator's callee match any of the regex patterns (search on all names)"""
    for n in t.names():
        sn = short(n)
        for p in patterns:
            if re.search(p, n) or re.search(p, sn):
                return True
    return False


def find_calls(body, *patterns):
    return [(bi, t) for bi, t in body.calls() if callee_matches(t, *patterns)]


def enclosing_fn(path):
    return strip_closure(path)


def awaited_in_place(body, call_block):
    """For a call to an async fn at `call_block`: check that the returned future flows (only) into
    IntoFuture::into_future and is then polled in the await loop that follows. Returns True/False."""
    t = body.blocks[call_block].term
    dest = t.dest
    if not dest.is_local():
        return False
    fut = dest.local
    # follow: next block should call into_future(move fut)
    seen = 0
    cur = t.target
    for _ in range(6):
        if cur is None:
            return False
        blk = body.blocks[cur]
        tt = blk.term
        if tt.k == "call" and callee_matches(tt, r"IntoFuture::into_future|IntoFuture>::into_future"):
            if tt.args and tt.args[0].place is not None and tt.args[0].place.local == fut:
                return True
            return False
        if tt.k == "goto":
            cur = tt.target
            continue
        return False
    return False


# ---------------------------------------------------------------------------------- A-aff: linear forms

ADD_CALLS = re.compile(r"(ops::(arith::)?Add(<[^>]*>)?>?::add|::checked_add|::saturating_add|::wrapping_add)$")
SUB_CALLS = re.compile(r"(ops::(arith::)?Sub(<[^>]*>)?>?::sub|::checked_sub|::saturating_sub|::wrapping_sub"
                       r"|::duration_since|::saturating_duration_since|::checked_duration_since)$")


INT_BITS = {"u8": (8, False), "u16": (16, False), "u32": (32, False), "u64": (64, False), "usize": (64, False), "u128": (128, False),
            "i8": (8, True), "i16": (16, True), "i32": (32, True), "i64": (64, True), "isize": (64, True), "i128": (128, True),
            "bool": (1, False), "char": (32, False)}


def cast_is_lossless(e):
    """for ("cast", inner, dst_ty, src_ty): True when every source value is representable in the destination (64-bit target assumed);
    casts between non-integer types (pointers, fn items) are not numeric and count as lossless"""
    dst = e[2] if len(e) > 2 else None
    src = e[3] if len(e) > 3 else None
    if dst not in INT_BITS:
        return True
    if src not in INT_BITS:
        # unknown or non-integer source (enum discriminant reads etc.): be conservative only for narrow targets
        return src is not None and not re.match(r"^[ui](8|16|32|64|128|size)$|^f(32|64)$", src) 
    sb, ss = INT_BITS[src]
    db, ds = INT_BITS[dst]
    if ss == ds:
        return db >= sb
    if not ss and ds:
        return db > sb
    return False


def lossy_casts(e):
    """truncating / sign-changing integer casts anywhere inside an expression"""
    return [x for x in walk(e) if x[0] == "cast" and not cast_is_lossless(x)]


def const_int_of(e):
    if e[0] == "const":
        s = str(e[1])
        if "=" in s:
            s = s.split("=")[-1]
        try:
            return int(s)
        except ValueError:
            return None
    return None


def linear(e, atom=None, depth=0):
    """affine form of an integer / time expression: (dict atom_expr -> coeff, const) or None.
    `atom(e)` may map an expression to a canonical atom name (string) or None."""
    if depth > 40:
        return None
    if atom is not None:
        a = atom(e)
        if isinstance(a, tuple):
            return a
        if a is not None:
            return ({a: 1}, 0)
    k = e[0]
    c = const_int_of(e)
    if c is not None:
        return ({}, c)
    if k == "cast":
        if not cast_is_lossless(e):
            return None     # a truncating cast is not the identity
        return linear(e[1], atom, depth + 1)
    if k == "field" and e[1][0] == "bin" and e[1][1] in ("AddWithOverflow", "SubWithOverflow", "MulWithOverflow") \
            and e[2] == "0":
        op = e[1][1][:3]
        return _lin_bin(op, e[1][2], e[1][3], atom, depth)
    if k == "bin" and e[1] in ("Add", "Sub", "Mul", "AddUnchecked", "SubUnchecked"):
        return _lin_bin(e[1][:3], e[2], e[3], atom, depth)
    if k == "call":
        n = short(e[1])
        if ADD_CALLS.search(n) and len(e[2]) == 2:
            return _lin_bin("Add", e[2][0], e[2][1], atom, depth)
        if SUB_CALLS.search(n) and len(e[2]) == 2:
            return _lin_bin("Sub", e[2][0], e[2][1], atom, depth)
        ix = transparent_args(e[1])
        if ix == [0] and e[2]:
            return linear(e[2][0], atom, depth + 1)
    if k == "phi":
        forms = [linear(x, atom, depth + 1) for x in e[1]]
        if forms and all(f is not None and f == forms[0] for f in forms):
            return forms[0]
        return None
    if k in ("as",):
        return linear(e[1], atom, depth + 1)
    return ({e: 1}, 0)


def _lin_bin(op, a, b, atom, depth):
    la = linear(a, atom, depth + 1)
    lb = linear(b, atom, depth + 1)
    if la is None or lb is None:
        return None
    if op == "Add":
        return _lin_add(la, lb, 1)
    if op == "Sub":
        return _lin_add(la, lb, -1)
    if op == "Mul":
        if not la[0]:
            return ({k: v * la[1] for k, v in lb[0].items()}, la[1] * lb[1])
        if not lb[0]:
            return ({k: v * lb[1] for k, v in la[0].items()}, la[1] * lb[1])
        return None
    return None


def _lin_add(la, lb, sign):
    d = dict(la[0])
    for k, v in lb[0].items():
        d[k] = d.get(k, 0) + sign * v
        if d[k] == 0:
            del d[k]
    return (d, la[1] + sign * lb[1])


CMP_OPS = {"Lt": "<", "Le": "<=", "Gt": ">", "Ge": ">=", "Eq": "==", "Ne": "!="}
CMP_CALLS = {"lt": "<", "le": "<=", "gt": ">", "ge": ">=", "eq": "==", "ne": "!="}


def comparison(e):
    """if e is a comparison, return (op, lhs, rhs) with op in < <= > >= == != ; looks through Not"""
    neg = False
    while e[0] == "un" and e[1] == "Not":
        neg = not neg
        e = e[2]
    op = None
    if e[0] == "bin" and e[1] in CMP_OPS:
        op, a, b = CMP_OPS[e[1]], e[2], e[3]
    elif e[0] == "call" and len(e[2]) == 2:
        m = re.search(r"(?:PartialOrd|PartialEq|Ord)(?:<[^>]*>)?>?::(lt|le|gt|ge|eq|ne)$", short(e[1]))
        if not m:
            m = re.search(r"(?:std|core)::cmp::impls::(lt|le|gt|ge|eq|ne)$", short(e[1]))
        if not m:
            m = re.search(r"(?:std|core)::(?:array::equality|slice::cmp)::(eq|ne)$", short(e[1]))
        if not m:
            m = re.search(r"cmp::(?:PartialOrd|PartialEq)(?:<.*>)?>::(lt|le|gt|ge|eq|ne)$", e[1])
        if m:
            op, a, b = CMP_CALLS[m.group(1)], e[2][0], e[2][1]
    if op is None:
        return None
    if neg:
        op = {"<": ">=", "<=": ">", ">": "<=", ">=": "<", "==": "!=", "!=": "=="}[op]
    return op, a, b


_MIRROR_OP = {"Lt": "Gt", "Le": "Ge", "Gt": "Lt", "Ge": "Le"}
_MIRROR_CALL = {"lt": "gt", "le": "ge", "gt": "lt", "ge": "le"}


def mirror_expr(e):
    """the same ordering comparison with its operands swapped, as an expression (None for anything else, and for == / != whose
    patterns are symmetric anyway)"""
    if e[0] == "un" and e[1] == "Not":
        m = mirror_expr(e[2])
        return ("un", "Not", m) + tuple(e[3:]) if m is not None else None
    if e[0] == "bin" and e[1] in _MIRROR_OP:
        return ("bin", _MIRROR_OP[e[1]], e[3], e[2]) + tuple(e[4:])
    if e[0] == "call" and len(e[2]) == 2:
        m = re.search(r"::(lt|le|gt|ge)$", e[1])
        if m and comparison(e) is not None:
            return ("call", e[1][:m.start(1)] + _MIRROR_CALL[m.group(1)], (e[2][1], e[2][0])) + tuple(e[3:])
    return None


def normalised_cmp(e, atom=None):
    """comparison as  (coeffs, const, op)  meaning  Σ coeff·atom + const  op  0"""
    c = comparison(e)
    if c is None:
        return None
    op, a, b = c
    la, lb = linear(a, atom), linear(b, atom)
    if la is None or lb is None:
        return None
    d, k = _lin_add(la, lb, -1)
    return d, k, op


def peel_await(e):
    """`f(args).await` appears as Ready.0 of a poll of f's coroutine body over the future returned
    by the call; return the call expression to f (or e unchanged)"""
    x = e
    if x[0] == "field" and x[2] == "0" and x[1][0] == "as" and x[1][2] == "Ready":
        c = x[1][1]
        if c[0] == "call" and re.search(r"::\{closure#\d+\}$", c[1]) and c[2]:
            rs = roots(c[2][0])
            rs = [r for r in rs if r[0] == "call"]
            if len(rs) == 1 and rs[0][1] == re.sub(r"::\{closure#\d+\}$", "", c[1]):
                return rs[0]
    return e


def cmp_intervals(d_coeff, k, op):
    """For the integer comparison  c*x + k  op  0  (c = +1 or -1): the interval of x on the true edge
    and on the false edge, each as (lo, hi) with None for unbounded. None for ==/!=."""
    if op in ("==", "!=") or d_coeff not in (1, -1):
        return None

    def iv(op_):
        # c*x + k op_ 0
        if d_coeff == 1:
            if op_ == "<":
                return (None, -k - 1)
            if op_ == "<=":
                return (None, -k)
            if op_ == ">":
                return (-k + 1, None)
            return (-k, None)
        # -x + k op_ 0  <=>  x  rev(op_)  k
        if op_ == "<":      # -x + k < 0  => x > k
            return (k + 1, None)
        if op_ == "<=":
            return (k, None)
        if op_ == ">":      # x < k
            return (None, k - 1)
        return (None, k)
    neg = {"<": ">=", "<=": ">", ">": "<=", ">=": "<"}[op]
    return iv(op), iv(neg)


# ---------------------------------------------------------------------------------- boolean flag variables

class FlagEngine:
    """Path-sensitive treatment of local `bool` variables that are only ever assigned constants
    (`let mut ok = true; ... ok = false; ... if !ok {..}`): their value is carried in the abstract
    state and switches on them (directly, through a copy or a `Not`) are pruned accordingly."""

    def __init__(self, body, prov, include_temps=False):
        self.body = body
        self.prov = prov
        self.flags = []
        for l, decl in enumerate(body.locals):
            if body.tys[decl["ty"]] != "bool" or l == 0 or l <= body.arg_count:
                continue
            defs = prov.defs.get(l, ())
            const_def = lambda d: d[1] == "rv" and d[2].k == "use" and d[2].ops[0].const_int() in (0, 1) and d[0].is_local()
            if defs and all(const_def(d) for d in defs) and (decl.get("name") or include_temps):
                self.flags.append(l)
            elif defs and decl.get("name") and any(const_def(d) for d in defs) and all(d[0].is_local() for d in defs):
                # a named flag that is also assigned computed values (`ok = check(..)`): those assignments make it unknown
                self.flags.append(l)
        self.index = {l: i for i, l in enumerate(self.flags)}
        # blocks entered after a call that wrote a flag directly
        self.call_defs = {}
        for b in body.blocks:
            t = b.term
            if t.k == "call" and t.dest is not None and t.dest.is_local() and t.dest.local in self.index and t.target is not None:
                self.call_defs.setdefault(t.target, []).append(t.dest.local)

    def initial(self):
        return tuple(None for _ in self.flags)

    def apply_stmts(self, bidx, vals):
        vals = list(vals)
        for l in self.call_defs.get(bidx, ()):
            vals[self.index[l]] = None
        for s in self.body.blocks[bidx].stmts:
            if s.k == "a" and s.lhs.is_local() and s.lhs.local in self.index:
                c = s.rv.ops[0].const_int() if s.rv.k == "use" else None
                vals[self.index[s.lhs.local]] = bool(c) if c in (0, 1) else None
        return tuple(vals)

    def switch_flag(self, bidx):
        """if the block's switch tests a flag: (flag local, negated)"""
        blk = self.body.blocks[bidx]
        t = blk.term
        if t.k != "switch" or t.discr.place is None or not t.discr.place.is_local():
            return None
        cur = t.discr.place.local
        neg = False
        for _ in range(4):
            if cur in self.index:
                return cur, neg
            nxt = None
            for s in reversed(blk.stmts):
                if s.k == "a" and s.lhs.is_local() and s.lhs.local == cur:
                    if s.rv.k == "use" and s.rv.ops[0].place is not None and s.rv.ops[0].place.is_local():
                        nxt = s.rv.ops[0].place.local
                    elif s.rv.k == "un" and s.rv.j["op"] == "Not" and s.rv.ops[0].place is not None and s.rv.ops[0].place.is_local():
                        nxt = s.rv.ops[0].place.local
                        neg = not neg
                    break
            if nxt is None:
                return None
            cur = nxt
        return None

    def successors(self, bidx, vals):
        """successor blocks compatible with the flag values after the block's statements"""
        t = self.body.blocks[bidx].term
        sf = self.switch_flag(bidx)
        if sf is None:
            return list(t.succs())
        l, neg = sf
        v = vals[self.index[l]]
        if v is None:
            return list(t.succs())
        tested = (not v) if neg else v
        f = None
        for val, b in t.vals:
            if val == 0:
                f = b
        tr = t.otherwise
        return [tr] if tested else ([f] if f is not None else [])


# ---------------------------------------------------------------------------------- in-place buffer writes

REF_THROUGH = re.compile(r"(ops::IndexMut|ops::Index|ops::DerefMut|ops::Deref|convert::AsMut|convert::AsRef|borrow::BorrowMut)>?::\w+$"
                         r"|::(as_mut_slice|as_mut|as_slice|get_mut|split_at_mut|iter_mut|deref_mut|index_mut)$")
BUFFER_WRITERS = re.compile(r"::(copy_from_slice|clone_from_slice|extend_from_slice|extend|push|put_slice|put_u8|append|fill|write_all|insert|apply_keystream)$")


def aliases_of(body, local):
    """locals holding a (mutable or shared) reference derived from `local`, found by a forward closure
    over `x = &mut L[..]`, reborrows, moves and reference-returning calls (index_mut, deref_mut, ..)"""
    al = set()
    changed = True
    while changed:
        changed = False
        for b in body.blocks:
            if b.cleanup:
                continue
            for s in b.stmts:
                if s.k != "a" or not s.lhs.is_local() or s.lhs.local in al:
                    continue
                src = None
                if s.rv.k in ("ref", "rawptr"):
                    src = s.rv.place.local
                    if src == local or src in al:
                        al.add(s.lhs.local)
                        changed = True
                elif s.rv.k in ("use", "cast") and s.rv.ops[0].place is not None:
                    src = s.rv.ops[0].place.local
                    if src in al:
                        al.add(s.lhs.local)
                        changed = True
            t = b.term
            if t.k == "call" and t.dest.is_local() and t.dest.local not in al and t.args and t.args[0].place is not None:
                if t.args[0].place.local in al and any(REF_THROUGH.search(short(n) or "") for n in t.names()):
                    al.add(t.dest.local)
                    changed = True
    return al


def writes_into(body, prov, local, follow_moves=False):
    """calls that write into the buffer held in `local`: [(block, method, [source exprs], Term)]"""
    # the buffer may have been filled under another name and moved here whole (`let nonce = self.next_nonce()` after the helper was inlined:
    # caller's local <- helper's return place <- helper's local): writes into any local the value passed through are writes into it
    srcs = {local}
    changed = follow_moves
    while changed:
        changed = False
        for b in body.blocks:
            if b.cleanup:
                continue
            for s in b.stmts:
                if s.k == "a" and s.lhs.is_local() and s.lhs.local in srcs and s.rv.k == "use" and s.rv.ops and s.rv.ops[0].place is not None and \
                        s.rv.ops[0].place.is_local() and s.rv.ops[0].place.local not in srcs:
                    srcs.add(s.rv.ops[0].place.local)
                    changed = True
    al = set()
    for l in srcs:
        al |= aliases_of(body, l)
    out = []
    for bi, t in body.calls():
        if not t.args:
            continue
        n = short(t.callee() or "")
        m = BUFFER_WRITERS.search(n)
        if not m:
            continue
        # `cipher.apply_keystream(&mut buf)`: the buffer is the second argument
        ti = 1 if m.group(1) == "apply_keystream" else 0
        if len(t.args) <= ti or t.args[ti].place is None or t.args[ti].place.local not in al:
            continue
        out.append((bi, m.group(1), [prov.operand(a) for i, a in enumerate(t.args) if i != ti], t))
    return out


def write_range(body, prov, t):
    """for dst = index_mut(buf, RANGE) feeding a copy_from_slice call `t`: the (start, end) constants of RANGE"""
    if t.args[0].place is None:
        return None
    cur = t.args[0].place.local
    for _ in range(6):
        nxt = None
        for b in body.blocks:
            tt = b.term
            if tt.k == "call" and tt.dest.is_local() and tt.dest.local == cur and callee_matches(tt, r"index_mut$|IndexMut.*::index_mut$"):
                rng = prov.operand(tt.args[1])
                for x in walk(rng):
                    if x[0] == "agg" and "ops::Range" in x[1]:
                        f = dict(x[2])
                        return (const_int_of(f["start"]) if "start" in f else 0, const_int_of(f["end"]) if "end" in f else None)
                return None
            for s in b.stmts:
                if s.k == "a" and s.lhs.is_local() and s.lhs.local == cur and s.rv.place is not None:
                    nxt = s.rv.place.local
                elif s.k == "a" and s.lhs.is_local() and s.lhs.local == cur and s.rv.k in ("use", "cast") and s.rv.ops[0].place is not None:
                    nxt = s.rv.ops[0].place.local
        if nxt is None:
            return None
        cur = nxt
    return None


# ---------------------------------------------------------------------------------- comparisons on named user variables

def operand_name(body, blk, op, depth=0):
    """name of the user variable an operand copies (following single-assignment temporaries and derefs of
    references in the same or a dominating block is not attempted: only same-block copies), or a constant"""
    if op.kind == "k":
        c = op.const_int()
        if c is not None:
            return c
        d = op.const_def()
        return d
    pl = op.place
    if pl is None:
        return None
    name = body.local_name(pl.local)
    if name and all(p == "*" or (isinstance(p, tuple) and p[0] == "f") for p in pl.proj):
        fields = [p[2] for p in pl.proj if isinstance(p, tuple)]
        return ".".join([name] + fields)
    if depth > 6:
        return None
    for b in body.blocks:
        for s in b.stmts:
            if s.k == "a" and s.lhs.is_local() and s.lhs.local == pl.local:
                if s.rv.k in ("use", "cast") and s.rv.ops:
                    return operand_name(body, b, s.rv.ops[0], depth + 1)
                if s.rv.k == "ref":
                    fake = Operand(["c", [s.rv.place.local, []]])
                    fake.place = s.rv.place
                    return operand_name(body, b, fake, depth + 1)
    return None


def named_switches(body):
    """yield (block, op, lhs_name, rhs_name, false_target, true_target) for switches on a comparison of named variables/constants
    (BinaryOp comparisons and PartialOrd/PartialEq calls)"""
    live = body.live_blocks()
    for b in body.blocks:
        if b.idx not in live or b.cleanup or b.term.k != "switch" or b.term.discr.place is None:
            continue
        t = b.term
        d = t.discr.place.local
        f = None
        for v, tb in t.vals:
            if v == 0:
                f = tb
        tr = t.otherwise
        found = None
        neg = False
        cur = d
        for _ in range(3):
            nxt = None
            for s in b.stmts:
                if s.k == "a" and s.lhs.is_local() and s.lhs.local == cur:
                    if s.rv.k == "bin" and s.rv.j["op"] in CMP_OPS:
                        found = (CMP_OPS[s.rv.j["op"]], s.rv.ops[0], s.rv.ops[1], b)
                    elif s.rv.k == "un" and s.rv.j["op"] == "Not" and s.rv.ops[0].place is not None:
                        nxt = s.rv.ops[0].place.local
                        neg = not neg
                    elif s.rv.k == "use" and s.rv.ops[0].place is not None:
                        nxt = s.rv.ops[0].place.local
            if found or nxt is None:
                break
            cur = nxt
        if not found:
            # comparison computed by a call in the predecessor block
            for pb in body.blocks:
                tt = pb.term
                if tt.k == "call" and tt.target == b.idx and tt.dest.is_local() and tt.dest.local == cur and len(tt.args) == 2:
                    m = re.search(r"::(lt|le|gt|ge|eq|ne)$", short(tt.callee() or ""))
                    if m and re.search(r"cmp::|PartialOrd|PartialEq", tt.callee() or ""):
                        found = (CMP_CALLS[m.group(1)], tt.args[0], tt.args[1], pb)
        if not found:
            continue
        op, a, c, blk = found
        if neg:
            op = {"<": ">=", "<=": ">", ">": "<=", ">=": "<", "==": "!=", "!=": "=="}[op]
        ln, rn = operand_name(body, blk, a), operand_name(body, blk, c)
        yield b.idx, op, ln, rn, f, tr
        if op in ("<", "<=", ">", ">="):
            yield b.idx, {"<": ">", "<=": ">=", ">": "<", ">=": "<="}[op], rn, ln, f, tr


def constant_discriminant_edges(body, guards):
    """edges that are infeasible because the inspected value is, on every definition, an aggregate of one known variant
    (e.g. `matches!(insert_result, Inserted)` when every reaching definition of insert_result is `Inserted`)"""
    out = []
    for bi, t, e in guards.switches():
        if e[0] != "discr":
            continue
        rs = roots(e[1])
        if not rs or not all(x[0] == "agg" and "::" in x[1] for x in rs):
            continue
        variants = set(x[1].split("::")[-1] for x in rs)
        if len(variants) != 1:
            continue
        names, _ = guards.variant_names(bi)
        v = list(variants)[0]
        idx = [i for i, n in names.items() if n == v]
        if len(idx) != 1:
            continue
        feasible = [tb for val, tb in t.vals if val == idx[0]]
        if not feasible:
            feasible = [t.otherwise]
        for s_ in t.succs():
            if s_ not in feasible:
                out.append((bi, s_))
    return out


def reachable_flags(body, prov, start, removed_edges=(), removed_blocks=()):
    """blocks reachable from `start` when constant bool flags (named or compiler temporaries such as the result of
    `matches!`) are tracked path-sensitively and the given edges / blocks are removed"""
    fe = FlagEngine(body, prov, include_temps=True)
    removed_edges = set(removed_edges)
    removed_blocks = set(removed_blocks)

    def transfer(bidx, vals):
        vals = fe.apply_stmts(bidx, vals)
        for s_ in fe.successors(bidx, vals):
            if (bidx, s_) in removed_edges or s_ in removed_blocks:
                continue
            yield s_, vals
    if start in removed_blocks:
        return set()
    states, exits, parent = propagate(body, fe.initial(), transfer, start=start)
    return set(states)


def _alts(x):
    return list(x[1]) if isinstance(x, tuple) and x and x[0] == "phi" else [x]


def _project(base, name):
    """field `name` of `base` when base is known to be an aggregate (or alternatives of aggregates): `(a, b).0` is a;
    `(Ok(x) | Err(e) as Ok).0` is x; `(Try::branch(Err(..) | Ok(x)) as Continue).0` is x - what a value extracted into a helper and handed
    back through a tuple or `?` looks like. None when the value is not statically an aggregate."""
    if not isinstance(base, tuple) or not base:
        return None
    if base[0] == "agg":
        d = dict(base[2])
        if name not in d and isinstance(base[1], str) and "::" in base[1] and not base[1].startswith("closure:"):
            return ("infeasible",)      # `None.0`: the payload of a variant this alternative is not
        return d.get(name)
    if base[0] == "phi":
        ps = [x for x in (_project(a, name) for a in base[1]) if x != ("infeasible",)]
        if not ps:
            return ("infeasible",)
        if ps and all(x is not None for x in ps):
            return ps[0] if len(ps) == 1 else ("phi", tuple(ps))
        return None
    if base[0] == "as" and len(base) > 2:
        x, want = base[1], base[2]
        if isinstance(x, tuple) and x and x[0] == "call" and re.search(r"Try>?::branch$", short(x[1])) and x[2]:
            x = x[2][0]
            want = {"Continue": ("Ok", "Some"), "Break": ()}.get(want, ())
        else:
            want = (want,)
        alts = _alts(x)
        if not alts or not all(isinstance(a, tuple) and a and a[0] == "agg" for a in alts):
            return None
        picks = [a for a in alts if isinstance(a[1], str) and a[1].split("::")[-1] in want]
        if not picks and want:
            return ("infeasible",)      # e.g. `(None as Some).0`: an alternative that cannot be the value on this path
        ps = [dict(a[2]).get(name) for a in picks]
        if ps and all(v is not None for v in ps):
            return ps[0] if len(ps) == 1 else ("phi", tuple(ps))
    return None


def canon(e, depth=0):
    """the expression with every transparent call (clone, deref, to_vec, Box::new, into, ..) removed at every level;
    alternatives are kept as a sorted phi"""
    if depth > 40:
        return ("unknown", "depth")
    outs = []
    for r in roots(e):
        k = r[0]
        if k == "call":
            outs.append(("call", r[1], tuple(canon(a, depth + 1) for a in r[2])) + tuple(r[3:]))
        elif k == "field":
            base = canon(r[1], depth + 1)
            sel = _project(base, r[2]) if len(r) > 2 else None
            if sel == ("infeasible",):
                continue
            if sel is not None:
                outs.append(canon(sel, depth + 1))
            else:
                outs.append((k, base) + tuple(r[2:]))
        elif k in ("as", "index"):
            outs.append((k, canon(r[1], depth + 1)) + tuple(r[2:]))
        elif k == "agg":
            outs.append(("agg", r[1], tuple((n, canon(v, depth + 1)) for n, v in r[2])) + tuple(r[3:]))
        elif k == "bin" and len(r) >= 4:
            outs.append(("bin", r[1], canon(r[2], depth + 1), canon(r[3], depth + 1)) + tuple(r[4:]))
        elif k == "un" and len(r) >= 3:
            outs.append(("un", r[1], canon(r[2], depth + 1)) + tuple(r[3:]))
        else:
            outs.append(r)
    uniq = []
    for o in outs:
        if o not in uniq:
            uniq.append(o)
    if len(uniq) == 1:
        return uniq[0]
    if not uniq:
        return ("unknown", "infeasible")
    return ("phi", tuple(sorted(uniq, key=lambda x: fmt(x))))


def field_writes(facts, adt_re, field):
    """every write of `field` of a value whose type matches adt_re, crate-wide: assignments `<place>.field = rv` and aggregate
    constructions of the ADT. Yields (body, block index, line, kind, value expression)."""
    import types as _t
    from facts import Place as _Place
    out = []
    for path, b in facts.bodies.items():
        prov = None
        live = b.live_blocks()
        for blk in b.blocks:
            if blk.cleanup or blk.idx not in live:
                continue
            for s in blk.stmts:
                if s.k != "a":
                    continue
                if s.lhs.proj and isinstance(s.lhs.proj[-1], tuple) and s.lhs.proj[-1][0] == "f" and s.lhs.proj[-1][2] == field:
                    base = _t.SimpleNamespace(local=s.lhs.local, proj=s.lhs.proj[:-1])
                    ty = b.place_ty(base)
                    if ty and re.search(adt_re, ty):
                        prov = prov or Prov(b, facts)
                        out.append((b, blk.idx, s.line, "assign", prov.rvalue(s.rv, blk.idx)))
                if s.rv.k == "agg" and re.search(adt_re, str(s.rv.j.get("def"))) and field in (s.rv.j.get("fields") or []):
                    prov = prov or Prov(b, facts)
                    out.append((b, blk.idx, s.line, "construct", prov.operand(s.rv.ops[s.rv.j["fields"].index(field)])))
    return out


def flow_key(body, items, blk_of=lambda x: x[0]):
    """sort key that orders call sites / statements by control flow independently of block numbering: the number of other items from whose
    block this one is reachable (an item after a branch comes after both alternatives), ties broken by source line and block-free text"""
    blocks = [blk_of(x) for x in items]
    reach = {b: body.reachable(b) for b in set(blocks)}

    def key(x):
        b = blk_of(x)
        n = sum(1 for o in blocks if o != b and b in reach[o] and o not in reach[b])
        n_loop = sum(1 for o in blocks if o != b and b in reach[o] and o in reach[b])
        line = body.blocks[b].term.line or 0
        return (n, n_loop, line)
    return key


def membership_test(e):
    """if e is a boolean membership test on a map / set, in any of its usual spellings - `m.contains(k)`, `m.contains_key(k)`,
    `m.get(k).is_some()` / `.is_none()` - return (container expr, key expr, negated); else None"""
    neg = False
    while e[0] == "un" and e[1] == "Not":
        e, neg = e[2], not neg
    if e[0] != "call":
        return None
    n = short(e[1])
    if re.search(r"(HashSet|BTreeSet|HashMap|BTreeMap|HashMapDelay|LruTimeCache|LinkedHashMap)(<.*>)?::(contains|contains_key)$", n) and len(e[2]) == 2:
        return e[2][0], e[2][1], neg
    if re.search(r"Option::is_(some|none)$", n) and e[2] and e[2][0][0] == "call" and \
            re.search(r"(HashSet|BTreeSet|HashMap|BTreeMap|HashMapDelay|LinkedHashMap|LruTimeCache|ActiveRequests)(<.*>)?::(get|get_mut|peek)$", short(e[2][0][1])) and len(e[2][0][2]) == 2:
        inner = e[2][0]
        return inner[2][0], inner[2][1], neg != n.endswith("is_none")
    return None


def mirror(c):
    """the same comparison written with its operands swapped: (op, a, b) -> (op', b, a)"""
    if c is None:
        return None
    return ({"<": ">", "<=": ">=", ">": "<", ">=": "<=", "==": "==", "!=": "!="}[c[0]], c[2], c[1])


def _strip_not(e):
    neg = False
    while e[0] == "un" and e[1] == "Not":
        e, neg = e[2], not neg
    return e, neg


def emptiness_test(e):
    """`c.is_empty()`, `c.len() == 0`, `c.len() != 0`, `c.len() > 0`, `c.len() < 1`, `c.len() >= 1` (either operand order):
    -> (container expr, True if the expression is true exactly when the container is empty); else None"""
    e, neg = _strip_not(e)
    if e[0] == "call" and re.search(r"::is_empty$", short(e[1])) and e[2]:
        return e[2][0], not neg
    c = comparison(e)
    for cc in (c, mirror(c)) if c else ():
        op, a, b = cc
        if a[0] == "call" and re.search(r"::len$|Buf>?::remaining$", short(a[1])) and a[2]:
            k = const_int_of(b)
            if k == 0 and op in ("==", "<="):
                return a[2][0], not neg
            if k == 0 and op in ("!=", ">"):
                return a[2][0], neg
            if k == 1 and op == "<":
                return a[2][0], not neg
            if k == 1 and op == ">=":
                return a[2][0], neg
        if a[0] == "un" and a[1] == "PtrMetadata":
            k = const_int_of(b)
            if k == 0 and op in ("==", "<="):
                return a[2], not neg
            if k == 0 and op in ("!=", ">"):
                return a[2], neg
    return None


def fullness_test(e):
    """`v.is_full()`, `v.len() == v.capacity()`, `v.len() >= v.capacity()` (either order, possibly a constant capacity):
    -> (container expr, True if true exactly when full); else None"""
    e, neg = _strip_not(e)
    if e[0] == "call" and re.search(r"::is_full$", short(e[1])) and e[2]:
        return e[2][0], not neg
    c = comparison(e)
    for cc in (c, mirror(c)) if c else ():
        op, a, b = cc
        if a[0] == "call" and re.search(r"::len$", short(a[1])) and a[2] and \
                ((b[0] == "call" and re.search(r"::capacity$", short(b[1])) and b[2] and b[2][0] == a[2][0]) or (const_int_of(b) is not None and "CAP" in fmt(b).upper()) or
                 (b[0] == "const" and "MAX_NODES_PER_BUCKET" in str(b[1]))):
            if op in ("==", ">="):
                return a[2][0], not neg
            if op in ("!=", "<"):
                return a[2][0], neg
    return None


def test_edges(guards, recogniser, pred, want=True):
    """edges on which a recognised boolean test (emptiness_test / fullness_test / membership style recogniser returning (expr, polarity))
    about an expression satisfying pred evaluates to `want`"""
    out = []
    seen = set()
    for bi, t, e in guards.switches():
        r = recogniser(e)
        if r is None or not pred(r[0]):
            continue
        f, tr = guards.bool_edges(bi)
        edge = (bi, tr if (r[1] == want) else f)
        if edge not in seen:
            seen.add(edge)
            out.append(edge)
    return out


def option_edges(guards, pred):
    """for Option-valued expressions satisfying pred: (edges on which it is Some, edges on which it is None), whether the source
    tests it with is_some / is_none, `if let` / `match` / `matches!` (a discriminant switch)"""
    some, none = [], []
    for bi, t, e in guards.switches():
        inner, neg = _strip_not(e)
        if inner[0] == "call" and re.search(r"Option::is_(some|none)$", short(inner[1])) and inner[2] and pred(inner[2][0]):
            f, tr = guards.bool_edges(bi)
            is_some = short(inner[1]).endswith("is_some") != neg
            (some if is_some else none).append((bi, tr))
            (none if is_some else some).append((bi, f))
        elif e[0] == "discr" and pred(e[1]):
            names, _ = guards.variant_names(bi)
            vs = dict(t.vals)
            for v, tb in t.vals:
                if names.get(v) == "Some" or (v == 1 and not names):
                    some.append((bi, tb))
                elif names.get(v) == "None" or (v == 0 and not names):
                    none.append((bi, tb))
            if t.otherwise is not None and t.otherwise not in [tb for _, tb in t.vals]:
                if 1 in vs and 0 not in vs:
                    none.append((bi, t.otherwise))
                elif 0 in vs and 1 not in vs:
                    some.append((bi, t.otherwise))
    return some, none


def structural_eq(facts, adt_path):
    """is equality of the struct `adt_path` structural over all of its fields? -> (ok, detail).
    Yes if PartialEq is derived (the compiler then also emits StructuralPartialEq); for a hand-written impl, if `eq` compares every
    field of its two arguments with each other and calls nothing else (an impl that delegates, e.g. to `cmp`, is not recognised)."""
    a = facts.adts.get(adt_path)
    if a is None:
        raise AnchorError("ADT %s not found" % adt_path)
    traits = {i["trait"].split("<")[0]: i for i in facts.impls if i.get("self_adt") == adt_path and i.get("self_ty") == adt_path and i.get("trait")}
    if "std::cmp::PartialEq" not in traits:
        return False, "no PartialEq impl"
    if "std::marker::StructuralPartialEq" in traits:
        return True, "derived"
    items = traits["std::cmp::PartialEq"].get("items") or []
    eqs = [x for x in items if x.endswith("::eq")]
    if not eqs or eqs[0] not in facts.bodies:
        return False, "hand-written PartialEq without an analysable eq"
    b = facts.bodies[eqs[0]]
    p = Prov(b, facts)
    fields = [f["name"] for f in a["variants"][0]["fields"]]
    compared = set()
    for bi, t in b.calls():
        n = short(t.callee() or "")
        if re.search(r"PartialEq(<.*>)?>?::(eq|ne)$|cmp::impls::.*::(eq|ne)$", n) and len(t.args) == 2:
            sides = [fmt_short(p.operand(x)) for x in t.args]
            for f in fields:
                pat = r"^\W*\(?\*?(\w+)\)?\.%s\W*$" % re.escape(f)
                m0, m1 = re.match(pat, sides[0]), re.match(pat, sides[1])
                if m0 and m1 and m0.group(1) != m1.group(1):
                    compared.add(f)
        else:
            return False, "hand-written eq calls %s" % n
    for blk in b.blocks:
        for st in blk.stmts:
            if st.k == "a" and st.rv.k == "bin" and st.rv.j.get("op") in ("Eq", "Ne"):
                sides = [fmt_short(p.operand(o)) for o in st.rv.ops]
                for f in fields:
                    pat = r"^\W*\(?\*?(\w+)\)?\.%s\W*$" % re.escape(f)
                    m0, m1 = re.match(pat, sides[0]), re.match(pat, sides[1])
                    if m0 and m1 and m0.group(1) != m1.group(1):
                        compared.add(f)
    missing = [f for f in fields if f not in compared]
    if missing:
        return False, "hand-written eq does not compare %s" % ", ".join(missing)
    return True, "hand-written, compares %s" % ", ".join(fields)


def subst_expr(e, fn):
    """rebuild expression `e` bottom-up, replacing every sub-expression for which fn returns a value"""
    r = fn(e)
    if r is not None:
        return r
    if not isinstance(e, tuple):
        return e
    return tuple(subst_expr(x, fn) if isinstance(x, tuple) else x for x in e)


def closure_return_in_caller_terms(facts, clo, arg_exprs):
    """for a closure value `clo` (('agg', 'closure:PATH', captures)) called with the argument expressions `arg_exprs`: the closure's return
    expression with its parameters replaced by the arguments and its captured variables by what was captured; None if not available"""
    if not (isinstance(clo, tuple) and clo and clo[0] == "agg" and isinstance(clo[1], str) and clo[1].startswith("closure:")) or facts is None:
        return None
    cb = facts.bodies.get(clo[1][len("closure:"):]) or (getattr(facts, "detached", None) or {}).get(clo[1][len("closure:"):])
    if cb is None or len(cb.blocks) > 400:
        return None
    caps = dict(clo[2]) if len(clo) > 2 else {}
    caps.update({k[len("_ref__"):]: v for k, v in list(caps.items()) if isinstance(k, str) and k.startswith("_ref__")})
    ret = canon(Prov(cb, facts).local(0))

    def fn(x):
        if isinstance(x, tuple) and x:
            if x[0] == "param" and len(x) > 1 and isinstance(x[1], int) and 2 <= x[1] < 2 + len(arg_exprs):
                return arg_exprs[x[1] - 2]
            if x[0] == "upvar" and len(x) > 1 and x[1] in caps:
                return caps[x[1]]
        return None
    return subst_expr(ret, fn)


def flag_cases(e):
    """what the two edges of a switch on the boolean `e` say about the tests `e` was put together from. Yields (x, edge, value): on the
    switch's `edge` (True = the edge taken when e is true) the boolean expression x has the truth value `value`. Besides e itself (with its
    negations stripped) this understands a flag that is `false` or one test (`a && x`, `match o { Some(v) => x, None => false }`): where
    the flag is true, x is; and a flag that is `true` or one test (`a || x`): where it is false, x is."""
    inner, neg = e, False
    while isinstance(inner, tuple) and inner and inner[0] == "un" and inner[1] == "Not":
        inner, neg = inner[2], not neg
    out = [(inner, True, not neg), (inner, False, neg)]
    if inner[0] == "phi":
        consts = {const_int_of(a) for a in inner[1] if const_int_of(a) in (0, 1)}
        rest = [a for a in inner[1] if const_int_of(a) not in (0, 1)]
        if len(rest) == 1 and len(consts) == 1:
            x, xneg = rest[0], False
            while isinstance(x, tuple) and x and x[0] == "un" and x[1] == "Not":
                x, xneg = x[2], not xneg
            if consts == {0}:
                out.append((x, not neg, not xneg))       # flag true -> the test holds
            else:
                out.append((x, neg, xneg))               # flag false -> the test fails
    return out


def lift_option_predicates(facts, e):
    """the predicate(s) hidden in a closure of `Option::is_some_and` / `is_none_or` / `map_or(bool, ..)` / `Result::is_ok_and`, rewritten in
    the caller's terms and with the polarity of the whole expression (so the switch's true edge implies what is returned for is_some_and,
    and its false edge implies the negation of what is returned for is_none_or)"""
    if facts is None:
        return []
    neg = False
    x = e
    while isinstance(x, tuple) and x and x[0] == "un" and x[1] == "Not":
        x, neg = x[2], not neg
    x = canon(x) if isinstance(x, tuple) else x
    if not (isinstance(x, tuple) and x and x[0] == "call"):
        return []
    n = short(x[1])
    m = re.search(r"(Option|Result)(::<.*>)?::(is_some_and|is_none_or|is_ok_and|is_err_and|map_or)$", n)
    if not m:
        return []
    which = m.group(3)
    args = x[2]
    if which == "map_or":
        if len(args) != 3 or const_int_of(args[1]) not in (0, 1):
            return []
        opt, clo = args[0], args[2]
    else:
        if len(args) != 2:
            return []
        opt, clo = args[0], args[1]
    variant = "Err" if which == "is_err_and" else ("Ok" if which == "is_ok_and" else "Some")
    payload = ("field", ("as", opt, variant), "0")
    inner = closure_return_in_caller_terms(facts, clo, [payload])
    if inner is None:
        return []
    out = inner
    if neg:
        out = ("un", "Not", out)
    return [out]


def closures_of(facts, body, depth=0):
    """the closure bodies constructed in `body` (transitively), each with a function that rewrites one of its expressions into the terms of
    `body` (captured variables replaced by what was captured; the closure's own parameters stay as they are): [(closure body, Prov, to_caller)]"""
    out = []
    if facts is None or depth > 2:
        return out
    p = Prov(body, facts)
    seen = set()
    for blk in body.blocks:
        if blk.cleanup or blk.idx not in body.live_blocks():
            continue
        for st in blk.stmts:
            if st.k == "a" and st.rv.k == "agg" and st.rv.j.get("ak") == "closure":
                path = st.rv.j.get("def")
                cb = facts.bodies.get(path) or (getattr(facts, "detached", None) or {}).get(path)
                if cb is None or path in seen or len(cb.blocks) > 400:
                    continue
                seen.add(path)
                caps = dict(zip(st.rv.j.get("fields") or [], [p.operand(o) for o in st.rv.ops]))
                caps.update({k[len("_ref__"):]: v for k, v in list(caps.items()) if k.startswith("_ref__")})     # by-reference captures

                def to_caller(e, caps=caps):
                    return subst_expr(e, lambda x: caps.get(x[1]) if isinstance(x, tuple) and x and x[0] == "upvar" and len(x) > 1 and x[1] in caps else None)
                cp = Prov(cb, facts)
                out.append((cb, cp, to_caller))
                for cb2, cp2, tc2 in closures_of(facts, cb, depth + 1):
                    out.append((cb2, cp2, lambda e, tc2=tc2, to_caller=to_caller: to_caller(tc2(e))))
    return out


def _lin_plus(a, b):
    return None if a is None or b is None else _lin_add(a, b, 1)


def slice_span(e, depth=0):
    """an expression that denotes a sub-slice, normalised to (base expression, start, end) with start / end as affine forms (end None = up
    to the end of the base). Understands `b[s..e]`, `b[s..]`, `b[..e]`, `b[..]`, `b.split_at(n).0 / .1`, `b.get(range)` payloads, nested;
    copies (`to_vec`, `to_owned`, `as_slice`, deref) are transparent. Anything else is its own base: (e, 0, None)."""
    if depth > 12 or not isinstance(e, tuple):
        return (e, ({}, 0), None)
    e = canon(e)
    if e[0] == "call" and len(e[2]) >= 1 and re.search(r"::(to_vec|to_owned|as_slice|as_ref|deref|borrow|clone|into_vec|as_mut_slice|deref_mut|try_into|try_from|into|from)$", short(e[1])) and len(e[2]) == 1:
        return slice_span(e[2][0], depth + 1)
    if e[0] == "field" and e[2] in ("0", "1") and isinstance(e[1], tuple) and e[1][0] == "call" and re.search(r"::split_at(_mut)?$", short(e[1][1])) and len(e[1][2]) == 2:
        base, s0, e0 = slice_span(e[1][2][0], depth + 1)
        n = linear(e[1][2][1])
        mid = _lin_plus(s0, n)
        if mid is None:
            return (e, ({}, 0), None)
        return (base, s0, mid) if e[2] == "0" else (base, mid, e0)
    if e[0] == "field" and e[2] == "0" and isinstance(e[1], tuple) and e[1][0] == "as" and isinstance(e[1][1], tuple) and e[1][1][0] == "call" and \
            re.search(r"slice(::<.*>)?::get$|::get$", short(e[1][1][1])) and len(e[1][1][2]) == 2 and canon(e[1][1][2][1])[0] == "agg":
        e = ("call", "core::slice::index::index", e[1][1][2], None)
    if e[0] == "call" and len(e[2]) == 2 and re.search(r"slice::index::index(_mut)?$|ops::Index(Mut)?(<.*>)?>?::index(_mut)?$", short(e[1])):
        base, s0, e0 = slice_span(e[2][0], depth + 1)
        r = canon(e[2][1])
        if r[0] == "agg" and isinstance(r[1], str):
            kind = r[1].split("::")[-1]
            f = dict(r[2]) if len(r) > 2 else {}
            rs = re_ = None
            if kind == "Range":
                rs, re_ = linear(f.get("start")), linear(f.get("end"))
            elif kind == "RangeFrom":
                rs, re_ = linear(f.get("start")), "END"
            elif kind == "RangeTo":
                rs, re_ = ({}, 0), linear(f.get("end"))
            elif kind == "RangeFull":
                rs, re_ = ({}, 0), "END"
            if rs is not None and re_ is not None:
                ns = _lin_plus(s0, rs)
                ne = e0 if re_ == "END" else _lin_plus(s0, re_)
                if ns is not None and (re_ == "END" or ne is not None):
                    return (base, ns, ne)
    return (e, ({}, 0), None)
