"""C07 — Routing-table structural invariants."""
import re

from analysis import (fullness_test, test_edges, option_edges, reachable_flags, constant_discriminant_edges, Prov, Guards, FlagEngine, fmt, fmt_short, walk, roots, short, comparison, find_calls, callee_matches,
                      must_pass, const_int_of, propagate, field_writes, canon)
from facts import AnchorError, strip_closure
from harness import Rule, guarded
from c01 import bool_pass_edges

PID = "C07"
EXPLANATION = (
    "Dominance / provenance / who-may-call rules over the MIR of the bucket and table code. R1 (capacity): KBucket.nodes is an "
    "ArrayVec bounded by MAX_NODES_PER_BUCKET = 16 and every push/insert into it is either past the not-full edge or preceded on "
    "every path by a remove from it with no other insertion in between (otherwise the operation panics instead of completing). R2 "
    "(placement, self-exclusion): every bucket a table method touches is buckets[BucketIndex::new(local_key.distance(key))] for the "
    "method's own key, the node inserted carries that key, the own id (index None) never reaches a bucket, and KBucket::insert has "
    "only the four known callers. R3 (uniqueness): in KBucket::insert every insertion and every write of the pending slot is past "
    "position(&node.key) == None, the pending slot is cleared when a node with the pending node's key is inserted, and a pending "
    "node is created only in a full bucket without one. R4 (pending life cycle): the pending node is applied only past replace <= "
    "now, every eviction is nodes.remove(0) past !nodes[0].is_connected(), and update_status clears the pending slot when the "
    "node at position 0 becomes connected. R5: every path adding a connected incoming node is past !is_max_incoming().")
EXPLANATION += (' Added while testing: R4 also requires every status report for a stored node to remove it from its position before re-inserting it (recency), and PendingNode.replace to be written only at construction as now + pending_timeout.')
NOT_DECIDED = ["that disconnected nodes precede connected ones, each group ordered by last status change (first_connected_pos arithmetic over operation sequences; "
               "the crate's quickcheck test remains the only evidence for it)"]
TRUSTED = ["arrayvec::ArrayVec panics rather than exceeding its capacity", "Vec indexing by BucketIndex"]

KB = "crate::kbucket::bucket::KBucket::<TNodeId, TVal>::"
KT = "crate::kbucket::KBucketsTable::<TNodeId, TVal>::"


def node_writes(b, p):
    """push / insert calls on self.nodes: [(block, term)]"""
    out = []
    for bi, t in b.calls():
        if callee_matches(t, r"arrayvec::ArrayVec::<.*>::(push|insert|try_push|try_insert|push_unchecked)$") and fmt_short(p.operand(t.args[0])) == "self.nodes":
            out.append((bi, t))
    return out


def node_removes(b, p):
    return [(bi, t) for bi, t in b.calls() if callee_matches(t, r"arrayvec::ArrayVec::<.*>::(remove|pop|swap_remove|pop_at|swap_pop)$") and
            fmt_short(p.operand(t.args[0])) == "self.nodes"]


def r1(ctx):
    facts = ctx.facts
    rule = Rule("C07.R1", "capacity: bounded ArrayVec; every insertion is past not-full or replaces a node just removed", floor=8, engine="ADT fact + A-dom")
    adt = facts.adts.get("crate::kbucket::bucket::KBucket")
    if adt is None:
        raise AnchorError("ADT KBucket not found")
    f = {x["name"]: x["ty"] for x in adt["variants"][0]["fields"]}
    cap = facts.const_value("crate::kbucket::bucket::MAX_NODES_PER_BUCKET")
    rule.check(re.match(r"arrayvec::ArrayVec<crate::kbucket::bucket::Node<TNodeId, TVal>, (16|MAX_NODES_PER_BUCKET|crate::kbucket::(bucket::)?MAX_NODES_PER_BUCKET)>", f.get("nodes", "")) is not None and cap == 16,
               "KBucket.nodes: ArrayVec<Node, MAX_NODES_PER_BUCKET = 16>", "nodes|type", "KBucket.nodes has type %s, MAX_NODES_PER_BUCKET = %s" % (f.get("nodes"), cap))
    n = 0
    for pth, b in sorted(facts.bodies.items()):
        if not pth.startswith("crate::kbucket::bucket::KBucket::<TNodeId, TVal>::"):
            continue
        p = Prov(b, facts)
        ws = node_writes(b, p)
        if not ws:
            continue
        rule.analysed(b)
        g = Guards(b, p, facts)
        not_full = test_edges(g, fullness_test, lambda x: fmt_short(x) == "self.nodes", want=False)
        rs = [bi for bi, _ in node_removes(b, p)]
        name = pth.split("::")[-1]
        for bi, t in ws:
            n += 1
            r = b.reachable(0, removed_edges=not_full)
            if bi not in r and not_full:
                rule.ok("%s: %s past !is_full()" % (name, short(t.callee()).split("::")[-1]))
                continue
            dom = [x for x in rs if must_pass(b, [bi], via_blocks=[x])]
            between = [o for o, _ in ws if o != bi and any(o in b.reachable(x) for x in dom) and bi in b.reachable(o)]
            rule.check(bool(dom) and not between, "%s: %s replaces a node removed on every path before it" % (name, short(t.callee()).split("::")[-1]),
                       "%s|%s|may-overflow" % (name, short(t.callee()).split("::")[-1]),
                       "KBucket::%s can insert into `nodes` without room having been made (not past !is_full() and no preceding remove): the bucket would panic instead of completing" % name,
                       loc=b.loc(t.line))
    if n < 7:
        rule.fail("nodes|write-sites", "only %d insertion sites into nodes found (7 confirmed by hand)" % n)
    return rule


def r2(ctx):
    facts = ctx.facts
    rule = Rule("C07.R2", "placement by log2 distance and self-exclusion; who may insert into a bucket", floor=7, engine="A-prov + A-who")
    want_idx = "BucketIndex::get(BucketIndex::new(Key::distance(self.local_key, key)).0)"
    n = 0
    for fn in ("update_node_status", "update_node", "insert_or_update", "remove", "entry", "get_bucket"):
        b = facts.one(re.escape(KT + fn))
        rule.analysed(b)
        p = Prov(b, facts)
        idxs = [(bi, t) for bi, t in b.calls() if callee_matches(t, r"ops::Index(Mut)?>::index(_mut)?$") and fmt_short(p.operand(t.args[0])) == "self.buckets"]
        if not idxs:
            rule.fail("%s|no-index" % fn, "KBucketsTable::%s does not index self.buckets" % fn, loc=b.loc(b.line))
        for bi, t in idxs:
            n += 1
            s = fmt_short(p.operand(t.args[1]))
            rule.check(s == want_idx, "%s: buckets[BucketIndex::new(local_key.distance(key))]" % fn, "%s|bucket-index" % fn,
                       "KBucketsTable::%s touches buckets[%s] instead of the bucket of the key's log2 distance" % (fn, s), loc=b.loc(t.line))
    ins = facts.one(re.escape(KT + "insert_or_update"))
    p = Prov(ins, facts)
    for bi, t in ins.calls():
        if short(t.callee() or "").endswith("bucket::KBucket::insert"):
            nd = p.operand(t.args[1])
            aggs = [x for x in walk(nd) if x[0] == "agg" and x[1].endswith("bucket::Node::Node")]
            okk = bool(aggs) and fmt_short(dict(aggs[0][2])["key"]) == "key" and fmt_short(dict(aggs[0][2])["value"]) == "value"
            rule.check(okk, "insert_or_update inserts Node{key: key.clone(), value, status} into that bucket", "insert_or_update|node",
                       "insert_or_update inserts %s" % fmt_short(nd), loc=ins.loc(t.line))
    # self update
    g = Guards(ins, p, facts)
    self_sites = [blk.idx for blk in ins.blocks for s in blk.stmts if s.k == "a" and s.rv.k == "agg" and s.rv.j.get("variant") == "InvalidSelfUpdate"]
    rule.check(bool(self_sites), "the own id (no bucket index) yields Failed(InvalidSelfUpdate)", "insert_or_update|self", "insert_or_update no longer rejects the local id", loc=ins.loc(ins.line))
    callers = facts.callers_of(lambda x: short(x) == "crate::kbucket::bucket::KBucket::insert")
    who = sorted(set(strip_closure(c) for c in callers))
    allowed = {KT + "insert_or_update", "crate::kbucket::entry::AbsentEntry::<'a, TPeerId, TVal>::insert", KB + "update_status", KB + "apply_pending"}
    rule.check(set(who) <= allowed and KT + "insert_or_update" in who, "callers of KBucket::insert: %s" % [w.split("::")[-1] for w in who], "KBucket::insert|callers",
               "KBucket::insert is called from %s" % sorted(set(who) - allowed))
    # BucketIndex values only come from BucketIndex::new / the iterator
    mk = set()
    for pth, b in facts.bodies.items():
        for blk in b.blocks:
            for s in blk.stmts:
                if s.k == "a" and s.rv.k == "agg" and s.rv.j.get("def") == "crate::kbucket::BucketIndex":
                    mk.add(strip_closure(pth))
    okset = {"crate::kbucket::ClosestBucketsIter::new", "crate::kbucket::ClosestBucketsIter::next_in", "crate::kbucket::ClosestBucketsIter::next_out",
             "<crate::kbucket::ClosestBucketsIter as std::iter::Iterator>::next", "crate::kbucket::BucketIndex::new"}
    rule.check(mk <= okset, "BucketIndex values are made only by BucketIndex::new and the closest-bucket walk", "BucketIndex|constructors",
               "BucketIndex is constructed in %s" % sorted(mk - okset))
    if n < 6:
        rule.fail("index|sites", "only %d bucket index sites checked (6 confirmed by hand)" % n)
    return rule


def r3(ctx):
    facts = ctx.facts
    rule = Rule("C07.R3", "uniqueness: insertions and pending writes only for an absent key; pending cleared when its key is inserted; pending only in a full bucket without one",
                floor=4, engine="A-dom")
    b = facts.one(re.escape(KB + "insert"))
    rule.analysed(b)
    p = Prov(b, facts)
    g = Guards(b, p, facts)
    _some, absent = option_edges(g, lambda x: fmt_short(x) == "KBucket::position(self, node.key)")
    ws = node_writes(b, p)
    pend_some, pend_none = [], []
    for blk in b.blocks:
        for s in blk.stmts:
            if s.k == "a" and s.lhs.local == 1 and s.lhs.field_names() == ["pending"] and blk.idx in b.live_blocks():
                e = p.rvalue(s.rv, blk.idx)
                kinds = set(x[1].split("::")[-1] for x in roots(e) if x[0] == "agg" and "Option::" in x[1])
                (pend_some if "Some" in kinds else pend_none).append(blk.idx)
    r = b.reachable(0, removed_edges=absent)
    rule.check(bool(absent) and ws and not any(bi in r for bi, _ in ws) and not any(x in r for x in pend_some),
               "KBucket::insert adds a node or a pending node only if position(&node.key) is None", "insert|duplicate",
               "KBucket::insert can add a node whose key is already in the bucket", loc=b.loc(b.line))
    # pending only when full, no pending, not all connected
    full = test_edges(g, fullness_test, lambda x: fmt_short(x) == "self.nodes", want=True)
    _hasp, nopend = option_edges(g, lambda x: fmt_short(x) == "self.pending")
    for nm, edges, msg in (("full", full, "a bucket that is not full"), ("no-pending", nopend, "a bucket that already has a pending node (it would be overwritten)")):
        r = b.reachable(0, removed_edges=edges)
        rule.check(bool(edges) and pend_some and not any(x in r for x in pend_some), "a pending node is created only past %s" % nm, "insert|pending-%s" % nm,
                   "KBucket::insert can create a pending node in %s" % msg, loc=b.loc(b.line))
    # pending cleared when the pending key itself is inserted
    clos = [cb for pth, cb in facts.bodies.items() if pth.startswith(b.path + "::{closure#")]
    same_key = False
    for cb in clos:
        c = comparison(Prov(cb, facts).local(0))
        if c and c[0] == "==" and {fmt_short(c[1]), fmt_short(c[2])} == {"pending.node.key", "node.key"}:
            same_key = True
    flag_edges = []
    for bi, t, e in g.switches():
        if any(x[0] == "call" and short(x[1]).endswith("Option::unwrap_or_default") and "self.pending" in fmt_short(x) for x in walk(e)) and e[0] != "discr":
            flag_edges.append((bi, g.bool_edges(bi)[1]))
        elif e[0] != "discr":
            # the same flag computed with a `match` / `if let`: false when there is no pending node, else pending.node.key == node.key
            alts = e[1] if e[0] == "phi" else (e,)
            cmps = [comparison(a) for a in alts if const_int_of(a) != 0]
            if cmps and all(c and c[0] == "==" and {fmt_short(c[1]).split(".", 1)[-1] if "pending" in fmt_short(c[1]) else fmt_short(c[1]),
                                                    fmt_short(c[2]).split(".", 1)[-1] if "pending" in fmt_short(c[2]) else fmt_short(c[2])} >= {"node.key"} and
                            any("self.pending" in fmt_short(x) for x in (c[1], c[2])) for c in cmps) and \
                    (any(const_int_of(a) == 0 for a in alts) or all(any(isinstance(y, tuple) and y and y[0] == "as" and y[2] == "Some" for x in (c[1], c[2]) for y in walk(x)) for c in cmps)):
                same_key = True
                if (bi, g.bool_edges(bi)[1]) not in flag_edges:
                    flag_edges.append((bi, g.bool_edges(bi)[1]))
    okk = same_key and bool(flag_edges) and bool(pend_none)
    if okk:
        # on the flag-true edge after a successful insertion the slot is cleared on every path
        # (edges that contradict a discriminant known to be constant there are infeasible: `if let Inserted = insert_result` after the
        # match that only ever yields Inserted)
        infeasible = constant_discriminant_edges(b, g)
        for sb, tgt in flag_edges:
            rr = reachable_flags(b, p, tgt, removed_blocks=pend_none, removed_edges=infeasible)
            if any(x in rr for x in b.return_blocks()):
                okk = False
    if okk:
        # every insertion path consults that flag: after a node was written, each path to the return either clears the slot or
        # passes the flag's false edge (the inserted key is not the pending one)
        flag_false = []
        for sb, tgt in flag_edges:
            flag_false += [(sb, s_) for s_ in b.blocks[sb].term.succs() if s_ != tgt]
        flag_false += constant_discriminant_edges(b, g)
        for wbi, wt in ws:
            rr = reachable_flags(b, p, wt.target, removed_blocks=pend_none, removed_edges=flag_false)
            if any(x in rr for x in b.return_blocks()):
                okk = False
    rule.check(okk, "inserting the pending node's own key clears the pending slot", "insert|pending-twin",
               "KBucket::insert can leave a pending node with the same key as a node just inserted (the id would occur twice)", loc=b.loc(b.line))
    return rule


def r4(ctx):
    facts = ctx.facts
    rule = Rule("C07.R4", "pending life cycle: applied only after its timeout, evicting nodes[0] only if disconnected; reconnecting nodes[0] drops the pending node",
                floor=6, engine="A-dom")
    b = facts.one(re.escape(KB + "apply_pending"))
    rule.analysed(b)
    p = Prov(b, facts)
    g = Guards(b, p, facts)
    due = []
    for bi, t, e in g.switches():
        c = comparison(e)
        if not c or c[0] not in ("<", "<=", ">", ">="):
            continue
        is_rep = lambda x: fmt_short(x).endswith(".replace") and "self.pending" in fmt_short(x)
        is_now = lambda x: fmt_short(x) == "Instant::now()"
        if is_rep(c[1]) and is_now(c[2]):
            op = c[0]
        elif is_rep(c[2]) and is_now(c[1]):
            op = {"<": ">", "<=": ">=", ">": "<", ">=": "<="}[c[0]]
        else:
            continue
        # `replace op now`: the node is due where replace <= now holds
        f_, tr_ = g.bool_edges(bi)
        edge = tr_ if op in ("<=", "<") else f_
        if (bi, edge) not in due:
            due.append((bi, edge))
    ws = node_writes(b, p)
    ins = [(bi, t) for bi, t in b.calls() if short(t.callee() or "").endswith("bucket::KBucket::insert")]
    r = b.reachable(0, removed_edges=due)
    rule.check(bool(due) and ws and ins and not any(bi in r for bi, _ in ws + ins), "the pending node is applied only past pending.replace <= Instant::now()", "apply_pending|before-timeout",
               "apply_pending can insert the pending node before its timeout elapsed", loc=b.loc(b.line))
    rem = node_removes(b, p)
    notconn = bool_pass_edges(g, lambda e: e[0] == "call" and e[1].endswith("NodeStatus::is_connected") and fmt_short(e[2][0]) in ("self.nodes[].status", "self.nodes[0].status"), want_true=False)
    r = b.reachable(0, removed_edges=notconn)
    rule.check(bool(notconn) and rem and not any(bi in r for bi, _ in rem), "evictions only past !nodes[0].status.is_connected()", "apply_pending|evict-connected",
               "apply_pending can evict a connected node", loc=b.loc(b.line))
    for bi, t in rem:
        rule.check(const_int_of(p.operand(t.args[1])) == 0, "the node evicted is nodes[0] (least recently active disconnected)", "apply_pending|evict-index",
                   "apply_pending evicts nodes[%s]" % fmt_short(p.operand(t.args[1])), loc=b.loc(t.line))
    # the not-due branch puts the pending node back
    backs = []
    for blk in b.blocks:
        for s in blk.stmts:
            if s.k == "a" and s.lhs.local == 1 and s.lhs.field_names() == ["pending"] and blk.idx in b.live_blocks():
                e = p.rvalue(s.rv, blk.idx)
                if any(x[0] == "agg" and x[1].endswith("Option::Some") for x in roots(e)):
                    backs.append(blk.idx)
    ok = bool(due) and bool(backs)
    for sb, tgt in due:
        others = [s_ for s_ in b.blocks[sb].term.succs() if s_ != tgt]
        for o in others:
            rr = b.reachable(o, removed_blocks=backs)
            if any(x in rr for x in b.return_blocks()):
                ok = False
    rule.check(ok, "a pending node that is not due is put back", "apply_pending|dropped-early", "apply_pending drops a pending node whose timeout has not elapsed", loc=b.loc(b.line))
    # update_status clears pending on (pos == 0 && connected)
    us = facts.one(re.escape(KB + "update_status"))
    rule.analysed(us)
    p = Prov(us, facts)
    g = Guards(us, p, facts)
    fe = FlagEngine(us, p)
    clears = []
    for blk in us.blocks:
        for s in blk.stmts:
            if s.k == "a" and s.lhs.local == 1 and s.lhs.field_names() == ["pending"] and blk.idx in us.live_blocks():
                e = p.rvalue(s.rv, blk.idx)
                if all(x[0] == "agg" and x[1].endswith("Option::None") for x in roots(e)):
                    clears.append(blk.idx)
    pos0 = []
    for bi, t, e in g.switches():
        c = comparison(e)
        if c and c[0] == "==" and "KBucket::position(self, key)" in fmt_short(c[1]) and "Position" in fmt(c[2]) and any(const_int_of(y) == 0 for y in walk(c[2])):
            pos0.append((bi, g.bool_edges(bi)))
    ins = [(bi, t) for bi, t in us.calls() if short(t.callee() or "").endswith("bucket::KBucket::insert")]
    ok = bool(clears) and bool(pos0) and bool(ins)
    if ok:
        # on the pos == 0 edge, with is_connected (the flag variable) true, every path to the re-insert passes the clear
        conn_l = [i for i, l in enumerate(us.locals) if l.get("name") == "is_connected"]
        ok = bool(conn_l)
        if ok:
            cl = conn_l[0]
            sb, (f, tr) = pos0[0]

            def transfer(bidx, st):
                vals, cleared = st
                vals = fe.apply_stmts(bidx, vals)
                if bidx in clears:
                    cleared = True
                t = us.blocks[bidx].term
                if t.k == "ret":
                    yield None, (vals, cleared)
                    return
                for s_ in fe.successors(bidx, vals):
                    yield s_, (vals, cleared)
            init = list(fe.initial())
            if cl in fe.index:
                init[fe.index[cl]] = True
            states, exits, parent = propagate(us, (tuple(init), False), transfer, start=tr)
            for bi, t in ins:
                if any(not st[1] for st in states.get(bi, ())):
                    ok = False
            if cl not in fe.index:
                # is_connected is computed, not a constant flag: fall back to path-insensitive must-pass on the pos==0 edge
                ok = bool(clears) and any(c_ in us.reachable(tr) for c_ in clears)
    # recency order: a status report for a stored node always takes it out of its position (and re-inserts it at the end of its group) -
    # each group is ordered by the time of the last report, and nodes[0] is the one that gets challenged / evicted
    _present, _absent = option_edges(g, lambda x: fmt_short(x) == "KBucket::position(self, key)")
    takes = node_removes(us, p)
    okr = bool(_present) and bool(takes)
    for sb, tgt in _present:
        rr = us.reachable(tgt, removed_blocks=[bi for bi, _ in takes])
        if any(x in rr for x in us.return_blocks()):
            okr = False
    rule.check(okr, "update_status: every report for a stored node removes it from its position first (then re-inserts it last in its group)", "update_status|recency-not-refreshed",
               "update_status can return for a stored node without moving it: a node whose status was just reported keeps its old place, so the order of a group no longer "
               "follows the time of the last report and the wrong node is treated as least recently active", loc=us.loc(us.line))
    rule.check(ok, "update_status: when nodes[0] becomes connected the pending node is dropped before the node is re-inserted", "update_status|pending-kept",
               "update_status can leave the pending node in place although the least-recently-active node re-established its connection (it would be evicted)", loc=us.loc(us.line))
    # the moment a pending node becomes eligible is fixed when it is queued (now + pending_timeout) and never moved afterwards
    bad = []
    n_ok = 0
    for wb, wbi, wline, kind, e in field_writes(facts, r"crate::kbucket::bucket::PendingNode", "replace"):
        nm = wb.path.split("::")[-1]
        if wb.path.endswith("Clone>::clone") or nm == "set_ready_at":      # the derived copy; the test helper (cfg(test)-only callers)
            continue
        c = canon(e)
        lin = c[0] == "call" and re.search(r"ops::Add(<.*>)?>?::add$|Instant::checked_add$", short(c[1])) and len(c[2]) == 2 and \
            fmt_short(c[2][0]) == "Instant::now()" and fmt_short(c[2][1]).endswith(".pending_timeout")
        if kind == "construct" and lin:
            n_ok += 1
        else:
            bad.append("%s %ss it as %s" % (nm, kind, fmt_short(e)[:80]))
    callers = sorted({strip_closure(pth) for pth, bb in facts.bodies.items() for bi, t in bb.calls() if (t.callee() or "").endswith("PendingNode::<TNodeId, TVal>::set_ready_at")
                      and "::tests::" not in pth and "::test::" not in pth})
    rule.check(n_ok >= 1 and not bad and not callers, "PendingNode.replace is set once, to now + pending_timeout, when the node is queued", "pending|eligibility-moved",
               "the instant at which a pending node becomes eligible is written elsewhere or differently (%s%s): a pending node can enter a full bucket before its timeout"
               % ("; ".join(bad), ("; set_ready_at called from " + ", ".join(callers)) if callers else ""), loc=b.loc(b.line))
    return rule


def r5(ctx):
    facts = ctx.facts
    rule = Rule("C07.R5", "the incoming limit is consulted on every path that adds a connected incoming node", floor=2, engine="A-dom")
    b = facts.one(re.escape(KB + "insert"))
    rule.analysed(b)
    p = Prov(b, facts)
    g = Guards(b, p, facts)
    ok_edges = bool_pass_edges(g, lambda e: e[0] == "call" and e[1].endswith("NodeStatus::is_incoming") and fmt_short(e[2][0]) == "node.status", want_true=False)
    ok_edges += bool_pass_edges(g, lambda e: e[0] == "call" and short(e[1]).endswith("KBucket::is_max_incoming"), want_true=False)
    disc = []
    for bi, t, e in g.switches():
        if e[0] == "discr" and fmt_short(e[1]) == "node.status.state":
            names, _ = g.variant_names(bi)
            disc += [(bi, tb) for v, tb in t.vals if names.get(v) == "Disconnected"]
    ws = node_writes(b, p)
    pend = [blk.idx for blk in b.blocks for s in blk.stmts if s.k == "a" and s.lhs.local == 1 and s.lhs.field_names() == ["pending"] and
            any(x[0] == "agg" and x[1].endswith("Option::Some") for x in roots(p.rvalue(s.rv, blk.idx))) and blk.idx in b.live_blocks()]
    r = b.reachable(0, removed_edges=ok_edges + disc)
    rule.check(bool(ok_edges) and bool(disc) and not any(bi in r for bi, _ in ws) and not any(x in r for x in pend),
               "KBucket::insert: a connected incoming node is added (or made pending) only past !is_max_incoming()", "insert|incoming-limit",
               "KBucket::insert can add a connected incoming node without consulting the incoming limit", loc=b.loc(b.line))
    ap = facts.one(re.escape(KB + "apply_pending"))
    rule.analysed(ap)
    p = Prov(ap, facts)
    g = Guards(ap, p, facts)
    ok_edges = bool_pass_edges(g, lambda e: e[0] == "call" and e[1].endswith("NodeStatus::is_incoming") and "self.pending" in fmt_short(e), want_true=False)
    ok_edges += bool_pass_edges(g, lambda e: e[0] == "call" and e[1].endswith("NodeStatus::is_connected") and "PendingNode::status" in fmt_short(e), want_true=False)
    ok_edges += bool_pass_edges(g, lambda e: e[0] == "call" and short(e[1]).endswith("KBucket::is_max_incoming"), want_true=False)
    ws = node_writes(ap, p)
    # the first is_connected(pending.status()) test is the gate; later tests of the same expression choose the position only.
    # cut only the gate's edges: those from which is_max_incoming is reachable
    gate = []
    mi = [bi for bi, t in ap.calls() if short(t.callee() or "").endswith("KBucket::is_max_incoming")]
    for sb, tgt in ok_edges:
        blk = ap.blocks[sb]
        if any(m in ap.reachable(sb) for m in mi) or sb in [x for x in mi] or any(sb in ap.reachable(m) and sb != m for m in mi) and \
                short(ap.blocks[[pb for pb in range(len(ap.blocks)) if ap.blocks[pb].term.k == "call" and ap.blocks[pb].term.target == sb][0]].term.callee() or "").endswith("is_max_incoming"):
            gate.append((sb, tgt))
    r = ap.reachable(0, removed_edges=gate)
    rule.check(bool(mi) and bool(gate) and ws and not any(bi in r for bi, _ in ws), "apply_pending (full bucket): a connected incoming pending node is promoted only past !is_max_incoming()",
               "apply_pending|incoming-limit", "apply_pending can promote a connected incoming pending node into a full bucket without consulting the incoming limit", loc=ap.loc(ap.line))
    return rule


def run(ctx):
    G = lambda l, f, *a: guarded("C07." + l, f, ctx, *a)
    return G("R1", r1) + G("R2", r2) + G("R3", r3) + G("R4", r4) + G("R5", r5)
