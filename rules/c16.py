"""C16 — IP-diversity limits of the routing table."""
import re

from analysis import (Prov, Guards, FlagEngine, fmt, fmt_short, walk, roots, short, comparison, find_calls, callee_matches,
                      must_pass, path_to, describe_path, linear, normalised_cmp, const_int_of, cmp_intervals, propagate)
from facts import AnchorError, strip_closure
from harness import Rule, guarded

PID = "C16"
EXPLANATION = (
    "Rules over the MIR of the routing table and its IP filters. R1: the iterator handed to the table filter "
    "yields the values of all nodes of all buckets and of every bucket's pending node (a pending node becomes an "
    "entry without passing the table filter again). R2: in KBucketsTable no path on which the table filter returned "
    "false reaches KBucket::insert / update_value (flag-sensitive path analysis over passed_table_filter); in KBucket "
    "every write of a new or changed value into `nodes` is preceded by the bucket filter's true edge when a filter is "
    "set; the documented filter bypasses (value_mut) have no caller. R3: ip_filter refuses on count >= limit, counts a "
    "value when the first three IPv4 octets agree, does not restrict records without an IPv4 address; the limits "
    "evaluate to 10 (table) and 2 (bucket) and Discv5::new installs both exactly when config.ip_limit is set. "
    "Witness for R1: 10 entries of one /24 plus a pending node of the same /24 in a full bucket give 11 after the "
    "pending timeout.")
EXPLANATION += (" Added while testing: R2 tracks the table filter's verdict through flag variables and helper return values; R3 requires ip_filter to visit every stored value (no early exit) and the filters to be installed exactly when ip_limit is set.")
NOT_DECIDED = ["the count invariant over arbitrary operation sequences as such (R1-R3 are the shape that makes each step preserve it)"]
TRUSTED = ["Enr::ip4 returns the record's IPv4 address", "Iterator::chain / flat_map / map yield all elements of their inputs"]

KT = r"crate::kbucket::KBucketsTable::<TNodeId, TVal>::"
KBK = r"crate::kbucket::bucket::KBucket::<TNodeId, TVal>::"


def closure_tree(facts, path):
    """bodies of all closures nested in `path`"""
    return [b for p, b in sorted(facts.bodies.items()) if p.startswith(path + "::{closure#")]


def r1(ctx):
    facts = ctx.facts
    rule = Rule("C16.R1", "the table filter sees every value that is or can become an entry: nodes and pending nodes of all buckets",
                floor=3, engine="A-prov")
    ti = facts.one(KT + "table_iter")
    rule.analysed(ti)
    p = Prov(ti, facts)
    e = p.local(0)
    ok_all_buckets = any(x[0] == "call" and short(x[1]).endswith("Iterator::flat_map") and "self.buckets" in fmt_short(x[2][0]) for x in walk(e)) or \
        "self.buckets" in fmt_short(e)
    sees_nodes = False
    sees_pending = False
    for cb in closure_tree(facts, ti.path):
        rule.analysed(cb)
        cp = Prov(cb, facts)
        ce = cp.local(0)
        for x in walk(ce):
            if x[0] == "call":
                n = short(x[1])
                if n.endswith("KBucket::iter") or n.endswith("KBucket::iter_mut"):
                    sees_nodes = True
                if n.endswith("KBucket::pending") or n.endswith("KBucket::pending_mut"):
                    sees_pending = True
            if x[0] == "field" and x[2] == "pending":
                sees_pending = True
            if x[0] == "field" and x[2] == "nodes":
                sees_nodes = True
    rule.check(ok_all_buckets and sees_nodes, "table_iter walks the nodes of every bucket", "table_iter|nodes",
               "table_iter does not iterate the nodes of all buckets: %s" % fmt_short(e), loc=ti.loc(ti.line))
    rule.check(sees_pending, "table_iter also yields each bucket's pending node", "table_iter|pending-not-counted",
               "the iterator given to the table filter walks bucket nodes only: a pending node is not counted, so after its "
               "promotion the table can hold limit+1 nodes of one /24", loc=ti.loc(ti.line))
    # the filter call sites use table_iter
    n = 0
    for fn in ("insert_or_update", "update_node"):
        b = facts.one(KT + fn)
        rule.analysed(b)
        bp = Prov(b, facts)
        for bi, t in b.calls():
            if (t.callee() or "").endswith("kbucket::filter::Filter::filter") and "table_filter" in fmt_short(bp.operand(t.args[0])):
                n += 1
                it = bp.operand(t.args[2])
                okk = all(x[0] == "call" and x[1].endswith("::table_iter") for x in roots(it)) and roots(it)
                val = roots(bp.operand(t.args[1]))
                okv = val == {("param", b_idx(b, "value"), "value")}
                rule.check(okk and okv, "%s: table_filter.filter(&value, table_iter())" % fn, "%s|filter-args" % fn,
                           "%s consults the table filter with (%s, %s)" % (fn, fmt_short(bp.operand(t.args[1])), fmt_short(it)), loc=b.loc(t.line))
    if n < 2:
        rule.fail("table-filter|sites", "table filter call sites found: %d (2 confirmed by hand)" % n)
    return rule


def b_idx(b, name):
    for l in range(1, b.arg_count + 1):
        if b.local_name(l) == name:
            return l
    raise AnchorError("%s has no parameter %s" % (b.path, name))


def r2(ctx):
    facts = ctx.facts
    rule = Rule("C16.R2", "every value write is filtered (table filter on the table's paths, bucket filter inside the bucket); "
                "filter bypasses are unused", floor=6, engine="A-path (flags) + A-dom + A-who")
    for fn in ("insert_or_update", "update_node"):
        b = facts.one(KT + fn)
        rule.analysed(b)
        prov = Prov(b, facts)
        fe = FlagEngine(b, prov)
        g = Guards(b, prov, facts)
        fail_edges = set()
        for bi, t, e in g.switches():
            inner = e
            neg = False
            while inner[0] == "un" and inner[1] == "Not":
                inner = inner[2]
                neg = not neg
            is_tv = lambda a: a[0] == "call" and a[1].endswith("kbucket::filter::Filter::filter") and "table_filter" in fmt_short(a[2][0])
            alts_ = list(inner[1]) if inner[0] == "phi" else [inner]
            # the verdict, or a value that is the verdict or `true` (no filter set / unchanged value) - what a helper `passes_table_filter` returns
            if any(is_tv(a) for a in alts_) and all(is_tv(a) or const_int_of(a) == 1 for a in alts_):
                f, tr = g.bool_edges(bi)
                fail_edges.add((bi, tr if neg else f))
        writes = [(bi, t) for bi, t in b.calls() if (t.callee() or "").startswith("crate::kbucket::bucket::KBucket::") and
                  t.callee().split("::")[-1] in ("insert", "update_value")]
        # the filter's verdict may also be stored in a flag variable and tested later (`passed = table_filter.filter(..); if !passed {..}`)
        verdict_calls = {}
        verdict_tmps = set()
        for bi, t in b.calls():
            if any(short(n_).endswith("kbucket::filter::Filter::filter") or n_.endswith("kbucket::filter::Filter::filter") for n_ in t.names()) and \
                    "table_filter" in fmt_short(prov.operand(t.args[0])) and t.dest.is_local():
                if t.dest.local in fe.index:
                    verdict_calls[bi] = t.dest.local
                else:
                    verdict_tmps.add(t.dest.local)
        verdict_moves = {}     # block -> flag local assigned from a verdict temporary
        for blk in b.blocks:
            for s_ in blk.stmts:
                if s_.k == "a" and s_.lhs.is_local() and s_.lhs.local in fe.index and s_.rv.k == "use" and s_.rv.ops[0].place is not None and \
                        s_.rv.ops[0].place.is_local() and s_.rv.ops[0].place.local in verdict_tmps:
                    verdict_moves[blk.idx] = s_.lhs.local
        if not (fail_edges or verdict_calls or verdict_moves) or not writes:
            raise AnchorError("%s: table filter test or bucket writes not found" % fn)

        # the table filter may be skipped only for an unchanged value (or when no filter is configured)
        pass_true = []
        for bi, t, e in g.switches():
            inner, neg = e, False
            while inner[0] == "un" and inner[1] == "Not":
                inner, neg = inner[2], not neg
            alts_ = list(inner[1]) if inner[0] == "phi" else [inner]
            if any(is_tv(a) for a in alts_) and all(is_tv(a) or const_int_of(a) == 1 for a in alts_):
                f, tr = g.bool_edges(bi)
                pass_true.append((bi, f if neg else tr))
        none_edges = []
        for bi, t, e in g.switches():
            if e[0] == "discr" and fmt_short(e[1]) == "self.table_filter":
                none_edges += [(bi, s_) for s_ in t.succs() if s_ not in [tb for v, tb in t.vals if v == 1]]
        unchanged = []
        for bi, t, e in g.switches():
            inner, neg = e, False
            while inner[0] == "un" and inner[1] == "Not":
                inner, neg = inner[2], not neg
            alts = inner[1] if inner[0] == "phi" else (inner,)
            some, good = False, True
            for a in alts:
                if const_int_of(a) == 0:
                    continue
                c = comparison(a)
                if c and c[0] == "==" and {fmt_short(c[1]).split(".")[-1], fmt_short(c[2])} == {"value"}:
                    # `<stored node>.value == value` (the stored node may have been looked up in a closure of a combinator chain)
                    some = True
                else:
                    good = False
            if some and good:
                f, tr = g.bool_edges(bi)
                unchanged.append((bi, f if neg else tr))
        okset = set(pass_true + none_edges + unchanged)

        def transfer(bidx, st):
            vals, failed, okk, holds = st
            before = vals
            vals = fe.apply_stmts(bidx, vals)
            # a flag overwritten with a constant no longer holds the filter's verdict
            holds = frozenset(l for l in holds if vals[fe.index[l]] == before[fe.index[l]] and vals[fe.index[l]] is None)
            if bidx in verdict_moves:
                l = verdict_moves[bidx]
                v2 = list(vals)
                v2[fe.index[l]] = None
                vals = tuple(v2)
                holds = holds | {l}
            t = b.blocks[bidx].term
            if t.k == "ret":
                yield None, (vals, failed, okk, holds)
                return
            if bidx in verdict_calls:
                l = verdict_calls[bidx]
                v2 = list(vals)
                v2[fe.index[l]] = None
                yield t.target, (tuple(v2), failed, okk, holds | {l})
                return
            sf = fe.switch_flag(bidx)
            if sf is not None and sf[0] in holds:
                l, neg = sf
                f_t = [tb for v, tb in t.vals if v == 0]
                for s_ in t.succs():
                    is_false_edge = s_ in f_t
                    verdict = (not is_false_edge) != neg      # value of the flag on this edge
                    v2 = list(vals)
                    v2[fe.index[l]] = verdict
                    yield s_, (tuple(v2), failed or not verdict, okk or verdict, holds - {l})
                return
            for s_ in fe.successors(bidx, vals):
                yield s_, (vals, failed or ((bidx, s_) in fail_edges), okk or ((bidx, s_) in okset), holds)
        states, exits, parent = propagate(b, (fe.initial(), False, False, frozenset()), transfer)
        for bi, t in writes:
            bad = [st for st in states.get(bi, ()) if not st[2]]
            rule.check(not bad, "%s: KBucket::%s only after the table filter accepted the value, the value is unchanged, or no table filter is set" % (
                fn, t.callee().split("::")[-1]), "%s|%s-unfiltered" % (fn, t.callee().split("::")[-1]),
                "%s can write a new value into a bucket (KBucket::%s) without the table filter having been consulted" % (fn, t.callee().split("::")[-1]),
                loc=b.loc(t.line))
        for bi, t in writes:
            bad = [st for st in states.get(bi, ()) if st[1]]
            rule.check(not bad, "%s: KBucket::%s is not reached after the table filter refused the value" % (fn, t.callee().split("::")[-1]),
                       "%s|%s-after-refusal" % (fn, t.callee().split("::")[-1]),
                       "%s writes the value into the bucket although the table filter returned false" % fn, loc=b.loc(t.line))
    # bucket level
    for fn, kind in (("insert", "node"), ("update_value", "value"), ("apply_pending", "pending")):
        b = facts.one(KBK + fn)
        rule.analysed(b)
        prov = Prov(b, facts)
        g = Guards(b, prov, facts)
        pass_edges = []
        no_filter_edges = []
        for bi, t, e in g.switches():
            inner = e
            neg = False
            while inner[0] == "un" and inner[1] == "Not":
                inner = inner[2]
                neg = not neg
            is_v = lambda a: a[0] == "call" and a[1].endswith("kbucket::filter::Filter::filter") and "self.filter" in fmt_short(a[2][0])
            alts_ = list(inner[1]) if inner[0] == "phi" else [inner]
            # the verdict itself, or a helper's `match self.filter { Some(f) => f.filter(..), None => true }` (verdict or "no filter set")
            if any(is_v(a) for a in alts_) and all(is_v(a) or const_int_of(a) == 1 for a in alts_):
                f, tr = g.bool_edges(bi)
                pass_edges.append((bi, f if neg else tr))
            if e[0] == "discr" and fmt_short(e[1]) == "self.filter":
                for v, tb in t.vals:
                    if v == 0:
                        no_filter_edges.append((bi, tb))
                if [v for v, _ in t.vals] == [1]:
                    no_filter_edges.append((bi, t.otherwise))
        writes = []
        for bi, t in b.calls():
            if callee_matches(t, r"arrayvec::ArrayVec::<.*>::(push|insert|try_push|try_insert)$") and "self.nodes" in fmt_short(prov.operand(t.args[0])):
                writes.append((bi, t))
            if fn == "apply_pending" and (t.callee() or "") == "crate::kbucket::bucket::KBucket::insert":
                pass   # delegated to insert, which is checked itself
        if fn == "update_value":
            # the re-insertion of the unchanged node on the `node.value == value` branch writes no new value
            unchanged = []
            for bi, t, e in g.switches():
                c = comparison(e)
                if c and c[0] == "==" and {fmt_short(c[1]).split(".")[-1], fmt_short(c[2])} >= {"value"}:
                    f, tr = g.bool_edges(bi)
                    unchanged.append((bi, tr))
            pass_edges += unchanged
        if not writes:
            raise AnchorError("KBucket::%s: node writes not found" % fn)
        if not pass_edges:
            rule.fail("KBucket::%s|unfiltered-write" % fn, "KBucket::%s adds a %s to the bucket and never consults the bucket filter (a pending node was filtered against the "
                      "bucket as it was when it became pending; other members may have changed since)" % (fn, kind) if fn == "apply_pending" else
                      "KBucket::%s adds a %s to the bucket and never consults the bucket filter" % (fn, kind), loc=b.loc(b.line))
            continue
        r = b.reachable(0, removed_edges=pass_edges + no_filter_edges)
        bad = [bi for bi, _ in writes if bi in r]
        rule.check(not bad, "KBucket::%s writes into nodes only past the bucket filter (or when no filter is set)" % fn,
                   "KBucket::%s|unfiltered-write" % fn, "KBucket::%s can add a %s to the bucket without consulting the bucket filter" % (fn, kind),
                   loc=b.loc(b.line))
        # the filter is asked about the value that is written
        for bi, t in b.calls():
            if (t.callee() or "").endswith("kbucket::filter::Filter::filter") and "self.filter" in fmt_short(prov.operand(t.args[0])):
                v = fmt_short(prov.operand(t.args[1]))
                want = {"insert": "node.value", "update_value": "value", "apply_pending": "self.pending"}[fn]
                rule.check(want in v, "KBucket::%s filters %s" % (fn, v), "KBucket::%s|filter-value" % fn,
                           "KBucket::%s asks the bucket filter about %s" % (fn, v), loc=b.loc(t.line))
    # bypasses unused
    for who in ("PresentEntry", "PendingEntry"):
        callers = facts.callers_of(lambda n: re.search(r"kbucket::entry::%s::<.*>::value_mut$|kbucket::entry::%s::value_mut$" % (who, who), n) is not None)
        rule.check(not callers, "%s::value_mut (filter bypass) has no caller in the crate" % who, "%s::value_mut|used" % who,
                   "%s::value_mut is called from %s: values change without passing the filters" % (who, sorted(callers)))
    return rule


def r3(ctx):
    facts = ctx.facts
    rule = Rule("C16.R3", "ip_filter shape and limits: refuse at count >= limit, same /24 counted, no IPv4 unrestricted; limits 10 / 2; installed iff ip_limit",
                floor=7, engine="A-aff + A-prov + A-dom")
    f = facts.one(r"crate::kbucket::filter::ip_filter")
    rule.analysed(f)
    prov = Prov(f, facts)
    g = Guards(f, prov, facts)
    false_sites, true_sites = [], []
    for lhs, kind, payload, blk, _l in prov.defs.get(0, ()):
        if kind == "rv" and payload.k == "use" and blk in f.live_blocks():
            c = payload.ops[0].const_int()
            (false_sites if c == 0 else true_sites).append(blk)
    # the limit test
    over_edges, under_edges, loose_edges = [], [], []
    for bi, t, e in g.switches():
        def atom(x):
            if x == ("param", 3, "limit"):
                return "limit"
            if x[0] == "phi":
                return "count"      # the loop-carried counter
            return None
        nc = normalised_cmp(e, atom)
        if not nc or "limit" not in nc[0] or nc[2] in ("==", "!="):
            continue
        others = [a for a in nc[0] if a != "limit"]
        if len(others) != 1 or nc[0][others[0]] != -nc[0]["limit"]:
            continue
        ivs = cmp_intervals(nc[0][others[0]], nc[1], nc[2])   # x = count - limit
        fl, tr = g.bool_edges(bi)
        for (lo, hi), edge in ((ivs[0], tr), (ivs[1], fl)):
            if lo is not None and lo >= 0:
                over_edges.append((bi, edge))
            elif hi is not None and hi <= -1:
                under_edges.append((bi, edge))
            else:
                loose_edges.append((bi, edge, lo, hi))
    ok = bool(over_edges) and bool(false_sites)
    if ok:
        # reaching count >= limit leads to `false`
        for sb, tgt in over_edges:
            r = f.reachable(tgt, removed_blocks=false_sites)
            if any(x in r for x in f.return_blocks()):
                ok = False
        # false only past an over edge
        r = f.reachable(0, removed_edges=over_edges)
        if any(s in r for s in false_sites):
            ok = False
    if loose_edges:
        ok = False
    rule.check(ok, "ip_filter returns false exactly on the count >= limit edge", "ip_filter|limit-test",
               "ip_filter does not refuse exactly when the number of same-subnet values reaches the limit", loc=f.loc(f.line))
    # the /24 comparison: both sides are octets()[0..3]
    sub_ok = False
    for bi, t, e in g.switches():
        c = comparison(e)
        inner = e
        if inner[0] == "call" and short(inner[1]).endswith("cmp::eq") or (c and c[0] == "=="):
            sides = (c[1], c[2]) if c else inner[2]
            good = 0
            for sd in sides:
                rng = [x for x in walk(sd) if x[0] == "agg" and x[1].endswith("ops::Range::Range")]
                oct_ = any(x[0] == "call" and short(x[1]).endswith("Ipv4Addr::octets") for x in walk(sd))
                if rng and oct_:
                    fr = dict(rng[0][2])
                    if const_int_of(fr["start"]) == 0 and const_int_of(fr["end"]) == 3:
                        good += 1
            if good == 2:
                s0, s1 = fmt_short(sides[0]), fmt_short(sides[1])
                if ("value_to_be_inserted" in s0) != ("value_to_be_inserted" in s1):
                    sub_ok = True
    rule.check(sub_ok, "same subnet = first three IPv4 octets of the candidate and of the stored value are equal", "ip_filter|subnet",
               "ip_filter no longer compares octets()[0..3] of the inserted value with those of each stored value", loc=f.loc(f.line))
    # every stored value is looked at: a candidate with an IPv4 address is accepted (`true`) only once the iterator is exhausted, i.e. past
    # the None edge of `other_vals.next()` - a `break` out of the loop would hide all values that come later in the iteration order
    nexts = [(bi, t) for bi, t in f.calls() if callee_matches(t, r"Iterator>::next$") and "other_vals" in fmt_short(prov.operand(t.args[0]))]
    exhausted = []
    for bi, t, e in g.switches():
        if e[0] == "discr" and e[1][0] == "call" and re.search(r"Iterator>::next$", short(e[1][1])) and "other_vals" in fmt_short(e[1]):
            exhausted += [(bi, s_) for s_ in t.succs() if s_ not in [tb for v, tb in t.vals if v == 1]]
    has_ip = []
    for bi, t, e in g.switches():
        if e[0] == "discr" and fmt_short(e[1]) == "Enr::ip4(value_to_be_inserted)":
            has_ip += [(bi, tb) for v, tb in t.vals if v == 1]
    ok = bool(nexts) and bool(exhausted) and bool(has_ip) and bool(true_sites)
    for sb, tgt in has_ip:
        r = f.reachable(tgt, removed_edges=exhausted)
        if any(x in r for x in true_sites):
            ok = False
    rule.check(ok, "a candidate with an IPv4 address is accepted only after every stored value was visited (iterator exhausted)", "ip_filter|early-exit",
               "ip_filter can accept a candidate before it has looked at every stored value (the loop is left early): values later in the iteration order are not counted",
               loc=f.loc(f.line))
    # no IPv4 -> true without counting
    none_edges = []
    for bi, t, e in g.switches():
        if e[0] == "discr" and fmt_short(e[1]) == "Enr::ip4(value_to_be_inserted)":
            for s_ in t.succs():
                if s_ not in [tb for v, tb in t.vals if v == 1]:
                    none_edges.append((bi, s_))
    ok = bool(none_edges)
    for sb, tgt in none_edges:
        r = f.reachable(tgt)
        if any(s in r for s in false_sites):
            ok = False
    rule.check(ok, "records without an IPv4 address are not restricted", "ip_filter|no-ipv4", "ip_filter can refuse a record that has no IPv4 address", loc=f.loc(f.line))
    # constants and their use
    tv = facts.const_value("crate::kbucket::filter::MAX_NODES_PER_SUBNET_TABLE")
    bv = facts.const_value("crate::kbucket::filter::MAX_NODES_PER_SUBNET_BUCKET")
    rule.check(tv == 10 and bv == 2, "limits evaluate to 10 (table) and 2 (bucket)", "limits|values", "subnet limits evaluate to %d (table) / %d (bucket)" % (tv, bv))
    for ty, cname in (("IpTableFilter", "MAX_NODES_PER_SUBNET_TABLE"), ("IpBucketFilter", "MAX_NODES_PER_SUBNET_BUCKET")):
        b = facts.one(r"<crate::kbucket::filter::%s as crate::kbucket::filter::Filter<enr::Enr.*>>::filter" % ty)
        rule.analysed(b)
        p = Prov(b, facts)
        e = p.local(0)
        okk = e[0] == "call" and e[1] == "crate::kbucket::filter::ip_filter" and cname in fmt_short(e[2][2]) and \
            fmt_short(e[2][0]) == "value_to_be_inserted" and fmt_short(e[2][1]) == "other_vals"
        rule.check(okk, "%s = ip_filter(value, others, %s)" % (ty, cname), "%s|delegation" % ty, "%s::filter is %s" % (ty, fmt_short(e)), loc=b.loc(b.line))
    # installation
    dn = facts.one(r"crate::discv5::Discv5::new")
    rule.analysed(dn)
    p = Prov(dn, facts)
    g = Guards(dn, p, facts)
    on_edges = []
    for bi, t, e in g.switches():
        if fmt_short(e) == "config.ip_limit" or roots(e) == {("field", ("param", 3, "config"), "ip_limit")}:
            on_edges.append((bi, g.bool_edges(bi)))
    mk = []
    for blk in dn.blocks:
        for s in blk.stmts:
            if s.k == "a" and s.rv.k == "agg" and s.rv.j.get("def", "").startswith("crate::kbucket::filter::Ip") and blk.idx in dn.live_blocks():
                mk.append((blk.idx, s.rv.j["def"].split("::")[-1]))
    kinds = sorted(set(k for _, k in mk))
    ok = kinds == ["IpBucketFilter", "IpTableFilter"] and len(on_edges) == 1
    if ok:
        sb, (fl, tr) = on_edges[0]
        r_off = dn.reachable(fl)
        r_on = dn.reachable(0, removed_edges=[(sb, tr)])
        ok = not any(bi in r_on for bi, _ in mk)
        # on the enabled edge both are constructed (must-pass for the table construction)
        tbl = [bi for bi, t in dn.calls() if callee_matches(t, r"kbucket::KBucketsTable::<.*>::new$")]
        for kind in kinds:
            blocks = [bi for bi, k in mk if k == kind]
            rr = dn.reachable(tr, removed_blocks=blocks)
            if any(x in rr for x in tbl):
                ok = False
    rule.check(ok, "Discv5::new installs IpTableFilter and IpBucketFilter exactly on config.ip_limit", "Discv5::new|install",
               "Discv5::new does not install both IP filters exactly when config.ip_limit is set", loc=dn.loc(dn.line))
    # they reach the table constructor in the right slots
    for bi, t in dn.calls():
        if callee_matches(t, r"kbucket::KBucketsTable::<.*>::new$"):
            a3, a4 = fmt_short(p.operand(t.args[3])), fmt_short(p.operand(t.args[4]))
            a3, a4 = fmt(p.operand(t.args[3])), fmt(p.operand(t.args[4]))
            rule.check("IpTableFilter" in a3 and "IpBucketFilter" in a4 and "IpBucketFilter" not in a3 and "IpTableFilter" not in a4,
                       "KBucketsTable::new(.., table_filter, bucket_filter) receives them in this order", "Discv5::new|slots",
                       "KBucketsTable::new receives (%s, %s) as (table_filter, bucket_filter)" % (a3, a4), loc=dn.loc(t.line))
    return rule


def run(ctx):
    G = lambda l, f, *a: guarded("C16." + l, f, ctx, *a)
    return G("R1", r1) + G("R2", r2) + G("R3", r3)
