"""C01 — Handshake proves node identity."""
import re

from analysis import (Prov, Guards, fmt, fmt_short, walk, roots, short, comparison, find_calls, callee_matches,
                      must_pass, path_to, describe_path, peel_await, edge_label, closures_of, closure_return_in_caller_terms, const_int_of, option_edges)
from facts import AnchorError, strip_closure
from harness import Rule, guarded

PID = "C01"
EXPLANATION = (
    "Dominance and provenance rules over the MIR of the handshake code. R1: establish_from_challenge returns Ok only "
    "past the true edge of verify_authentication_nonce, whose arguments derive from the function's own parameters. "
    "R2 (key binding): the public key handed to the verification may derive from the record attached to the handshake "
    "only on paths that passed an equality between that record's node_id() and the claimed source id (the guard may "
    "sit in the session code, the handler or the packet decoder). R3: sessions are inserted/updated only in "
    "new_session, which is called only from handle_challenge and handle_auth_message, there past the Ok edge of "
    "establish_from_challenge and for the NodeAddress built from the packet's src_id and source address. R4: every "
    "HandlerOut::Established for a network-supplied record is guarded by verify_enr(record, node_address) = true, and "
    "verify_enr returns true only past node_id equality. R5: sign and verify build their message with the one "
    "generate_signing_nonce, which appends challenge data, ephemeral key and destination id; verification returns "
    "true only on verify_digest(..).is_ok(). R6: UnverifiableEnr carries the authenticated NodeAddress's id and the "
    "service removes exactly that id. Violating R2 admits the two-packet forgery: claim id X, attach one's own "
    "record, sign with one's own key.")
NOT_DECIDED = ["strength of ECDSA / ECDH / HKDF", "that the service's find_enr returns a record for the asked id (table integrity is C07/C12)"]
TRUSTED = ["k256 verify_digest, enr::Enr::public_key/node_id", "AES-GCM (C02)"]

H = "crate::handler::Handler::"
S = "crate::handler::session::Session::"
CR = "crate::handler::crypto::"


def body_of(facts, fn):
    b = facts.bodies.get(fn + "::{closure#0}")
    if b is not None and b.coroutine:
        return b
    b = facts.bodies.get(fn)
    if b is None:
        raise AnchorError("no body for %s" % fn)
    return b


def derives(e, pred):
    return any(pred(x) for x in walk(e))


def is_param(name):
    return lambda x: (x[0] == "param" and x[2] == name) or x == ("upvar", name)


def bool_pass_edges(g, pred, want_true=True):
    """edges of switches on a bool expression e (possibly negated) with pred(e) true: the edge on which e holds"""
    out = []
    for bi, t, e in g.switches():
        neg = False
        while e[0] == "un" and e[1] == "Not":
            e = e[2]
            neg = not neg
        if not pred(e):
            continue
        f, tr = g.bool_edges(bi)
        holds = f if neg else tr
        fails = tr if neg else f
        out.append((bi, holds if want_true else fails))
    return out


def id_binding_edges(body, prov, g, record_pred, id_pred):
    """edges implying the attached record is absent, or that its node_id equals the claimed id"""
    edges = []
    tests = []
    for bi, t, e in g.switches():
        if e[0] == "discr":
            rs = roots(e[1])
            if rs and all(record_pred(r) or (r[0] in ("as", "field") and derives(r, record_pred)) for r in rs):
                # Option: 0 = None
                names, _ = g.variant_names(bi)
                for v, tb in t.vals:
                    if v == 0:
                        edges.append((bi, tb))
                if 0 not in [v for v, _ in t.vals] and 1 in [v for v, _ in t.vals]:
                    edges.append((bi, t.otherwise))
            continue
        c = comparison(e)
        if c and c[0] in ("==", "!="):
            for a, b_ in ((c[1], c[2]), (c[2], c[1])):
                a_ok = any(x[0] == "call" and short(x[1]).endswith("Enr::node_id") and derives(x, record_pred) for x in walk(a))
                b_ok = derives(b_, id_pred) and not derives(b_, record_pred)
                if a_ok and b_ok:
                    f, tr = g.bool_edges(bi)
                    edges.append((bi, tr if c[0] == "==" else f))
                    tests.append(t.line)
                    break
    return edges, tests


def r1_r2(ctx):
    facts = ctx.facts
    r1 = Rule("C01.R1", "establish_from_challenge returns Ok only past verify_authentication_nonce = true; its "
              "arguments derive from the function's parameters", floor=2, engine="A-dom + A-prov")
    r2 = Rule("C01.R2", "the key used to verify the id-signature derives from the attached record only past "
              "record.node_id() == claimed source id", floor=1, engine="A-dom + A-prov (interprocedural guard search)")
    b = facts.one(re.escape(S) + "establish_from_challenge")
    r1.analysed(b)
    r2.analysed(b)
    prov = Prov(b, facts)
    g = Guards(b, prov, facts)
    ver = [(bi, t) for bi, t in b.calls() if (t.callee() or "") == CR + "verify_authentication_nonce"]
    if len(ver) != 1:
        raise AnchorError("expected one call to verify_authentication_nonce in establish_from_challenge, found %d" % len(ver))
    vbi, vt = ver[0]
    vkey = (b.path, vbi)
    pass_edges = bool_pass_edges(g, lambda e: e[0] == "call" and e[3] == vkey)
    oks = [blk for lhs, kind, payload, blk, _l in prov.defs.get(0, ()) if kind == "rv" and payload.k == "agg"
           and payload.j.get("variant") == "Ok" and blk in b.live_blocks()]
    if not oks:
        raise AnchorError("establish_from_challenge has no Ok return")
    r = b.reachable(0, removed_edges=pass_edges)
    r1.check(bool(pass_edges) and not any(o in r for o in oks), "Ok(session) only past verify_authentication_nonce == true",
             "establish|ok-without-verify", "establish_from_challenge can return Ok without the id-signature having verified",
             loc=b.loc(vt.line))
    args = [prov.operand(a) for a in vt.args]
    want = {1: "ephem_pubkey", 3: "local_id", 4: "id_nonce_sig"}
    ok = all(roots(args[i]) == {("param", b_idx(b, n), n)} for i, n in want.items())
    ok = ok and all(x[0] == "field" and x[2] == "data" and x[1][0] == "param" and x[1][2] == "challenge" for x in roots(args[2]))
    r1.check(ok, "verify_authentication_nonce(key, ephem_pubkey, challenge.data, local_id, id_nonce_sig)",
             "establish|verify-args", "verify_authentication_nonce is not called with (ephem_pubkey, challenge.data, local_id, id_nonce_sig) of this handshake: %s"
             % [fmt_short(a) for a in args], loc=b.loc(vt.line))
    # session keys are bound to both ids and to the same challenge
    dk = [(bi, t) for bi, t in b.calls() if (t.callee() or "") == CR + "derive_keys_from_pubkey"]
    for bi, t in dk:
        a = [prov.operand(x) for x in t.args]
        ok = roots(a[1]) == {("param", b_idx(b, "local_id"), "local_id")} and roots(a[2]) == {("param", b_idx(b, "remote_id"), "remote_id")} \
            and all(x[0] == "field" and x[2] == "data" for x in roots(a[3])) and roots(a[4]) == {("param", b_idx(b, "ephem_pubkey"), "ephem_pubkey")}
        r1.check(ok, "session keys derive from (local_id, remote_id, challenge.data, ephem_pubkey)", "establish|derive-args",
                 "derive_keys_from_pubkey is not bound to this handshake's ids / challenge: %s" % [fmt_short(x) for x in a], loc=b.loc(t.line))
    # ---- R2
    key_e = args[0]
    pk = [x for x in walk(key_e) if x[0] == "call" and short(x[1]).endswith("Enr::public_key")]
    rec = is_param("enr_record")
    tainted = any(derives(x, rec) for x in pk) or derives(key_e, rec)
    if not pk:
        r2.fail("establish|key-source", "the verification key does not come from Enr::public_key: %s" % fmt_short(key_e), loc=b.loc(vt.line))
        return r1, r2
    if not tainted:
        r2.ok("verification key never derives from the attached record", fmt_short(key_e))
        return r1, r2
    # level 0: inside establish_from_challenge
    e0, tests0 = id_binding_edges(b, prov, g, rec, is_param("remote_id"))
    r = b.reachable(0, removed_edges=e0)
    # path-sensitive: only paths on which the attached record is the one selected for the key need the binding test
    sel = selection_blocks(b, prov, key_operand_local(b, vt), rec)
    if sel:
        unguarded_sel = [sb for sb in sel if sb in r and vbi in b.reachable(sb, removed_edges=e0)]
        guarded = not unguarded_sel and bool(tests0)
    else:
        unguarded_sel = []
        guarded = vbi not in r and bool(tests0)
    where = "establish_from_challenge (lines %s)" % tests0
    chain = []
    if not guarded:
        # level 1: handle_auth_message guards its call; level 2: process_inbound_packet; level 3: the decoder
        ham = body_of(facts, H + "handle_auth_message")
        r2.analysed(ham)
        p1 = Prov(ham, facts)
        g1 = Guards(ham, p1, facts)
        calls = [(bi, t) for bi, t in ham.calls() if (t.callee() or "") == S + "establish_from_challenge"]
        e1, tests1 = id_binding_edges(ham, p1, g1, lambda x: x == ("upvar", "enr_record"),
                                      lambda x: x == ("upvar", "node_address"))
        if calls and tests1 and all(bi not in ham.reachable(0, removed_edges=e1) for bi, _ in calls):
            guarded, where = True, "handle_auth_message (lines %s)" % tests1
    if not guarded:
        pip = body_of(facts, H + "process_inbound_packet")
        r2.analysed(pip)
        p2 = Prov(pip, facts)
        g2 = Guards(pip, p2, facts)
        calls = [(bi, t) for bi, t in pip.calls() if (t.callee() or "") == H + "handle_auth_message"]
        recp = lambda x: x[0] == "field" and x[2] == "enr_record"
        idp = lambda x: x[0] == "field" and x[2] == "src_id"
        e2, tests2 = id_binding_edges(pip, p2, g2, recp, idp)
        if calls and tests2 and all(bi not in pip.reachable(0, removed_edges=e2) for bi, _ in calls):
            guarded, where = True, "process_inbound_packet (lines %s)" % tests2
    if not guarded:
        dec = facts.one(r"crate::packet::PacketKind::decode")
        r2.analysed(dec)
        p3 = Prov(dec, facts)
        g3 = Guards(dec, p3, facts)
        sites = []
        for blk in dec.blocks:
            for s in blk.stmts:
                if s.k == "a" and s.rv.k == "agg" and s.rv.j.get("def") == "crate::packet::PacketKind" and s.rv.j.get("variant") == "Handshake" \
                        and blk.idx in dec.live_blocks():
                    sites.append((blk.idx, s))
        if sites:
            ok_all = True
            t3 = []
            for bi, s in sites:
                f = dict(zip(s.rv.j["fields"], s.rv.ops))
                rec_e = p3.operand(f["enr_record"])
                id_e = p3.operand(f["src_id"])
                rec_roots = roots(rec_e)
                id_roots = roots(id_e)
                e3, tests3 = id_binding_edges(dec, p3, g3, lambda x: x in rec_roots or any(x == y for y in walk(rec_e) if y[0] == "call"),
                                              lambda x: x in id_roots)
                t3 += tests3
                if not tests3 or bi in dec.reachable(0, removed_edges=e3):
                    ok_all = False
            if ok_all:
                guarded, where = True, "PacketKind::decode (lines %s)" % t3
    if guarded:
        r2.ok("attached record bound to the claimed id in %s" % where, "key: %s" % fmt_short(key_e))
    else:
        p = None
        for sb in unguarded_sel:
            p1_ = path_to(b, [sb], removed_edges=e0)
            p2_ = path_to(b, [vbi], removed_edges=e0, start=sb)
            if p1_ and p2_:
                p = p1_ + p2_[1:]
                break
        if p is None:
            p = path_to(b, [vbi], removed_edges=e0)
        labs = []
        for i in range(len(p or []) - 1):
            t = b.blocks[p[i]].term
            if t.k == "switch" and not t.exp:
                labs.append(edge_label(b, prov, p[i], p[i + 1]))
        r2.fail("establish|unbound-record-key",
                "the id-signature is verified under the public key of the record attached to the handshake without any "
                "check that this record's node_id equals the claimed source id (path: %s): a party may claim id X, attach its own "
                "record and sign with its own key" % labs[:6],
                loc=b.loc(vt.line), site="key binding of the handshake record", path=describe_path(b, p or []))
    return r1, r2


def key_operand_local(b, vt):
    """the local behind the verification-key argument: the receiver of the Enr::public_key call feeding verify"""
    if vt.args[0].place is None:
        return None
    cur = vt.args[0].place.local
    for _ in range(8):
        nxt = None
        for blk in b.blocks:
            if blk.cleanup:
                continue
            for s in blk.stmts:
                if s.k == "a" and s.lhs.is_local() and s.lhs.local == cur:
                    if s.rv.k == "ref" and s.rv.place is not None:
                        nxt = s.rv.place.local
                    elif s.rv.k in ("use", "cast") and s.rv.ops and s.rv.ops[0].place is not None:
                        nxt = s.rv.ops[0].place.local
            t = blk.term
            if t.k == "call" and t.dest.is_local() and t.dest.local == cur and t.args and t.args[0].place is not None:
                if short(t.callee() or "").endswith("Enr::public_key"):
                    return t.args[0].place.local
                nxt = t.args[0].place.local
        if nxt is None:
            return None
        cur = nxt
    return None


def selection_blocks(b, prov, local, pred, depth=0, seen=None):
    """blocks in which `local` (or a local it is copied from) is assigned a value deriving from pred"""
    if local is None or depth > 6:
        return []
    seen = seen if seen is not None else set()
    if local in seen:
        return []
    seen.add(local)
    out = []
    for lhs, kind, payload, blk, _line in prov.defs.get(local, ()):
        if not lhs.is_local() or blk not in b.live_blocks():
            continue
        if kind == "rv":
            src = payload.ops[0].place if payload.k in ("use", "cast") and payload.ops else (payload.place if payload.k == "ref" else None)
            if src is not None and not all(x == "*" for x in src.proj):
                src = None
            if src is not None and len(prov.defs.get(src.local, ())) > 1:
                out += selection_blocks(b, prov, src.local, pred, depth + 1, seen)
                continue
            e = prov.rvalue(payload, blk)
            if derives(e, pred):
                if src is not None and len(prov.defs.get(src.local, ())) == 1 and (not b.local_name(src.local) or prov.defs[src.local][0][1] == "call"):
                    sub = selection_blocks(b, prov, src.local, pred, depth + 1, seen)
                    out += sub or [blk]
                else:
                    out.append(blk)
        elif kind == "call":
            if derives(prov.call(payload, blk), pred):
                # `(if flag { a } else { b }).expect(..)`: the choice was made where the unwrapped temporary was assigned
                a0 = payload.args[0].place if payload.args else None
                if a0 is not None and a0.is_local() and re.search(r"(Option|Result)::(expect|unwrap|unwrap_unchecked|unwrap_or_else|unwrap_or|unwrap_or_default)$", short(payload.callee() or "")):
                    sub = selection_blocks(b, prov, a0.local, pred, depth + 1, seen)
                    out += sub or [blk]
                else:
                    out.append(blk)
    return sorted(set(out))


def b_idx(b, name):
    for l in range(1, b.arg_count + 1):
        if b.local_name(l) == name:
            return l
    raise AnchorError("%s has no parameter %s" % (b.path, name))


def r3(ctx):
    facts = ctx.facts
    rule = Rule("C01.R3", "session creation is gated: inserted/updated only in new_session, called only from the two "
                "handshake handlers, past Ok of establish_from_challenge, for the packet's own NodeAddress", floor=6,
                engine="A-who + A-dom + A-prov")
    ins = facts.callers_of(lambda n: re.fullmatch(r"crate::lru_time_cache::LruTimeCache::<crate::node_info::NodeAddress, crate::handler::session::Session>::insert", n) is not None)
    upd = facts.callers_of(lambda n: n == S + "update")
    who = sorted(set(strip_closure(p) for p in list(ins) + list(upd)))
    rule.check(who == [H + "new_session"] and ins and upd, "sessions.insert / Session::update only in new_session", "sessions|writers",
               "sessions are inserted or re-keyed outside new_session: %s" % who)
    callers = sorted(set(strip_closure(p) for p in facts.callers_of(lambda n: n == H + "new_session")))
    rule.check(callers == [H + "handle_auth_message", H + "handle_challenge"], "callers of new_session: %s" % [c.split("::")[-1] for c in callers],
               "new_session|callers", "new_session is called from %s" % callers)
    sn = sorted(set(strip_closure(p) for p in facts.callers_of(lambda n: n == S + "new")))
    rule.check(sn == [S + "encrypt_with_header", S + "establish_from_challenge"], "Session::new only from the two handshake constructors",
               "Session::new|callers", "Session::new is called from %s" % sn)
    ham = body_of(facts, H + "handle_auth_message")
    rule.analysed(ham)
    prov = Prov(ham, facts)
    g = Guards(ham, prov, facts)
    est = [(bi, t) for bi, t in ham.calls() if (t.callee() or "") == S + "establish_from_challenge"]
    if len(est) != 1:
        raise AnchorError("handle_auth_message: expected one establish_from_challenge call")
    ekey = (ham.path, est[0][0])
    ok_edges = []
    for bi, t, e in g.switches():
        if e[0] == "discr" and e[1][0] == "call" and e[1][3] == ekey:
            names, _ = g.variant_names(bi)
            for v, tb in t.vals:
                if names.get(v) == "Ok":
                    ok_edges.append((bi, tb))
    ns = [(bi, t) for bi, t in ham.calls() if (t.callee() or "") == H + "new_session"]
    hm = [(bi, t) for bi, t in ham.calls() if (t.callee() or "") == H + "handle_message"]
    r = ham.reachable(0, removed_edges=ok_edges)
    rule.check(bool(ok_edges) and ns and not any(bi in r for bi, _ in ns + hm),
               "handle_auth_message: new_session and handle_message only past Ok(establish_from_challenge)", "auth|session-without-ok",
               "handle_auth_message reaches new_session / handle_message without a successful establish_from_challenge", loc=ham.loc(est[0][1].line))
    for bi, t in ns:
        a = prov.operand(t.args[1])
        s_ = prov.operand(t.args[2])
        okk = roots(a) == {("upvar", "node_address")} and all(
            x[0] == "field" and x[2] == "0" and derives(x, lambda y: y[0] == "call" and y[3] == ekey) for x in roots(s_))
        rule.check(okk, "new_session(node_address, session of this handshake)", "auth|session-args",
                   "handle_auth_message creates a session for %s with %s" % (fmt_short(a), fmt_short(s_)), loc=ham.loc(t.line))
    # remote_id passed to establish is the claimed id of the same NodeAddress
    a = prov.operand(est[0][1].args[2])
    rule.check(roots(a) == {("field", ("upvar", "node_address"), "node_id")}, "establish_from_challenge(remote_id = node_address.node_id)",
               "auth|remote-id", "establish_from_challenge is given %s as the remote id" % fmt_short(a), loc=ham.loc(est[0][1].line))
    # process_inbound_packet builds the NodeAddress from the packet
    pip = body_of(facts, H + "process_inbound_packet")
    rule.analysed(pip)
    pp = Prov(pip, facts)
    n = 0
    for bi, t in pip.calls():
        if (t.callee() or "") in (H + "handle_auth_message", H + "handle_message"):
            e = pp.operand(t.args[1])
            okk = False
            for x in roots(e):
                if x[0] == "agg" and x[1].endswith("NodeAddress::NodeAddress"):
                    f = dict(x[2])
                    sa = fmt_short(f["socket_addr"])
                    ni = fmt_short(f["node_id"])
                    okk = sa == "inbound_packet.src_address" and ni == "inbound_packet.header.kind.src_id"
            n += 1
            rule.check(okk, "%s gets NodeAddress{src_address, src_id} of the packet" % t.callee().split("::")[-1],
                       "inbound|node-address|%s" % t.callee().split("::")[-1],
                       "process_inbound_packet attributes the packet to %s" % fmt_short(e), loc=pip.loc(t.line))
    if n < 2:
        raise AnchorError("process_inbound_packet: handle_auth_message / handle_message calls not found")
    return rule


def whole_address_form(facts, ve):
    """verify_enr written as one comparison of whole socket addresses:
        let advertised = match node_address.socket_addr { V4(_) => enr.udp4_socket().map(SocketAddr::V4), V6(_) => enr.udp6_socket().map(SocketAddr::V6) };
        match advertised { Some(a) => a == node_address.socket_addr, None => true }
    Returns None if the function is not of this form, else {"fam": {arm: (record socket read, wrapper)}, "absent_passes": bool}."""
    p = Prov(ve, facts)
    g = Guards(ve, p, facts)
    ret = p.local(0)
    alts = list(ret[1]) if ret[0] == "phi" else [ret]
    cmps = [a for a in alts if const_int_of(a) not in (0, 1)]
    if len(cmps) != 1:
        return None
    c = comparison(cmps[0])
    if not c or c[0] != "==":
        return None
    obs = [x for x in (c[1], c[2]) if fmt_short(x) == "node_address.socket_addr"]
    adv = [x for x in (c[1], c[2]) if fmt_short(x) != "node_address.socket_addr"]
    if len(obs) != 1 or len(adv) != 1:
        return None
    opts = []
    for a in (adv[0][1] if adv[0][0] == "phi" else [adv[0]]):
        if not (a[0] == "field" and a[2] == "0" and a[1][0] == "as" and a[1][2] == "Some"):
            return None
        o = a[1][1]
        opts += list(o[1]) if o[0] == "phi" else [o]
    # which arm of `match node_address.socket_addr` builds which alternative
    arms = {}
    for bi, t, e in g.switches():
        if e[0] == "discr" and fmt_short(e[1]) == "node_address.socket_addr":
            names, _ = g.variant_names(bi)
            for v, tb in t.vals:
                arms[names.get(v, str(v))] = (tb, [ob for ov, ob in t.vals if ob != tb])
    fam = {}
    for x in opts:
        if not (x[0] == "call" and short(x[1]).endswith("Option::map") and len(x[2]) == 2 and x[3]):
            return None
        m = re.search(r"SocketAddr::(V4|V6)\b", fmt(x[2][1]))
        if not m:
            return None
        blk = x[3][1]
        for nm, (tb, others) in arms.items():
            if blk in ve.reachable(tb) and not any(blk in ve.reachable(ob) for ob in others):
                fam[nm] = (fmt_short(x[2][0]), m.group(1))
    # an absent endpoint passes: `true` is returned on the None edge of the option
    so, no = option_edges(g, lambda y: all(z in opts for z in (y[1] if y[0] == "phi" else [y])))
    true_blocks = [blk for lhs, kind, payload, blk, _l in p.defs.get(0, ()) if kind == "rv" and payload.k == "use" and payload.ops[0].const_int() == 1 and blk in ve.live_blocks()]
    absent = bool(no) and bool(true_blocks) and all(tb not in ve.reachable(0, removed_edges=no) for tb in true_blocks)
    cmp_blocks = [blk for lhs, kind, payload, blk, _l in p.defs.get(0, ()) if blk in ve.live_blocks() and not (kind == "rv" and payload.k == "use" and payload.ops[0].const_int() in (0, 1))]
    present = bool(so) and all(cb not in ve.reachable(0, removed_edges=so) for cb in cmp_blocks)
    return {"fam": fam, "absent_passes": absent, "present_compared": present}


def r4(ctx):
    facts = ctx.facts
    rule = Rule("C01.R4", "HandlerOut::Established for a network-supplied record only past verify_enr(record, "
                "node_address) = true; verify_enr true only past node_id equality", floor=4, engine="A-dom + A-prov")
    ve = facts.one(re.escape(H) + "verify_enr")
    rule.analysed(ve)
    prov = Prov(ve, facts)
    g = Guards(ve, prov, facts)
    eq_edges = []
    for bi, t, e in g.switches():
        c = comparison(e)
        if c and c[0] in ("==", "!="):
            s1, s2 = fmt_short(c[1]), fmt_short(c[2])
            if {s1, s2} == {"Enr::node_id(enr)", "node_address.node_id"}:
                f, tr = g.bool_edges(bi)
                eq_edges.append((bi, tr if c[0] == "==" else f))
    true_sites = []
    for lhs, kind, payload, blk, _l in prov.defs.get(0, ()):
        if blk not in ve.live_blocks():
            continue
        if kind == "rv" and payload.k == "use" and payload.ops[0].const_int() == 0:
            continue
        true_sites.append(blk)
    r = ve.reachable(0, removed_edges=eq_edges)
    rule.check(bool(eq_edges) and true_sites and not any(s in r for s in true_sites), "verify_enr returns non-false only past enr.node_id() == node_address.node_id",
               "verify_enr|id-equality", "verify_enr can return true for a record whose node_id differs from the session's id", loc=ve.loc(ve.line))
    # address clause (C12.R4 shares it): the is_none_or closures compare the two sockets
    clos = facts.find(re.escape(H) + r"verify_enr::\{closure#\d+\}")
    okc = 0
    for cb in clos:
        p = Prov(cb, facts)
        c = comparison(p.local(0))
        if c and c[0] == "==" and {fmt_short(c[1]), fmt_short(c[2])} == {"socket_addr", "advertized_addr"}:
            okc += 1
    if okc != 2:
        w = whole_address_form(facts, ve)
        if w and w["fam"].get("V4") == ("Enr::udp4_socket(enr)", "V4") and w["fam"].get("V6") == ("Enr::udp6_socket(enr)", "V6") and w["absent_passes"] and w["present_compared"]:
            okc = 2
    rule.check(okc == 2, "verify_enr compares the advertised udp4/udp6 socket with the observed one (absent passes)", "verify_enr|address",
               "verify_enr no longer compares the record's UDP socket with the observed source (%d of 2 closures)" % okc, loc=ve.loc(ve.line))
    # constructions of Established
    n = 0
    for fn in (H + "handle_auth_message", H + "handle_message", H + "handle_challenge"):
        b = body_of(facts, fn)
        prov = Prov(b, facts)
        g = Guards(b, prov, facts)
        for blk in b.blocks:
            if blk.idx not in b.live_blocks():
                continue
            for s in blk.stmts:
                if s.k == "a" and s.rv.k == "agg" and s.rv.j.get("def") == "crate::handler::HandlerOut" and s.rv.j.get("variant") == "Established":
                    n += 1
                    rule.analysed(b)
                    rec = prov.operand(s.rv.ops[0])
                    name = fn.split("::")[-1]
                    rr = roots(rec)
                    if fn.endswith("handle_challenge"):
                        okk = all(x[0] in ("as", "field", "call") and "NodeContact::enr(RequestCall::contact(" in fmt_short(x) for x in rr) and rr
                        rule.check(okk, "handle_challenge: Established carries the record of the request's own contact", "established|%s" % name,
                                   "handle_challenge reports %s as established" % fmt_short(rec), loc=b.loc(s.line))
                        addr = prov.operand(s.rv.ops[1])
                        rule.check("NodeContact::node_address(RequestCall::contact(" in fmt_short(addr), "handle_challenge: Established address is the contact's",
                                   "established|%s|addr" % name, "handle_challenge reports address %s" % fmt_short(addr), loc=b.loc(s.line))
                        continue
                    # guarded by verify_enr(rec, node_address) true edge
                    def is_ver(e):
                        return e[0] == "call" and e[1] == H + "verify_enr" and roots(e[2][1]) == rr and roots(e[2][2]) == {("upvar", "node_address")}
                    pe = bool_pass_edges(g, is_ver)
                    r = b.reachable(0, removed_edges=pe)
                    rule.check(bool(pe) and blk.idx not in r, "%s: Established(record) only past verify_enr(record, node_address)" % name,
                               "established|%s" % name, "%s reports a record as established without verify_enr(record, node_address) having passed" % name,
                               loc=b.loc(s.line))
                    addr = prov.operand(s.rv.ops[1])
                    rule.check(roots(addr) == {("field", ("upvar", "node_address"), "socket_addr")}, "%s: Established address is node_address.socket_addr" % name,
                               "established|%s|addr" % name, "%s reports address %s" % (name, fmt_short(addr)), loc=b.loc(s.line))
    if n < 3:
        rule.fail("established|count", "only %d constructions of HandlerOut::Established found (3 confirmed by hand)" % n)
    # nobody else constructs it
    others = []
    for p, b in facts.bodies.items():
        if strip_closure(p) in (H + "handle_auth_message", H + "handle_message", H + "handle_challenge") or p.startswith("<crate::handler::HandlerOut as"):
            continue
        for blk in b.blocks:
            for s in blk.stmts:
                if s.k == "a" and s.rv.k == "agg" and s.rv.j.get("def") == "crate::handler::HandlerOut" and s.rv.j.get("variant") == "Established":
                    others.append(p)
    rule.check(not others, "HandlerOut::Established is constructed only in the three handshake sites", "established|who",
               "HandlerOut::Established is also constructed in %s" % others)
    return rule


def r5(ctx):
    facts = ctx.facts
    rule = Rule("C01.R5", "what is signed: generate_signing_nonce appends challenge data, ephemeral key and destination "
                "id on every path; sign_nonce and verify_authentication_nonce both use it; verify returns true only on is_ok(verify_digest)",
                floor=4, engine="A-prov + A-sib + A-dom")
    gsn = facts.one(re.escape(CR) + "generate_signing_nonce")
    rule.analysed(gsn)
    prov = Prov(gsn, facts)
    # the returned vector
    ret_roots = roots(prov.local(0))
    ext = [(bi, t) for bi, t in gsn.calls() if callee_matches(t, r"vec::Vec::<u8>::extend_from_slice$|Vec::extend_from_slice$")]
    seen = {}
    for bi, t in ext:
        for x in walk(prov.operand(t.args[1])):
            if x[0] == "param":
                seen.setdefault(x[2], []).append(bi)
    rets = gsn.return_blocks()
    for pname in ("challenge_data", "ephem_pubkey", "dst_id"):
        blocks = seen.get(pname, [])
        rule.check(bool(blocks) and must_pass(gsn, rets, via_blocks=blocks), "signed message includes %s on every path" % pname,
                   "signing-nonce|%s" % pname, "generate_signing_nonce does not append %s: signatures are not bound to it" % pname,
                   loc=gsn.loc(gsn.line))
    # both users
    for fn in ("sign_nonce", "verify_authentication_nonce"):
        b = facts.one(re.escape(CR) + fn)
        rule.analysed(b)
        p = Prov(b, facts)
        calls = [(bi, t) for bi, t in b.calls() if (t.callee() or "") == CR + "generate_signing_nonce"]
        DIG = r"DigestVerifier.*::verify_digest$|DigestSigner.*::try_sign_digest$|::verify_digest$|::try_sign_digest$"
        # the digest call may sit in a closure handed to a combinator (`try_from(sig).is_ok_and(|s| key.verify_digest(.., &s).is_ok())`)
        digest = [(t, p.operand(t.args[1])) for bi, t in b.calls() if callee_matches(t, DIG)]
        for cb, cp, to_caller in closures_of(facts, b):
            digest += [(t, to_caller(cp.operand(t.args[1]))) for bi, t in cb.calls() if callee_matches(t, DIG)]
        okk = len(calls) == 1 and digest
        if okk:
            a = [fmt_short(p.operand(x)) for x in calls[0][1].args]
            names = [b.local_name(i) for i in range(1, b.arg_count + 1)]
            # arguments are the function's own (challenge data, ephemeral key, destination id)
            okk = all(x in names for x in a) and len(set(a)) == 3
            for t, msg in digest:
                okk = okk and derives(msg, lambda y: y[0] == "call" and y[1] == CR + "generate_signing_nonce")
        rule.check(okk, "%s hashes generate_signing_nonce(own parameters)" % fn, "signing-nonce|user|%s" % fn,
                   "%s does not sign/verify the output of generate_signing_nonce over its own parameters" % fn, loc=b.loc(b.line))
    van = facts.one(re.escape(CR) + "verify_authentication_nonce")
    p = Prov(van, facts)
    bad = []
    n_true = 0
    for lhs, kind, payload, blk, _l in p.defs.get(0, ()):
        if blk not in van.live_blocks():
            continue
        if kind == "rv" and payload.k == "use" and payload.ops[0].const_int() == 0:
            continue
        if kind == "call" and callee_matches(payload, r"result::Result::<.*>::is_ok$|Result::is_ok$"):
            e = p.operand(payload.args[0])
            if derives(e, lambda y: y[0] == "call" and short(y[1]).endswith("verify_digest")):
                n_true += 1
                continue
        if kind == "call" and callee_matches(payload, r"(result::Result|option::Option)::<.*>::(is_ok_and|is_some_and)$|(Result|Option)::(is_ok_and|is_some_and)$"):
            # `x.is_ok_and(|v| verify_digest(.., v).is_ok())`: true only if the closure returns true
            inner = closure_return_in_caller_terms(facts, p.operand(payload.args[1]), [("unknown", "payload")])
            if inner is not None and inner[0] == "call" and short(inner[1]).endswith("Result::is_ok") and \
                    derives(inner[2][0], lambda y: y[0] == "call" and short(y[1]).endswith("verify_digest")):
                n_true += 1
                continue
        bad.append(blk)
    rule.check(n_true >= 1 and not bad, "verify_authentication_nonce is true only as verify_digest(..).is_ok()", "verify|true-sites",
               "verify_authentication_nonce can return true without a successful verify_digest (blocks %s)" % bad, loc=van.loc(van.line))
    return rule


def r6(ctx):
    facts = ctx.facts
    rule = Rule("C01.R6", "UnverifiableEnr names the authenticated NodeAddress's id; the service removes exactly that id",
                floor=4, engine="A-prov + A-dom")
    nue = body_of(facts, H + "notify_unverifiable_enr")
    rule.analysed(nue)
    p = Prov(nue, facts)
    found = 0
    for blk in nue.blocks:
        for s in blk.stmts:
            if s.k == "a" and s.rv.k == "agg" and s.rv.j.get("variant") == "UnverifiableEnr":
                found += 1
                f = dict(zip(s.rv.j["fields"], [p.operand(o) for o in s.rv.ops]))
                rule.check(roots(f["node_id"]) == {("upvar", "node_id")} and roots(f["enr"]) == {("upvar", "enr")},
                           "notify_unverifiable_enr forwards its node_id / enr parameters", "unverifiable|fields",
                           "notify_unverifiable_enr builds the event from %s" % {k: fmt_short(v) for k, v in f.items()}, loc=nue.loc(s.line))
    if not found:
        raise AnchorError("construction of HandlerOut::UnverifiableEnr not found")
    callers = facts.callers_of(lambda n: n == H + "notify_unverifiable_enr")
    for pth in sorted(callers):
        cb = facts.bodies[pth]
        cp = Prov(cb, facts)
        for bi, t in callers[pth]:
            if t.callee() != H + "notify_unverifiable_enr":
                continue
            rule.analysed(cb)
            if len(t.args) < 4:
                rule.fail("unverifiable|caller|%s" % strip_closure(pth).split("::")[-1], "%s no longer hands notify_unverifiable_enr the authenticated node id: the id reported "
                          "as unverifiable (and removed from the routing table by the service) comes from the record, which the remote party chooses" % pth, loc=cb.loc(t.line))
                continue
            a = cp.operand(t.args[3])
            rule.check(roots(a) == {("field", ("upvar", "node_address"), "node_id")},
                       "%s: UnverifiableEnr.node_id = node_address.node_id" % strip_closure(pth).split("::")[-1],
                       "unverifiable|caller|%s" % strip_closure(pth).split("::")[-1],
                       "%s reports %s as the unverifiable node" % (pth, fmt_short(a)), loc=cb.loc(t.line))
    # service side
    st = body_of(facts, "crate::service::Service::start")
    rule.analysed(st)
    sp = Prov(st, facts)
    rem = [(bi, t) for bi, t in st.calls() if callee_matches(t, r"kbucket::KBucketsTable::<.*>::remove$|KBucketsTable::remove$")]
    hit = 0
    for bi, t in rem:
        e = sp.operand(t.args[1])
        s_ = fmt_short(e)
        if "UnverifiableEnr" in fmt(e) or ".node_id" in s_:
            hit += 1
            okk = all(derives(x, lambda y: y[0] == "field" and y[2] == "node_id") for x in roots(e)) and ".enr" not in s_
            rule.check(okk, "service removes the key built from the event's node_id", "service|unverifiable-remove",
                       "the UnverifiableEnr arm removes %s from the table" % s_, loc=st.loc(t.line))
    if not hit:
        rule.fail("service|unverifiable-arm", "the UnverifiableEnr arm of Service::start (kbuckets.remove) was not found", loc=st.loc(st.line))
    return rule


def run(ctx):
    G = lambda l, f, *a: guarded("C01." + l, f, ctx, *a)
    return G("R1-R2", r1_r2) + G("R3", r3) + G("R4", r4) + G("R5", r5) + G("R6", r6)
