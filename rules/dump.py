#!/usr/bin/env python3
"""debug aid: dump exported MIR of bodies matching a regex"""
import sys, glob
from facts import Facts
f = Facts(sys.argv[1])
for b in f.find(sys.argv[2]):
    print(b.dump())
    print()
