"""C11 — NODES responses are validated; honest peers are never banned."""
import re

from analysis import (Prov, Guards, fmt, fmt_short, walk, roots, short, comparison, find_calls, callee_matches,
                      must_pass, path_to, describe_path, linear, normalised_cmp, const_int_of, cmp_intervals, canon)
from facts import AnchorError, strip_closure
from harness import Rule, guarded

PID = "C11"
EXPLANATION = (
    "Rules over the MIR of Service::handle_rpc_response and its siblings. R1: records of a lookup answer reach "
    "`discovered` only past Some(active_requests.remove(id)), the address check and match_request, and only after "
    "Vec::retain with a closure that keeps a record iff peer_key.log2_distance(record id) is contained in the request's "
    "own distance list, peer_key being the responder's id. R2 (sibling agreement on distance 0): the generator "
    "findnode_log2distance can emit 0 together with other distances and the writer send_nodes_response pushes the local "
    "record when 0 is requested, so the reader's value for a record at distance None (the responder itself) must be the "
    "membership test of 0 in the requested distances - a constant false bans every honest responder asked for [1, 2, 0]. "
    "R3: PermitBanList::ban is called from the service only in handle_rpc_response, guarded by len-after-filter < "
    "len-before resp. more than one record for a [0] request. R4: a request is re-inserted to wait for more packets only "
    "while count < total and count < MAX_NODES_RESPONSES (= 15) with an increment, and `discovered` runs only after the "
    "partial-response entry was removed and without re-inserting the request.")
EXPLANATION += (' Added while testing: R1 requires the stored / discovered records to be the filtered ones and the retain predicate to be exactly membership in the requested distances; R3 also requires the evidence to be counted before anything is removed from the answer (both branches) and PermitBanList::ban to overwrite both entries with the expiry given; R4 also requires the counter to be stored whenever the request keeps waiting and a discarded removal of the partial state to be on a completing path.')
NOT_DECIDED = ["that no other honest behaviour is bannable (quantifies over table contents)", "the handler-side remaining_responses arithmetic",
               "a [0] (ENR update) answer carrying exactly one foreign record is not distance-checked before `discovered` (seen, not a lookup request)"]
TRUSTED = ["Vec::retain keeps exactly the elements for which the closure returns true", "slice::contains"]

SV = "crate::service::Service::"


def closures_of(facts, path):
    return {p: b for p, b in facts.bodies.items() if p.startswith(path + "::{closure#") and p.count("{closure#") == path.count("{closure#") + 1}


def none_case_value(facts, cb):
    """for a retain closure built around Key::log2_distance(..): (value when the distance is Some, value when it is None),
    each as an expression in terms of the closure's upvars; None if the shape is not recognised"""
    p = Prov(cb, facts)
    e = p.local(0)
    subs = closures_of(facts, cb.path)

    def ret_of(agg):
        # agg = ("agg", "closure:PATH", ...)
        path = agg[1].split(":", 1)[1]
        b = facts.bodies.get(path) or (getattr(facts, "detached", None) or {}).get(path)
        if b is None:
            return None
        return Prov(b, facts).local(0)

    def is_l2d(x):
        return x[0] == "call" and short(x[1]).endswith("Key::log2_distance")
    # form A: unwrap_or_else(map(L, fA), fB) / unwrap_or(map(L, fA), c)
    if e[0] == "call" and re.search(r"Option::unwrap_or(_else|_default)?$", short(e[1])):
        inner = e[2][0]
        if inner[0] == "call" and short(inner[1]).endswith("Option::map") and is_l2d(inner[2][0]):
            some_v = ret_of(inner[2][1]) if inner[2][1][0] == "agg" else None
            if short(e[1]).endswith("unwrap_or_else"):
                none_v = ret_of(e[2][1]) if e[2][1][0] == "agg" else None
            elif short(e[1]).endswith("unwrap_or_default"):
                none_v = ("const", "0")
            else:
                none_v = e[2][1]
            return inner[2][0], some_v, none_v
    # form B: map_or(L, default, f) / map_or_else(L, fd, f)
    if e[0] == "call" and re.search(r"Option::map_or(_else)?$", short(e[1])) and is_l2d(e[2][0]):
        if short(e[1]).endswith("map_or_else"):
            return e[2][0], ret_of(e[2][2]) if e[2][2][0] == "agg" else None, ret_of(e[2][1]) if e[2][1][0] == "agg" else None
        return e[2][0], ret_of(e[2][2]) if e[2][2][0] == "agg" else None, e[2][1]
    # form C: contains(D, unwrap_or(L, c))
    if e[0] == "call" and short(e[1]).endswith("slice::contains"):
        for x in walk(e[2][1]):
            if x[0] == "call" and re.search(r"Option::unwrap_or$", short(x[1])) and is_l2d(x[2][0]):
                c = const_int_of(x[2][1])
                return x[2][0], ("call", e[1], (e[2][0], ("param", 2, "distance")), None), ("call", e[1], (e[2][0], ("const", str(c))), None)
    # form D: explicit match
    g = Guards(cb, p, facts)
    for bi, t, se in g.switches():
        if se[0] == "discr" and is_l2d(se[1]):
            none_t = [tb for v, tb in t.vals if v == 0] or ([t.otherwise] if [v for v, _ in t.vals] == [1] else [])
            some_t = [tb for v, tb in t.vals if v == 1] or ([t.otherwise] if [v for v, _ in t.vals] == [0] else [])
            nv, sv = [], []
            for lhs, kind, payload, blk, _l in p.defs.get(0, ()):
                val = p.rvalue(payload, blk) if kind == "rv" else p.call(payload, blk)
                if none_t and blk in cb.reachable(none_t[0]) and not (some_t and blk in cb.reachable(some_t[0])):
                    nv.append(val)
                elif some_t and blk in cb.reachable(some_t[0]):
                    sv.append(val)
            if len(nv) == 1 and len(sv) == 1:
                return se[1], sv[0], nv[0]
    return None


def is_contains(e, what, dist_upvar="distances_requested"):
    """e == slice::contains(<distances>, what-predicate)"""
    if e is None or e[0] != "call" or not short(e[1]).endswith("slice::contains") or len(e[2]) != 2:
        return False
    if dist_upvar not in fmt_short(e[2][0]):
        return False
    return what(e[2][1])


def generator_may_emit_zero(facts):
    """does findnode_log2distance push the result of checked_sub without excluding 0 ?"""
    b = facts.one(r"crate::service::query_info::findnode_log2distance")
    p = Prov(b, facts)
    g = Guards(b, p, facts)
    pushes = []
    for bi, t in b.calls():
        if callee_matches(t, r"vec::Vec::<u64>::push$|Vec::push$"):
            v = p.operand(t.args[1])
            if any(x[0] == "call" and short(x[1]).endswith("checked_sub") for x in walk(v)):
                pushes.append((bi, v))
    if not pushes:
        return b, False
    nonzero_edges = []
    for bi, t, e in g.switches():
        c = comparison(e)
        if c and const_int_of(c[2]) == 0 and c[0] in ("!=", ">") and any(x[0] == "call" and short(x[1]).endswith("checked_sub") for x in walk(c[1])):
            nonzero_edges.append((bi, g.bool_edges(bi)[1]))
    for bi, v in pushes:
        if bi in b.reachable(0, removed_edges=nonzero_edges):
            return b, True
    return b, False


def writer_sends_own_record_on_zero(facts):
    b = facts.one(re.escape(SV) + "send_nodes_response")
    p = Prov(b, facts)
    g = Guards(b, p, facts)
    pushes = []
    for bi, t in b.calls():
        if callee_matches(t, r"vec::Vec::<.*>::push$|Vec::push$"):
            v = p.operand(t.args[1])
            if "local_enr" in fmt_short(v):
                pushes.append(bi)
    return b, bool(pushes), pushes


def r1_r2(ctx):
    facts = ctx.facts
    r1 = Rule("C11.R1", "lookup answers are distance-filtered against the request's own list before `discovered`", floor=5, engine="A-dom + A-prov")
    r2 = Rule("C11.R2", "the responder's own record counts as distance 0: generator, writer and reader agree", floor=3, engine="A-sib")
    b = facts.one(re.escape(SV) + "handle_rpc_response")
    r1.analysed(b)
    prov = Prov(b, facts)
    g = Guards(b, prov, facts)
    disc = [(bi, t) for bi, t in b.calls() if (t.callee() or "") == SV + "discovered"]
    if len(disc) != 1:
        raise AnchorError("handle_rpc_response: expected one call to discovered, found %d" % len(disc))
    dbi, dt = disc[0]
    # guards
    some_edges, match_edges, addr_edges = [], [], []
    for bi, t, e in g.switches():
        s_ = fmt_short(e)
        if e[0] == "discr" and s_ == "discr(HashMap::remove(self.active_requests, response.id))":
            some_edges += [(bi, tb) for v, tb in t.vals if v == 1]
        inner = e
        neg = False
        while inner[0] == "un" and inner[1] == "Not":
            inner, neg = inner[2], not neg
        if inner[0] == "call" and inner[1].endswith("Response::match_request"):
            f, tr = g.bool_edges(bi)
            match_edges.append((bi, f if neg else tr))
        c = comparison(e)
        if c and c[0] in ("==", "!=") and {fmt_short(c[1]), fmt_short(c[2])} == {
                "NodeContact::node_address(HashMap::remove(self.active_requests, response.id).0.contact)", "node_address"}:
            f, tr = g.bool_edges(bi)
            addr_edges.append((bi, tr if c[0] == "==" else f))
    for name, edges, msg in (("request-known", some_edges, "for an id that matches no active request"),
                             ("response-type", match_edges, "of the wrong type for the request"),
                             ("responder-address", addr_edges, "from a node address other than the one the request was sent to")):
        r = b.reachable(0, removed_edges=edges)
        r1.check(bool(edges) and dbi not in r, "discovered only past the %s check" % name, "discovered|%s" % name,
                 "handle_rpc_response accepts records of a response %s" % msg, loc=b.loc(dt.line))
    # retain with the distance closure
    retains = [(bi, t) for bi, t in b.calls() if callee_matches(t, r"vec::Vec::<.*>::retain", r"Vec::retain")]
    enr_branch = []
    for bi, t, e in g.switches():
        c = comparison(e)
        if c and c[0] == "==" and const_int_of(c[2]) == 0 and "request_body.distances" in fmt_short(c[1]) and \
                ("Index" in fmt_short(c[1]) or any(x[0] == "index" and const_int_of(x[2]) == 0 for x in walk(c[1]))):
            enr_branch.append((bi, g.bool_edges(bi)[1]))
    lookup_retains = []
    for bi, t in retains:
        clo = prov.operand(t.args[1])
        if clo[0] != "agg":
            continue
        cpath = clo[1].split(":", 1)[1]
        cb = (facts.bodies.get(cpath) or (getattr(facts, 'detached', None) or {})[cpath])
        ncv = none_case_value(facts, cb)
        ups = dict(clo[2])
        if ncv is None:
            # a filter over the answered records that involves their distance but is not exactly the membership test
            cprov = Prov(cb, facts)
            mentions = any(x[0] == "call" and short(x[1]).endswith("Key::log2_distance") for x in walk(cprov.local(0))) or \
                any(callee_matches(ct, r"Key::<.*>::log2_distance$", r"Key::log2_distance$") for _, ct in cb.calls())
            uses_requested = "distances_requested" in ups or any("request_body.distances" in fmt_short(v) for v in ups.values())
            if mentions and uses_requested:
                r1.fail("retain|predicate-not-exact", "the distance filter keeps a record on a condition other than exactly `requested distances contain its log2 distance "
                        "(the responder's own record counting as 0)`: %s. Whatever else it drops is counted by the length comparison that follows, and the responder is banned "
                        "for records it was asked for" % fmt_short(cprov.local(0))[:200], loc=cb.loc(cb.line))
            continue
        l2d, some_v, none_v = ncv
        # closure parameters: peer_key from the responder id, distances from the request
        pk_ok = "peer_key" in ups and fmt_short(ups["peer_key"]) in ("node_address.node_id",) or \
            all(derives_field(x, "node_address", "node_id") for x in roots(ups.get("peer_key", ("unknown", ""))))
        dr = ups.get("distances_requested")
        dr_ok = dr is not None and fmt_short(dr).endswith("request_body.distances") and "self.active_requests" in fmt_short(dr)
        l2_ok = fmt_short(l2d).startswith("Key::log2_distance(peer_key, ") and "Enr::node_id(" in fmt_short(l2d)
        # the distance tested: the inner closure's parameter (`.map(|d| ..)`) or the Some payload of log2_distance itself (`match`)
        some_ok = is_contains(some_v, lambda x: x[0] == "param" or (x[0] == "field" and x[1][0] == "as" and x[1][2] == "Some" and
                                                                      any(y[0] == "call" and short(y[1]).endswith("Key::log2_distance") for y in walk(x[1][1]))))
        if some_ok:
            lookup_retains.append((bi, t, cb, none_v, pk_ok, dr_ok, l2_ok))
    if not lookup_retains:
        r1.fail("retain|missing", "no Vec::retain with a distance-membership closure found in handle_rpc_response", loc=b.loc(b.line))
    for bi, t, cb, none_v, pk_ok, dr_ok, l2_ok in lookup_retains:
        r1.analysed(cb)
        r1.check(pk_ok and dr_ok and l2_ok, "filter keeps records whose log2 distance from the responder is in the request's own distances",
                 "retain|closure-inputs", "the distance filter does not compare the responder's id / the request's own distance list", loc=cb.loc(cb.line))
        vec = fmt_short(prov.operand(t.args[0]))
        dv = fmt_short(prov.operand(dt.args[2]))
        r1.check(vec == dv, "the filtered vector is the one handed to discovered", "retain|vector", "discovered receives %s but %s was filtered" % (dv, vec), loc=b.loc(t.line))
    rb = [bi for bi, *_ in lookup_retains]
    r1.check(must_pass(b, [dbi], via_blocks=rb, via_edges=enr_branch), "every lookup answer passes the distance filter before discovered",
             "discovered|unfiltered", "records of a lookup answer can reach `discovered` without the distance filter", loc=b.loc(dt.line))
    # partial answers are stored for later (and handed to `discovered` unfiltered by rpc_failure when the rest never arrives): they must
    # have passed the same filter before they are stored
    stores = [(bi, t) for bi, t in b.calls() if callee_matches(t, r"HashMap::<.*>::insert$", r"HashMap::insert$") and
              fmt_short(prov.operand(t.args[0])) == "self.active_nodes_responses"]
    if not stores:
        raise AnchorError("handle_rpc_response: the store of a partial NODES answer was not found")
    for bi, t in stores:
        r1.check(must_pass(b, [bi], via_blocks=rb, via_edges=enr_branch), "a partial answer is stored only after the distance filter", "partial|stored-unfiltered",
                 "records of an incomplete multi-packet answer are stored in active_nodes_responses before the distance filter (and the ban for off-distance "
                 "records) ran: if the remaining packets never arrive, rpc_failure hands the stored records to `discovered` as they are", loc=b.loc(t.line))
    rf = facts.one(re.escape(SV) + "rpc_failure")
    r1.analysed(rf)
    pf = Prov(rf, facts)
    for bi, t in rf.calls():
        if (t.callee() or "") == SV + "discovered":
            src = fmt_short(pf.operand(t.args[2]))
            r1.check("HashMap::remove(self.active_nodes_responses" in src and src.endswith(".received_nodes"), "rpc_failure hands `discovered` exactly the stored partial answer",
                     "partial|timeout-source", "rpc_failure hands `discovered` %s" % src[:200], loc=rf.loc(t.line))
    # ---- R2
    gb, may0 = generator_may_emit_zero(facts)
    wb, own, _ = writer_sends_own_record_on_zero(facts)
    r2.analysed(gb, wb)
    r2.ok("generator findnode_log2distance %s emit distance 0 next to other distances" % ("can" if may0 else "cannot"))
    r2.ok("writer send_nodes_response %s the local record when distance 0 is requested" % ("pushes" if own else "does not push"))
    for bi, t, cb, none_v, *_ in lookup_retains:
        if not (may0 and own):
            r2.ok("reader: no constraint (generator never asks for 0 with other distances, or writer never sends its own record)")
            continue
        ok = is_contains(none_v, lambda x: const_int_of(x) == 0 or fmt_short(x) in ("0", "promoted"))
        if ok:
            r2.ok("reader counts the responder's own record as distance 0", fmt_short(none_v))
        else:
            r2.fail("retain|own-record-not-distance-0",
                    "the filter's value for a record at distance None (the responder's own record) is %s instead of "
                    "`requested.contains(&0)`: this node asks e.g. for distances [1, 2, 0] (findnode_log2distance), an honest "
                    "responder includes its own record (send_nodes_response), the record is filtered and the responder banned"
                    % (fmt_short(none_v) if none_v else "unrecognised"), loc=cb.loc(cb.line), site="reader: own record")
    return r1, r2


def derives_field(x, base, field):
    return any(y[0] == "field" and y[2] == field and base in fmt_short(y[1]) for y in walk(x))


def r3(ctx):
    facts = ctx.facts
    rule = Rule("C11.R3", "bans only on evidence: both ban sites are guarded by fewer records after the filter / more than one record for [0]",
                floor=3, engine="A-who + A-dom")
    callers = facts.callers_of(lambda n: n == "crate::permit_ban::PermitBanList::ban")
    svc = sorted(strip_closure(p) for p in callers if p.startswith("crate::service::"))
    rule.check(set(svc) == {SV + "handle_rpc_response"}, "service-side callers of PermitBanList::ban: %s" % sorted(set(svc)), "ban|callers",
               "PermitBanList::ban is called from %s" % sorted(set(svc)))
    b = facts.one(re.escape(SV) + "handle_rpc_response")
    rule.analysed(b)
    prov = Prov(b, facts)
    g = Guards(b, prov, facts)
    bans = [(bi, t) for bi, t in b.calls() if (t.callee() or "") == "crate::permit_ban::PermitBanList::ban"]
    if len(bans) < 2:
        rule.fail("ban|sites", "ban sites in handle_rpc_response: %d (2 confirmed by hand)" % len(bans))
    shrink, many = [], []
    for bi, t, e in g.switches():
        c = comparison(e)
        if not c:
            continue
        l, r_ = fmt_short(c[1]), fmt_short(c[2])
        if c[0] == "<" and l.startswith("Vec::len(") and r_.startswith("Vec::len(") and ".nodes" in l:
            shrink.append((bi, g.bool_edges(bi)[1]))
        if c[0] == ">" and l.startswith("Vec::len(") and const_int_of(c[2]) == 1 and ".nodes" in l:
            many.append((bi, g.bool_edges(bi)[1]))
    # the number the filtered answer is compared with is the number of records received: nothing is taken out of the answer before it is counted
    all_retains = [rb for rb, t in b.calls() if callee_matches(t, r"vec::Vec::<.*>::(retain|retain_mut|truncate|drain|dedup_by_key|dedup)$", r"Vec::(retain|retain_mut|truncate|drain|dedup_by_key|dedup)$") and
                   ".nodes" in fmt_short(prov.operand(t.args[0]))]
    for bi, t, e in g.switches():
        c = comparison(e)
        if c and c[0] == "<" and fmt_short(c[1]).startswith("Vec::len(") and fmt_short(c[2]).startswith("Vec::len(") and ".nodes" in fmt_short(c[1]):
            before = canon(c[2])
            site = before[3][1] if len(before) > 3 and before[3] else None
            early = [rb for rb in all_retains if site is not None and rb in b.live_blocks() and site in b.reachable(rb)]
            rule.check(site is not None and not early, "the length the filtered answer is compared with is taken before anything is removed from the answer", "ban|counted-after-filter",
                       "handle_rpc_response removes records from the answer before it counts them (`before_len`): records removed there - the requester's own record, say - "
                       "are not evidence any more, and a responder that returns them at distances that were not requested is not banned", loc=b.loc(b.blocks[bi].term.line))
    for bi, t in bans:
        r = b.reachable(0, removed_edges=shrink + many)
        rule.check(bool(shrink) and bool(many) and bi not in r, "ban only past `len after filter < len before` or `more than one record for [0]`",
                   "ban|unguarded", "handle_rpc_response bans a responder without evidence of unsolicited records", loc=b.loc(t.line))
        a = fmt_short(prov.operand(t.args[1]))
        rule.check(a == "node_address", "the banned address is the responder's", "ban|who", "handle_rpc_response bans %s" % a, loc=b.loc(t.line))
    # a ban takes effect whatever the list held before: ban() overwrites both entries with the expiry it is given (an `entry().or_insert`
    # keeps a stale, already expired entry and the responder is unbanned by the next sweep)
    bb = facts.one(r"crate::permit_ban::PermitBanList::ban$")
    rule.analysed(bb)
    bp = Prov(bb, facts)
    tn = bb.local_name(3) or "time_to_unban"
    stored = {}
    for bi, t in bb.calls():
        if callee_matches(t, r"HashMap::<.*>::insert$", r"HashMap::insert$") and len(t.args) == 3:
            stored[fmt_short(bp.operand(t.args[0]))] = (fmt_short(bp.operand(t.args[1])), fmt_short(bp.operand(t.args[2])))
    sn, an = bb.local_name(1) or "self", bb.local_name(2) or "node_address"
    okb = stored.get("%s.ban_ips" % sn, ("", ""))[1] == tn and stored.get("%s.ban_nodes" % sn, ("", ""))[1] == tn and \
        "%s.socket_addr" % an in stored.get("%s.ban_ips" % sn, ("", ""))[0] and stored.get("%s.ban_nodes" % sn, ("", ""))[0] == "%s.node_id" % an
    rule.check(okb, "PermitBanList::ban overwrites the ip and the node entry with the expiry given", "ban|stored",
               "PermitBanList::ban does not unconditionally store the new expiry for the responder's ip and node id (found %s): an older entry decides how long "
               "the ban lasts" % stored, loc=bb.loc(bb.line))
    # the evidence is looked at before it is thrown away: in the ENR-request branch the "more than one record" test counts the records as
    # they were received - a retain that drops the foreign records first makes the test blind to them
    retains = [bi for bi, t in b.calls() if callee_matches(t, r"vec::Vec::<.*>::retain$", r"Vec::retain$")]
    for sb, tgt in many:
        early = [rb for rb in retains if sb in b.reachable(rb) and rb in b.live_blocks() and
                 not any(sh == rb for sh in [])]
        # only retains that can run on the way to this test in the same branch matter: those from which the test is reachable without
        # going back through the branch's own entry
        early = [rb for rb in early if rb not in b.reachable(tgt)]
        rule.check(not early, "ENR request: the `more than one record` test sees the answer as received (no filter before it)", "ban|evidence-filtered-first",
                   "in the ENR-request branch the records are filtered before the `more than one record` test: a responder that pads its answer with foreign records is no "
                   "longer banned", loc=b.loc(b.blocks[sb].term.line))
    return rule


def r4(ctx):
    facts = ctx.facts
    rule = Rule("C11.R4", "at most MAX_NODES_RESPONSES packets are collected per request; completion removes the partial state and does not re-insert",
                floor=4, engine="A-dom + A-aff")
    mx = facts.const_value("crate::service::MAX_NODES_RESPONSES")
    rule.check(mx == 15, "MAX_NODES_RESPONSES = 15", "const|MAX_NODES_RESPONSES", "MAX_NODES_RESPONSES evaluates to %d" % mx)
    b = facts.one(re.escape(SV) + "handle_rpc_response")
    rule.analysed(b)
    prov = Prov(b, facts)
    g = Guards(b, prov, facts)
    reins = [(bi, t) for bi, t in b.calls() if callee_matches(t, r"HashMap::<.*>::insert$|HashMap::insert$") and
             fmt_short(prov.operand(t.args[0])) == "self.active_requests"]
    part_ins = [(bi, t) for bi, t in b.calls() if callee_matches(t, r"HashMap::<.*>::insert$|HashMap::insert$") and
                fmt_short(prov.operand(t.args[0])) == "self.active_nodes_responses"]
    part_rem = [(bi, t) for bi, t in b.calls() if callee_matches(t, r"HashMap::<.*>::remove", r"HashMap::remove") and
                fmt_short(prov.operand(t.args[0])) == "self.active_nodes_responses"]
    disc = [(bi, t) for bi, t in b.calls() if (t.callee() or "") == SV + "discovered"]
    if not reins or not part_ins or not part_rem or not disc:
        raise AnchorError("handle_rpc_response: multi-packet bookkeeping sites not found")

    def catom(x):
        s_ = fmt_short(x)
        if s_.endswith(".count") or (x[0] == "phi" and ".count" in s_):
            return "count"
        if s_ == "response.body.total":
            return "total"
        return None
    lt_total, lt_max = [], []
    for bi, t, e in g.switches():
        nc = normalised_cmp(e, catom)
        if not nc or "count" not in nc[0] or nc[2] in ("==", "!="):
            continue
        f, tr = g.bool_edges(bi)
        if set(nc[0]) == {"count", "total"} and nc[0]["count"] == -nc[0]["total"]:
            ivs = cmp_intervals(nc[0]["count"], nc[1], nc[2])   # x = count - total
            for (lo, hi), edge in ((ivs[0], tr), (ivs[1], f)):
                if hi is not None and hi <= -1:
                    lt_total.append((bi, edge))
        if set(nc[0]) == {"count"}:
            ivs = cmp_intervals(nc[0]["count"], nc[1], nc[2])   # x = count
            for (lo, hi), edge in ((ivs[0], tr), (ivs[1], f)):
                if hi is not None and hi <= mx - 1:
                    lt_max.append((bi, edge))
    # a test kept in a flag (`let enough = total <= count || MAX <= count; .. if enough { .. } else { keep waiting }`): the flag's value is
    # `true` (an earlier disjunct held) or the last disjunct; where the flag is false, every comparison among its alternatives is false
    for bi, t, e in g.switches():
        inner, neg = e, False
        while inner[0] == "un" and inner[1] == "Not":
            inner, neg = inner[2], not neg
        if inner[0] != "phi" or not any(const_int_of(a) == 1 for a in inner[1]):
            continue
        cmps_ = [a for a in inner[1] if const_int_of(a) != 1]
        if not cmps_ or not all(comparison(a) for a in cmps_):
            continue
        f, tr = g.bool_edges(bi)
        false_edge = tr if neg else f
        for a in cmps_:
            nc = normalised_cmp(a, catom)
            if not nc or "count" not in nc[0] or nc[2] in ("==", "!="):
                continue
            if set(nc[0]) == {"count", "total"} and nc[0]["count"] == -nc[0]["total"]:
                ivs = cmp_intervals(nc[0]["count"], nc[1], nc[2])
                if ivs[1][1] is not None and ivs[1][1] <= -1:
                    lt_total.append((bi, false_edge))
            if set(nc[0]) == {"count"}:
                ivs = cmp_intervals(nc[0]["count"], nc[1], nc[2])
                if ivs[1][1] is not None and ivs[1][1] <= mx - 1:
                    lt_max.append((bi, false_edge))
    for bi, t in reins:
        r_t = b.reachable(0, removed_edges=lt_total)
        r_m = b.reachable(0, removed_edges=lt_max)
        rule.check(bool(lt_total) and bi not in r_t, "waiting for more packets only while count < total", "multi|count-total",
                   "the request is kept waiting for more NODES packets without `count < total`", loc=b.loc(t.line))
        rule.check(bool(lt_max) and bi not in r_m, "waiting for more packets only while count < MAX_NODES_RESPONSES", "multi|count-max",
                   "the request is kept waiting for more NODES packets without the MAX_NODES_RESPONSES bound: a responder can make this node collect packets indefinitely",
                   loc=b.loc(t.line))
        # the increment precedes the re-insertion
        incs = []
        for blk in b.blocks:
            for s in blk.stmts:
                if s.k == "a" and "count" in s.lhs.field_names() and blk.idx in b.live_blocks():
                    lf = linear(prov.rvalue(s.rv, blk.idx), catom)
                    if lf == ({"count": 1}, 1):
                        incs.append(blk.idx)
        rule.check(bool(incs) and must_pass(b, [bi], via_blocks=incs), "count is incremented before the request is re-inserted", "multi|no-increment",
                   "the packet counter is not incremented when a partial NODES response is stored", loc=b.loc(t.line))
        # ... and the incremented counter is stored: the accumulator goes back into active_nodes_responses on every path that keeps waiting
        rule.check(must_pass(b, [bi], via_blocks=[x for x, _ in part_ins]), "the accumulator (with its counter) is stored whenever the request keeps waiting", "multi|counter-not-stored",
                   "the request is kept waiting for more NODES packets on a path that does not store the accumulator back into active_nodes_responses: the packet "
                   "counter restarts from zero and neither `count < total` nor MAX_NODES_RESPONSES ever stops the collection", loc=b.loc(t.line))
    # the partial state (records so far + packet counter) is only ever taken out to be carried on: a remove whose result is thrown away resets the
    # counter and loses the records collected so far while the request is still active
    for rbi, rt in part_rem:
        dl = rt.dest.local
        used = False
        for blk in b.blocks:
            if blk.cleanup or blk.idx not in b.live_blocks():
                continue
            for st_ in blk.stmts:
                if st_.k == "a" and ((st_.rv.place is not None and st_.rv.place.local == dl) or any(o.place is not None and o.place.local == dl for o in st_.rv.ops)):
                    used = True
            tt = blk.term
            if tt.k == "call" and any(a.place is not None and a.place.local == dl for a in tt.args):
                used = True
        if not used:
            # discarding is what completion does; it is wrong only where the request can still be kept waiting afterwards
            rr = b.reachable(rt.target) if rt.target is not None else set()
            used = not any(x in rr for x, _ in reins) and not any(x in rr for x, _ in part_ins)
        rule.check(used, "the partial state taken out of active_nodes_responses is carried on, or dropped only where the request completes", "multi|partial-discarded",
                   "handle_rpc_response removes the partial state of a request from active_nodes_responses and discards it while the request stays active: the packet "
                   "counter restarts (the 15-packet bound no longer holds) and the records collected so far are lost", loc=b.loc(rt.line))
    for dbi, dt in disc:
        rule.check(must_pass(b, [dbi], via_blocks=[x for x, _ in part_rem]), "discovered only after active_nodes_responses.remove(id)", "multi|partial-kept",
                   "the partial-response entry can survive completion of the request", loc=b.loc(dt.line))
        for bi, t in reins:
            r = b.reachable(bi)
            rule.check(dbi not in r, "a re-inserted request is not also completed", "multi|reinsert-and-complete",
                       "handle_rpc_response re-inserts the request and also hands its records to discovered", loc=b.loc(t.line))
    return rule


def run(ctx):
    G = lambda l, f, *a: guarded("C11." + l, f, ctx, *a)
    return G("R1-R2", r1_r2) + G("R3", r3) + G("R4", r4)
