"""C12 — Routing-table admission and update policy."""
import re

from analysis import (Prov, Guards, fmt, fmt_short, walk, roots, short, comparison, find_calls, callee_matches,
                      must_pass, path_to, describe_path, const_int_of, edge_label, canon, _alts, option_edges, closures_of)
from facts import AnchorError, strip_closure
from harness import Rule, guarded
from c01 import bool_pass_edges, derives

PID = "C12"
EXPLANATION = (
    "Who-may-call and dominance rules over the MIR of the service, Discv5 and the handler. R1: the table gains entries "
    "only through KBucketsTable::insert_or_update, called only from Service::connection_updated (reached with "
    "ConnectionStatus::Connected only from inject_session_established, itself called only for HandlerOut::Established) and "
    "from Discv5::add_enr; AbsentEntry::insert is unused; `discovered` touches the table only through update_node / "
    "entry removal. R2: on every path of each admission entry point to the table write, both (config.table_filter)(record) "
    "and ip_mode.get_contactable_addr(record).is_some() were passed for the very record stored. R3: `discovered` drops "
    "records carrying the local id before any table access. R4: verify_enr compares the record's UDP socket of the "
    "observed family with the observed source and incoming Established is guarded by it. R5: a discovered record replaces "
    "a stored one only past stored.seq() < record.seq() (strict), under the key of the record's own node id.")
EXPLANATION += (" Added while testing: R5 also covers the session path (the attached record becomes the session's record only if none is known or it is strictly newer). R6: IpMode::get_contactable_addr takes an IPv6 endpoint only where the IPv4-mapped test is applied to it.")
NOT_DECIDED = ["dual-stack address selection values", "the table's own structural integrity (C07)"]
TRUSTED = ["Enr::seq / node_id"]

SV = "crate::service::Service::"
KT = "crate::kbucket::KBucketsTable::"


def admission_guards(b, prov, g, rec_roots):
    """(filter pass edges, contactable pass edges) for the record whose roots are rec_roots"""
    filt, cont = [], []

    def classify(x):
        """('filter' | 'contactable', polarity) if the boolean expression x is (the negation of) one of the two admission tests"""
        neg = False
        while x[0] == "un" and x[1] == "Not":
            x, neg = x[2], not neg
        if x[0] == "call" and x[1] == "<indirect>" and len(x[2]) == 2:
            fn_e, arg = x[2]
            if fmt_short(fn_e).endswith("config.table_filter") and roots(arg) == rec_roots:
                return "filter", not neg
        if x[0] == "call" and re.search(r"Option::is_(some|none)$", short(x[1])):
            y = x[2][0]
            if y[0] == "call" and y[1].endswith("IpMode::get_contactable_addr") and roots(y[2][1]) == rec_roots and fmt_short(y[2][0]).endswith("ip_mode"):
                return "contactable", short(x[1]).endswith("is_some") != neg
        return None
    for bi, t, e in g.switches():
        f, tr = g.bool_edges(bi)
        c = classify(e)
        if c:
            (filt if c[0] == "filter" else cont).append((bi, tr if c[1] else f))
            continue
        inner, neg = e, False
        while inner[0] == "un" and inner[1] == "Not":
            inner, neg = inner[2], not neg
        if inner[0] == "phi":
            # the tests kept in a flag (`let admissible = filter(enr) && contactable(enr).is_some(); if !admissible { .. }`): the flag is
            # `false` (an earlier conjunct failed) or the last conjunct, so where it is true the last conjunct holds; dually for `||`
            consts = {const_int_of(a) for a in inner[1] if const_int_of(a) in (0, 1)}
            rest = [a for a in inner[1] if const_int_of(a) not in (0, 1)]
            if len(rest) == 1 and len(consts) == 1:
                c = classify(rest[0])
                if c:
                    flag_true, flag_false = (f, tr) if neg else (tr, f)
                    if consts == {0} and c[1]:
                        (filt if c[0] == "filter" else cont).append((bi, flag_true))
                    elif consts == {1} and not c[1]:
                        (filt if c[0] == "filter" else cont).append((bi, flag_false))
        if e[0] == "discr" and e[1][0] == "call" and e[1][1].endswith("IpMode::get_contactable_addr") and roots(e[1][2][1]) == rec_roots:
            cont += [(bi, tb) for v, tb in t.vals if v == 1]
    return filt, cont


def r1(ctx):
    facts = ctx.facts
    rule = Rule("C12.R1", "who may add to the routing table", floor=5, engine="A-who")
    callers = facts.callers_of(lambda n: short(n) == KT + "insert_or_update")
    who = sorted(set(strip_closure(p) for p in callers))
    rule.check(who == ["crate::discv5::Discv5::add_enr", SV + "connection_updated"], "callers of insert_or_update: %s" % [w.split("::")[-1] for w in who],
               "insert_or_update|callers", "KBucketsTable::insert_or_update is called from %s" % who)
    ai = facts.callers_of(lambda n: re.search(r"kbucket::entry::AbsentEntry::insert$", short(n)) is not None)
    rule.check(not ai, "AbsentEntry::insert has no caller outside tests", "AbsentEntry::insert|callers", "AbsentEntry::insert is called from %s" % sorted(ai))
    # discovered touches the table through update_node / entry(..).remove only
    disc = [b for p, b in facts.bodies.items() if strip_closure(p) == SV + "discovered"]
    tbl_calls = set()
    for b in disc:
        rule.analysed(b)
        for bi, t in b.calls():
            c = short(t.callee() or "")
            if c.startswith(KT) or c.startswith("crate::kbucket::entry::") or c.startswith("crate::kbucket::bucket::"):
                tbl_calls.add(c.split("::", 2)[2])
    allowed = {"KBucketsTable::entry", "KBucketsTable::update_node", "entry::PresentEntry::value", "entry::PendingEntry::value",
               "entry::PresentEntry::remove", "entry::PendingEntry::remove"}
    rule.check(tbl_calls <= allowed and "KBucketsTable::update_node" in tbl_calls, "table operations in discovered: %s" % sorted(tbl_calls),
               "discovered|table-ops", "Service::discovered modifies the table through %s" % sorted(tbl_calls - allowed))
    # Connected only from inject_session_established
    mk = set()
    for p, b in facts.bodies.items():
        if p.startswith("<crate::service::ConnectionStatus as"):
            continue
        for blk in b.blocks:
            for s in blk.stmts:
                if s.k == "a" and s.rv.k == "agg" and s.rv.j.get("def") == "crate::service::ConnectionStatus" and s.rv.j.get("variant") == "Connected":
                    mk.add(strip_closure(p))
    rule.check(mk == {SV + "inject_session_established"}, "ConnectionStatus::Connected is built only in inject_session_established", "Connected|who",
               "ConnectionStatus::Connected is constructed in %s" % sorted(mk))
    callers = facts.callers_of(lambda n: n == SV + "inject_session_established")
    who = sorted(set(strip_closure(p) for p in callers))
    ok = who == [SV + "start"]
    if ok:
        st = facts.bodies[sorted(callers)[0]]
        sp = Prov(st, facts)
        for bi, t in callers[sorted(callers)[0]]:
            a = fmt(sp.operand(t.args[1]))
            ok = ok and "Established" in a
    rule.check(ok, "inject_session_established is called only for HandlerOut::Established", "inject|callers",
               "inject_session_established is called from %s (or not with the payload of HandlerOut::Established)" % who)
    return rule


def r2(ctx):
    facts = ctx.facts
    rule = Rule("C12.R2", "every admission is filtered by config.table_filter and contactable, for the record that is stored", floor=3,
                engine="A-dom + A-prov")
    sites = []
    ise = facts.one(re.escape(SV) + "inject_session_established")
    for bi, t in ise.calls():
        if (t.callee() or "") == SV + "connection_updated":
            sites.append((ise, bi, t, "inject_session_established", None))
    ae = facts.one(r"crate::discv5::Discv5::add_enr")
    for bi, t in ae.calls():
        if short(t.callee() or "") == KT + "insert_or_update":
            sites.append((ae, bi, t, "add_enr", 2))
    for b in [bb for p, bb in facts.bodies.items() if strip_closure(p) == SV + "discovered"]:
        for bi, t in b.calls():
            if short(t.callee() or "") == KT + "update_node":
                sites.append((b, bi, t, "discovered", 2))
    if len(sites) < 3:
        raise AnchorError("admission sites found: %d (3 confirmed by hand)" % len(sites))
    for b, bi, t, name, argi in sites:
        rule.analysed(b)
        prov = Prov(b, facts)
        g = Guards(b, prov, facts)
        if argi is None:
            st = prov.operand(t.args[2])
            recs = [dict(x[2])["0"] for x in roots(st) if x[0] == "agg" and x[1].endswith("ConnectionStatus::Connected")]
            if len(recs) != 1:
                rule.fail("%s|record" % name, "%s: the record handed to connection_updated was not recognised" % name, loc=b.loc(t.line))
                continue
            rec = recs[0]
        else:
            rec = prov.operand(t.args[argi])
        rr = roots(rec)
        filt, cont = admission_guards(b, prov, g, rr)
        for what, edges, key, msg in (
                ("config.table_filter", filt, "table-filter", "a record rejected by the configured table filter"),
                ("contactable in the IP mode", cont, "contactable", "a record without a contactable address in the node's IP mode")):
            r = b.reachable(0, removed_edges=edges)
            if edges and bi not in r:
                rule.ok("%s: admission of %s only past %s" % (name, fmt_short(rec), what))
            else:
                rule.fail("%s|%s" % (name, key), "%s admits %s into the routing table (%s is not checked on the path to %s)" % (
                    name, msg, what, t.callee().split("::")[-1]), loc=b.loc(t.line), site="%s: %s" % (name, what))
    # connection_updated(Connected(enr, ..)) inserts that record under the key of the given node id, which is the record's
    cu = facts.one(re.escape(SV) + "connection_updated")
    rule.analysed(cu)
    p = Prov(cu, facts)
    for bi, t in cu.calls():
        if short(t.callee() or "") == KT + "insert_or_update":
            k, v = fmt_short(p.operand(t.args[1])), fmt_short(p.operand(t.args[2]))
            rule.check(k in ("From>::from(node_id)", "node_id") and v.startswith("new_status.0"), "connection_updated stores the session's record under the given id",
                       "connection_updated|args", "connection_updated inserts (%s, %s)" % (k, v), loc=cu.loc(t.line))
    p2 = Prov(ise, facts)
    for bi, t in ise.calls():
        if (t.callee() or "") == SV + "connection_updated":
            rule.check(fmt_short(p2.operand(t.args[1])) == "Enr::node_id(enr)", "the id passed on is the record's own node id", "inject|id",
                       "inject_session_established passes %s as the node id" % fmt_short(p2.operand(t.args[1])), loc=ise.loc(t.line))
    return rule


def r3_r5(ctx):
    facts = ctx.facts
    r3 = Rule("C12.R3", "discovered never lets the local node's record reach the table", floor=1, engine="A-dom")
    r5 = Rule("C12.R5", "a record learnt from the network replaces a stored one only if strictly newer, under its own id (discovered and session paths)", floor=3, engine="A-dom + A-prov")
    cbs = [b for p, b in facts.bodies.items() if strip_closure(p) == SV + "discovered" and p != SV + "discovered"]
    main = [b for b in cbs if any(short(t.callee() or "") == KT + "update_node" for _, t in b.calls())]
    if len(main) != 1:
        raise AnchorError("discovered: the retain closure was not found")
    b = main[0]
    r3.analysed(b)
    r5.analysed(b)
    prov = Prov(b, facts)
    g = Guards(b, prov, facts)
    tbl = [bi for bi, t in b.calls() if short(t.callee() or "").startswith(KT) or short(t.callee() or "").startswith("crate::kbucket::entry::")]
    not_local = []
    for bi, t, e in g.switches():
        c = comparison(e)
        if c and c[0] in ("==", "!="):
            s = {fmt_short(c[1]), fmt_short(c[2])}
            if s == {"Enr::node_id(enr)", "local_id"}:
                f, tr = g.bool_edges(bi)
                not_local.append((bi, f if c[0] == "==" else tr))
    r = b.reachable(0, removed_edges=not_local)
    outer = facts.one(re.escape(SV) + "discovered")
    po = Prov(outer, facts)
    retains = [(bi, t) for bi, t in outer.calls() if callee_matches(t, r"Vec::retain")]
    main_call = [bi for bi, t in retains if po.operand(t.args[1])[0] == "agg" and str(po.operand(t.args[1])[1]).endswith(b.path.split("::")[-1]) and
                 str(po.operand(t.args[1])[1]) == "closure:" + b.path]
    # the exclusion may also have been done by an earlier retain over the same records: `enrs.retain(|e| e.node_id() != local_id)`
    earlier = False
    for bi, t in retains:
        clo = po.operand(t.args[1])
        if clo[0] != "agg" or not str(clo[1]).startswith("closure:") or str(clo[1]) == "closure:" + b.path:
            continue
        cb2 = facts.bodies.get(str(clo[1])[len("closure:"):])
        if cb2 is None or not main_call or not all(outer.dominates(bi, m) for m in main_call):
            continue
        c2 = comparison(Prov(cb2, facts).local(0))
        if c2 and c2[0] == "!=" and {fmt_short(c2[1]), fmt_short(c2[2])} == {"Enr::node_id(%s)" % (cb2.local_name(2) or "enr"), "local_id"}:
            earlier = True
            r3.analysed(cb2)
    r3.check((bool(not_local) and not any(x in r for x in tbl)) or earlier, "table accesses in discovered only past enr.node_id() != local_id", "discovered|local-id",
             "a discovered record carrying the local node id can reach the routing table", loc=b.loc(b.line))
    # local_id really is the local record's id
    for bi, t in retains:
        clo = po.operand(t.args[1])
        if clo[0] == "agg" and "local_id" in dict(clo[2]):
            li = dict(clo[2]).get("local_id")
            r3.check(li is not None and "local_enr" in fmt_short(li) and "Enr::node_id" in fmt_short(li), "local_id = local_enr.read().node_id()",
                     "discovered|local-id-source", "local_id is %s" % (fmt_short(li) if li else "?"), loc=outer.loc(t.line))
    # R5
    for bi, t in b.calls():
        if short(t.callee() or "") != KT + "update_node":
            continue
        k, v = prov.operand(t.args[1]), prov.operand(t.args[2])
        r5.check(fmt_short(k) in ("From>::from(Enr::node_id(enr))", "Enr::node_id(enr)") and roots(v) == {("param", 2, "enr")}, "update_node(key of the record's own id, the record)",
                 "update|args", "discovered updates (%s, %s)" % (fmt_short(k), fmt_short(v)), loc=b.loc(t.line))
        newer = []
        for sbi, st, e in g.switches():
            alts = e[1] if e[0] == "phi" else (e,)
            good = True
            some = False
            for a in alts:
                if const_int_of(a) == 0:
                    continue
                c = comparison(a)
                stored = lambda x: all(re.match(r"Enr::seq\((PresentEntry|PendingEntry)::value\(", fmt_short(y)) for y in _alts(canon(x)))
                if c and c[0] == "<" and stored(c[1]) and fmt_short(canon(c[2])) == "Enr::seq(enr)":
                    some = True
                elif c and c[0] == ">" and stored(c[2]) and fmt_short(canon(c[1])) == "Enr::seq(enr)":
                    some = True
                else:
                    good = False
            if good and some:
                newer.append((sbi, g.bool_edges(sbi)[1]))
        r = b.reachable(0, removed_edges=newer)
        r5.check(bool(newer) and bi not in r, "update only past stored.seq() < record.seq()", "update|not-newer",
                 "a discovered record can replace a stored one without having a strictly higher sequence number", loc=b.loc(t.line))
    # the session path: the record a handshake hands on (and which then overwrites the table entry through inject_session_established)
    # is the attached one only when the node had no record, or the attached one is strictly newer than the known one
    import c01
    ef = facts.one(r"crate::handler::session::Session::establish_from_challenge$")
    r5.analysed(ef)
    ep = Prov(ef, facts)
    eg = Guards(ef, ep, facts)
    rec = c01.is_param("enr_record")
    # the local returned as the session's record: second component of the Ok tuple
    ret_l = None
    ok_payload = set()
    for blk in ef.blocks:
        for s_ in blk.stmts:
            if s_.k == "a" and s_.lhs.is_local() and s_.lhs.local == 0 and s_.rv.k == "agg" and s_.rv.j.get("variant") == "Ok" and s_.rv.ops[0].place is not None and \
                    blk.idx in ef.live_blocks():
                ok_payload.add(s_.rv.ops[0].place.local)
    for blk in ef.blocks:
        for s_ in blk.stmts:
            if s_.k == "a" and s_.lhs.is_local() and s_.lhs.local in ok_payload and s_.rv.k == "agg" and s_.rv.j.get("ak") == "tuple" and len(s_.rv.ops) == 2 and \
                    s_.rv.ops[1].place is not None:
                ret_l = s_.rv.ops[1].place.local
    if ret_l is None:
        raise AnchorError("establish_from_challenge: the (session, record) result was not found")
    sel = c01.selection_blocks(ef, ep, ret_l, rec)
    newer, unknown = [], []
    for bi, t, e in eg.switches():
        c = comparison(e)
        if c and c[0] in (">", "<"):
            hi_, lo_ = (c[1], c[2]) if c[0] == ">" else (c[2], c[1])
            if fmt_short(hi_).startswith("Enr::seq(") and fmt_short(lo_).startswith("Enr::seq(") and derives(hi_, rec) and "remote_enr" in fmt_short(lo_):
                newer.append((bi, eg.bool_edges(bi)[1]))
        if e[0] == "discr" and "remote_enr" in fmt_short(e[1]) and not derives(e[1], rec):
            names, _ = eg.variant_names(bi)
            unknown += [(bi, tb) for v, tb in t.vals if names.get(v) == "None"]
    # the choice made once and kept in a flag (`let use_attached = match (attached, known) { (Some(n), Some(k)) => n.seq() > k.seq(), (Some(_), None)
    # => true, .. => false }; if use_attached { attached } else { known }`): where the flag is true, it is the comparison (which then holds)
    # or a literal `true` - and the literal is assigned only where no record was known
    def is_newer_cmp(x):
        c = comparison(x)
        if c and c[0] in (">", "<"):
            hi_, lo_ = (c[1], c[2]) if c[0] == ">" else (c[2], c[1])
            return fmt_short(hi_).startswith("Enr::seq(") and fmt_short(lo_).startswith("Enr::seq(") and derives(hi_, rec) and "remote_enr" in fmt_short(lo_)
        return False
    for bi, t, e in eg.switches():
        if e[0] != "phi" or t.discr is None or t.discr.place is None or not t.discr.place.is_local():
            continue
        alts = list(e[1])
        if not (any(is_newer_cmp(a) for a in alts) and all(is_newer_cmp(a) or const_int_of(a) in (0, 1) for a in alts)):
            continue
        # where is the literal `true` assigned?
        locs, true_blocks, okf = [t.discr.place.local], [], True
        for l in locs:
            for lhs, kind, payload, blk, _ln in ep.defs.get(l, ()):
                if blk not in ef.live_blocks():
                    continue
                if kind == "rv" and payload.k == "use" and payload.ops and payload.ops[0].place is not None and payload.ops[0].place.is_local():
                    if payload.ops[0].place.local not in locs:
                        locs.append(payload.ops[0].place.local)
                elif kind == "rv" and payload.k == "use" and payload.ops and payload.ops[0].const_int() == 1:
                    true_blocks.append(blk)
                elif kind == "rv" and payload.k == "use" and payload.ops and payload.ops[0].const_int() == 0:
                    pass
                elif kind == "rv" and payload.k == "bin":
                    pass
                else:
                    okf = False
        r0 = ef.reachable(0, removed_edges=unknown)
        if okf and not any(tb in r0 for tb in true_blocks):
            newer.append((bi, eg.bool_edges(bi)[1]))
    r = ef.reachable(0, removed_edges=newer + unknown)
    r5.check(bool(sel) and bool(newer) and not any(sb in r for sb in sel), "handshake: the attached record becomes the session's record only if none was known or attached.seq() > known.seq()",
             "session|not-newer", "establish_from_challenge can hand on the record attached to the handshake although a record with the same or a higher sequence number is "
             "known: the stale record then replaces the stored one through inject_session_established", loc=ef.loc(ef.line))
    return r3, r5


def r4(ctx):
    facts = ctx.facts
    rule = Rule("C12.R4", "verify_enr binds the record's advertised UDP socket (observed family) to the observed source; incoming sessions are admitted past it",
                floor=3, engine="A-prov + A-dom")
    H = "crate::handler::Handler::"
    ve = facts.one(re.escape(H) + "verify_enr")
    rule.analysed(ve)
    p = Prov(ve, facts)
    g = Guards(ve, p, facts)
    fam = {}
    for lhs, kind, payload, blk, _l in p.defs.get(0, ()):
        if kind == "call" and callee_matches(payload, r"Option::<.*>::is_none_or", r"Option::is_none_or"):
            sock = fmt_short(p.operand(payload.args[0]))
            clo = p.operand(payload.args[1])
            # which arm of match node_address.socket_addr
            for bi, t, e in g.switches():
                if e[0] == "discr" and fmt_short(e[1]) == "node_address.socket_addr":
                    names, _ = g.variant_names(bi)
                    for v, tb in t.vals:
                        if blk in ve.reachable(tb) and not any(blk in ve.reachable(ob) for ov, ob in t.vals if ob != tb):
                            fam[names.get(v, str(v))] = (sock, clo)
    ok = fam.get("V4", ("",))[0] == "Enr::udp4_socket(enr)" and fam.get("V6", ("",))[0] == "Enr::udp6_socket(enr)"
    whole = None
    if not fam:
        # one comparison of whole socket addresses instead of a closure per family (c01.whole_address_form)
        import c01
        whole = c01.whole_address_form(facts, ve)
        if whole:
            ok = whole["fam"].get("V4") == ("Enr::udp4_socket(enr)", "V4") and whole["fam"].get("V6") == ("Enr::udp6_socket(enr)", "V6")
    rule.check(ok, "V4 source is compared with udp4_socket, V6 source with udp6_socket", "verify_enr|family",
               "verify_enr compares %s" % ({k: v[0] for k, v in fam.items()} or (whole or {}).get("fam")), loc=ve.loc(ve.line))
    if whole:
        for fam_name in ("V4", "V6"):
            rule.check(whole["absent_passes"] and whole["present_compared"], "%s: advertised socket == observed socket (absent passes)" % fam_name, "verify_enr|equality|%s" % fam_name,
                       "verify_enr's %s clause is not an equality between the advertised and the observed socket" % fam_name, loc=ve.loc(ve.line))
    n = 0
    for fam_name, (sock, clo) in fam.items():
        if clo[0] != "agg":
            continue
        cb = facts.bodies.get(clo[1].split(":", 1)[1])
        if cb is None:
            continue
        rule.analysed(cb)
        c = comparison(Prov(cb, facts).local(0))
        up = dict(clo[2])
        okc = c is not None and c[0] == "==" and {fmt_short(c[1]), fmt_short(c[2])} == {"socket_addr", "advertized_addr"} and \
            "node_address.socket_addr" in fmt_short(up.get("socket_addr", ("unknown", "")))
        n += okc
        rule.check(okc, "%s: advertised socket == observed socket (absent passes)" % fam_name, "verify_enr|equality|%s" % fam_name,
                   "verify_enr's %s clause is not an equality between the advertised and the observed socket" % fam_name, loc=cb.loc(cb.line))
    # incoming Established guarded by verify_enr: C01.R4 checks the guard; here: the Incoming direction is only reported from that site
    ham = facts.bodies.get(H + "handle_auth_message::{closure#0}")
    if ham is None:
        raise AnchorError("handle_auth_message not found")
    rule.analysed(ham)
    hp = Prov(ham, facts)
    hg = Guards(ham, hp, facts)
    found = False
    for blk in ham.blocks:
        for s in blk.stmts:
            if s.k == "a" and s.rv.k == "agg" and s.rv.j.get("variant") == "Established" and s.rv.j.get("def") == "crate::handler::HandlerOut":
                found = True
                rec = roots(hp.operand(s.rv.ops[0]))

                def is_ver(e):
                    return e[0] == "call" and e[1] == H + "verify_enr" and roots(e[2][1]) == rec
                pe = bool_pass_edges(hg, is_ver)
                r = ham.reachable(0, removed_edges=pe)
                rule.check(bool(pe) and blk.idx not in r, "incoming Established only past verify_enr", "incoming|verify_enr",
                           "an incoming session is reported as established without verify_enr", loc=ham.loc(s.line))
    if not found:
        raise AnchorError("incoming Established construction not found")
    return rule


def r6(ctx):
    """'contactable in the node's IP mode': what IpMode::get_contactable_addr accepts as an address"""
    facts = ctx.facts
    rule = Rule("C12.R6", "contactable address: an IPv6 endpoint is taken from a record only where the IPv4-mapped test is applied to it (a mapped address is not contactable)",
                floor=3, engine="A-who + A-prov + A-dom")
    GC = "crate::ipmode::IpMode::get_contactable_addr"
    b = facts.one(re.escape(GC) + "$")
    rule.analysed(b)
    # functions of the module (each with its closures) that read the record's IPv6 endpoint
    fam = {}
    for pth, bb in sorted(facts.bodies.items()):
        if pth.startswith("crate::ipmode::") and "::tests::" not in pth and "::test::" not in pth and "{closure" not in pth:
            # a function together with the closures it builds (wherever their bodies are filed: after helper inlining a closure of the helper
            # is built by the caller)
            fam[pth] = [bb] + [cb for cb, cp, tc in closures_of(facts, bb)]
    reads6 = lambda bb: any(re.search(r"Enr(<.*>)?::(udp6_socket|ip6|udp6)$", short(t.callee() or "")) for bi, t in bb.calls())
    readers = {fn: bodies for fn, bodies in fam.items() if any(reads6(x) for x in bodies)}
    rule.check(bool(readers), "some function of crate::ipmode reads the IPv6 endpoint", "contactable|reader", "no function of crate::ipmode reads Enr::udp6_socket")
    for fn, bodies in sorted(readers.items()):
        tested = [x for x in bodies if any((t.callee() or "").endswith("ipmode::to_ipv4_mapped") for bi, t in x.calls())]
        okp = False
        for tb in tested:
            rule.analysed(tb)
            tp = Prov(tb, facts)
            g = Guards(tb, tp, facts)
            ret = canon(tp.local(0))
            # a predicate closure (`filter(|a| to_ipv4_mapped(a.ip()).is_none())`): its value is "not mapped"
            inner, neg = ret, False
            while inner[0] == "un" and inner[1] == "Not":
                inner, neg = inner[2], not neg
            if inner[0] == "call" and re.search(r"Option::is_(some|none)$", short(inner[1])) and any(x[0] == "call" and short(x[1]).endswith("to_ipv4_mapped") for x in walk(inner)):
                okp = okp or (short(inner[1]).endswith("is_none") != neg)
                continue
            # a selecting body (`if mapped.is_some() { None } else { Some(addr) }`): no Some is built past the "is mapped" edge
            mapped = []
            for bi, t, e in g.switches():
                i2, n2 = e, False
                while i2[0] == "un" and i2[1] == "Not":
                    i2, n2 = i2[2], not n2
                if i2[0] == "call" and re.search(r"Option::is_(some|none)$", short(i2[1])) and any(x[0] == "call" and short(x[1]).endswith("to_ipv4_mapped") for x in walk(i2)):
                    f_, tr_ = g.bool_edges(bi)
                    mapped.append((bi, tr_ if (short(i2[1]).endswith("is_some") != n2) else f_))
                elif i2[0] == "discr" and any(x[0] == "call" and short(x[1]).endswith("to_ipv4_mapped") for x in walk(i2)):
                    so, no = option_edges(g, lambda y: y[0] == "call" and short(y[1]).endswith("to_ipv4_mapped"))
                    mapped += so
            some_sites = [blk.idx for blk in tb.blocks for st_ in blk.stmts if st_.k == "a" and st_.rv.k == "agg" and st_.rv.j.get("variant") == "Some" and blk.idx in tb.live_blocks()]
            if mapped and some_sites and not any(x in tb.reachable(tgt) for mb, tgt in mapped for x in some_sites):
                okp = True
        rule.check(okp, "%s applies the IPv4-mapped test to the IPv6 endpoint it reads (mapped: no address)" % fn.split("::")[-1], "contactable|raw-ipv6",
                   "%s reads the record's IPv6 endpoint without applying the IPv4-mapped test to it: a record whose IPv6 field holds an IPv4-mapped address counts as "
                   "contactable and can enter or stay in the routing table" % fn, loc=bodies[0].loc(bodies[0].line))
    # get_contactable_addr produces addresses from these readers / the IPv4 endpoint only
    p = Prov(b, facts)
    ret = p.local(0)
    alts = list(ret[1]) if ret[0] == "phi" else [ret]
    txts = [fmt(a, -60) for a in alts]
    okk = bool(alts) and all(any(r.split("::")[-1] in txt for r in readers) or "udp4_socket" in txt or "udp6_socket" in txt or
                             any(x[0] == "agg" and isinstance(x[1], str) and x[1].startswith("closure:") for x in walk(a)) for a, txt in zip(alts, txts))
    rule.check(okk, "every arm returns an endpoint of the record", "contactable|arms", "IpMode::get_contactable_addr returns %s" % fmt_short(ret)[:200], loc=b.loc(b.line))
    return rule


def run(ctx):
    G = lambda l, f, *a: guarded("C12." + l, f, ctx, *a)
    x = G("R3-R5", r3_r5)
    return G("R1", r1) + G("R2", r2) + x[:1] + G("R4", r4) + x[1:] + G("R6", r6)
