"""C19 — Encryption nonces are never reused."""
import re

from analysis import (Prov, Guards, fmt, fmt_short, walk, roots, short, comparison, find_calls, callee_matches,
                      must_pass, writes_into, write_range, aliases_of, linear)
from facts import AnchorError, strip_closure
from harness import Rule, guarded

PID = "C19"
EXPLANATION = (
    "Who-may-call and provenance rules over the MIR of the encryption paths. R1: crypto::encrypt_message is called only "
    "from Session::encrypt_message and Session::encrypt_with_header; in the former the 12-byte nonce is the message_nonce "
    "buffer whose bytes 0..4 are written from self.counter read after the increment and whose bytes 4.. are written from "
    "rand::random, and that same buffer is the header's nonce; in the latter (fresh keys from generate_session_keys of the "
    "same call) the whole nonce comes from rand::random. R2: Session.counter is written only as the constant 0 in "
    "Session::new and by +1 in encrypt_message on every path to the encryption; update and the key rotation of "
    "decrypt_message never write it (keys can rotate back to old_keys: a reset would repeat a (key, counter) prefix). R3: a "
    "retransmission is the stored packet (byte-identical) and re-keying re-encrypts every replayed request. R4: WHOAREYOU "
    "id-nonces and random packets take their nonce/body from the RNG only.")
EXPLANATION += (' Added while testing: R1 also requires the random handshake nonce never to be written into before use; R2 also treats mem::replace / swap / take of a whole Session as a write of the counter.')
NOT_DECIDED = ["uniqueness of the random parts (probabilistic)", "u32 counter wrap after 2^32 messages in one session (debug builds panic, release wraps)"]
TRUSTED = ["rand::random / Rng::try_fill produce fresh random bytes", "copy_from_slice writes exactly the indexed sub-slice"]

S = "crate::handler::session::Session::"
CR = "crate::handler::crypto::"
H = "crate::handler::Handler::"


def local_named(b, name):
    for i, l in enumerate(b.locals):
        if l.get("name") == name:
            return i
    raise AnchorError("%s: no local named %s" % (b.path, name))


def r1(ctx):
    facts = ctx.facts
    rule = Rule("C19.R1", "who encrypts and with what nonce", floor=6, engine="A-who + A-prov")
    callers = facts.callers_of(lambda n: n == CR + "encrypt_message")
    who = sorted(set(strip_closure(p) for p in callers))
    rule.check(who == [S + "encrypt_message", S + "encrypt_with_header"], "callers of crypto::encrypt_message: %s" % [w.split("::")[-1] for w in who],
               "encrypt|callers", "crypto::encrypt_message is called from %s" % who)
    aead = facts.callers_of(lambda n: re.search(r"Aead.*::encrypt$", n) is not None)
    who2 = sorted(set(strip_closure(p) for p in aead))
    rule.check(who2 == [CR + "encrypt_message"], "AEAD encrypt is reached only through crypto::encrypt_message", "aead|callers", "Aead::encrypt is called from %s" % who2)
    # Session::encrypt_message
    b = facts.one(re.escape(S) + "encrypt_message")
    rule.analysed(b)
    p = Prov(b, facts)
    enc = [(bi, t) for bi, t in b.calls() if (t.callee() or "") == CR + "encrypt_message"]
    if len(enc) != 1:
        raise AnchorError("Session::encrypt_message: expected one crypto::encrypt_message call")
    ebi, et = enc[0]
    # the nonce operand is a copy of the buffer local
    nl = None
    for s in b.blocks[ebi].stmts[::-1]:
        if s.k == "a" and s.lhs.is_local() and et.args[1].place is not None and s.lhs.local == et.args[1].place.local and s.rv.k == "use" and s.rv.ops[0].place is not None:
            nl = s.rv.ops[0].place.local
    if nl is None:
        for blk in b.blocks:
            for s in blk.stmts:
                if s.k == "a" and s.lhs.is_local() and et.args[1].place is not None and s.lhs.local == et.args[1].place.local and s.rv.k == "use" and s.rv.ops[0].place is not None:
                    nl = s.rv.ops[0].place.local
    if nl is None:
        raise AnchorError("Session::encrypt_message: the nonce argument is not a copy of a local buffer")
    ws = writes_into(b, p, nl, follow_moves=True)
    lo = [(bi, src, write_range(b, p, t)) for bi, m, src, t in ws if m == "copy_from_slice"]
    cnt = [(bi, src) for bi, src, rg in lo if rg == (0, 4)]
    rnd = [(bi, src) for bi, src, rg in lo if rg == (4, None) or rg == (4, 12)]
    okc = len(cnt) == 1 and all(x[0] == "call" and re.search(r"to_be_bytes$|to_le_bytes$", short(x[1])) and fmt_short(x[2][0]) == "self.counter" for x in roots(cnt[0][1][0])) if cnt else False
    okr = len(rnd) == 1 and all(x[0] == "call" and short(x[1]) == "rand::random" for x in roots(rnd[0][1][0])) if rnd else False
    rule.check(okc, "nonce[0..4] = self.counter bytes", "nonce|counter-part", "the first four nonce bytes are not written from self.counter: %s" % [(fmt_short(s[0]), r) for _, s, r in lo], loc=b.loc(et.line))
    rule.check(okr, "nonce[4..] = rand::random()", "nonce|random-part", "the last eight nonce bytes are not written from rand::random: %s" % [(fmt_short(s[0]), r) for _, s, r in lo], loc=b.loc(et.line))
    others = [m for bi, m, src, t in ws if m != "copy_from_slice"] + [rg for _, _, rg in lo if rg not in ((0, 4), (4, None), (4, 12))]
    rule.check(not others and must_pass(b, [ebi], via_blocks=[x[0] for x in cnt]) and must_pass(b, [ebi], via_blocks=[x[0] for x in rnd]),
               "both parts are written before the encryption, nothing else writes the nonce", "nonce|writes",
               "the nonce buffer is written otherwise (%s) or not on every path before encrypting" % others, loc=b.loc(et.line))
    # the counter read happens after the increment
    incs = []
    for blk in b.blocks:
        for s in blk.stmts:
            if s.k == "a" and "counter" in s.lhs.field_names() and blk.idx in b.live_blocks():
                lf = linear(p.rvalue(s.rv, blk.idx), lambda x: "c" if fmt_short(x) == "self.counter" else None)
                if lf == ({"c": 1}, 1):
                    incs.append(blk.idx)
    reads = []
    for blk in b.blocks:
        for s in blk.stmts:
            if s.k == "a" and s.rv.k == "use" and s.rv.ops[0].place is not None and "counter" in s.rv.ops[0].place.field_names() and blk.idx in b.live_blocks():
                reads.append(blk.idx)
    # reads feeding the nonce are those not in the increment's own block before the write
    nonce_reads = [r for r in reads if r not in incs or True]
    okk = bool(incs) and must_pass(b, [ebi], via_blocks=incs) and all(must_pass(b, [x[0]], via_blocks=incs) for x in cnt)
    rule.check(okk, "self.counter += 1 precedes the read used for the nonce and the encryption on every path", "counter|increment-first",
               "Session::encrypt_message does not increment the counter before using it for the nonce", loc=b.loc(b.line))
    # the header carries the same nonce, the key is the session's encryption key
    hdr_ok = False
    for blk in b.blocks:
        for s in blk.stmts:
            if s.k == "a" and s.rv.k == "agg" and s.rv.j.get("def") == "crate::packet::PacketHeader":
                f = dict(zip(s.rv.j["fields"], s.rv.ops))
                o = f["message_nonce"]
                if o.place is not None:
                    for s2 in blk.stmts:
                        if s2.k == "a" and s2.lhs.is_local() and s2.lhs.local == o.place.local and s2.rv.k == "use" and s2.rv.ops[0].place is not None and s2.rv.ops[0].place.local == nl:
                            hdr_ok = True
    rule.check(hdr_ok, "the packet header carries the very nonce used for encryption", "nonce|header", "the header's message_nonce is not the nonce buffer used for encryption", loc=b.loc(b.line))
    rule.check(fmt_short(p.operand(et.args[0])) == "self.keys.encryption_key", "key = self.keys.encryption_key", "encrypt|key",
               "Session::encrypt_message encrypts under %s" % fmt_short(p.operand(et.args[0])), loc=b.loc(et.line))
    # encrypt_with_header
    b2 = facts.one(re.escape(S) + "encrypt_with_header")
    rule.analysed(b2)
    p2 = Prov(b2, facts)
    enc2 = [(bi, t) for bi, t in b2.calls() if (t.callee() or "") == CR + "encrypt_message"]
    if len(enc2) != 1:
        raise AnchorError("encrypt_with_header: expected one crypto::encrypt_message call")
    bi2, t2 = enc2[0]
    n_e = p2.operand(t2.args[1])
    k_e = p2.operand(t2.args[0])
    rule.check(all(x[0] == "call" and short(x[1]) == "rand::random" for x in roots(n_e)) and roots(n_e), "handshake nonce = rand::random()", "handshake|nonce",
               "the handshake message nonce derives from %s" % fmt_short(n_e), loc=b2.loc(t2.line))
    # ... the whole of it: the random buffer is not written into before it is used (part of it overwritten with a constant or a counter makes
    # the handshake message share a nonce prefix with a message of the new session, which is sealed under the same key)
    import c02
    nl = c02.base_local(b2, t2.args[1].place.local) if t2.args[1].place is not None else None
    touched = c02.mut_borrowed_locals(b2, nl, bi2) if nl is not None else [("?", 0, "nonce local not found")]
    rule.check(not touched, "the random handshake nonce is used as generated (never written into)", "handshake|nonce-overwritten",
               "Session::encrypt_with_header writes into the random nonce buffer before using it (%s): part of the handshake message's nonce is not random"
               % ", ".join("%s at line %s" % (k, l) for _, l, k in touched), loc=b2.loc(t2.line))
    rule.check(any(x[0] == "call" and x[1] == CR + "generate_session_keys" for x in walk(k_e)), "handshake key = fresh generate_session_keys(..) of this call", "handshake|key",
               "the handshake message is encrypted under %s" % fmt_short(k_e), loc=b2.loc(t2.line))
    na = [(bi, t) for bi, t in b2.calls() if (t.callee() or "") == "crate::packet::Packet::new_authheader"]
    rule.check(len(na) == 1 and roots(p2.operand(na[0][1].args[1])) == roots(n_e), "the handshake packet header carries that nonce", "handshake|header",
               "Packet::new_authheader is given a different nonce than the encryption", loc=b2.loc(t2.line))
    return rule


def r2(ctx):
    facts = ctx.facts
    rule = Rule("C19.R2", "the counter only grows: written as 0 in Session::new and by +1 in encrypt_message only", floor=2, engine="A-who")
    writers = {}
    for pth, b in sorted(facts.bodies.items()):
        for blk in b.blocks:
            if blk.idx not in b.live_blocks():
                continue
            for s in blk.stmts:
                if s.k == "a" and "counter" in s.lhs.field_names() and "Session" in b.local_ty(s.lhs.local):
                    writers.setdefault(strip_closure(pth), []).append(("assign", s.line))
                if s.k == "a" and s.rv.k == "ref" and s.rv.j["bk"] == "mut" and "counter" in s.rv.place.field_names() and "Session" in b.local_ty(s.rv.place.local):
                    writers.setdefault(strip_closure(pth), []).append(("&mut", s.line))
                if s.k == "a" and s.rv.k == "agg" and s.rv.j.get("def") == "crate::handler::session::Session":
                    f = dict(zip(s.rv.j["fields"], s.rv.ops))
                    c = f["counter"].const_int()
                    writers.setdefault(strip_closure(pth), []).append(("construct:%s" % c, s.line))
                # whole-struct overwrite of a Session (mem::replace / assignment through &mut)
                if s.k == "a" and s.lhs.proj == ("*",) and b.local_ty(s.lhs.local).endswith("&mut crate::handler::session::Session"):
                    writers.setdefault(strip_closure(pth), []).append(("overwrite", s.line))
        for bi, t in b.calls():
            if re.search(r"mem::(replace|swap|take)(::<.*>)?$", t.callee() or "") and t.args and t.args[0].place is not None and \
                    re.search(r"&mut crate::handler::session::Session$", b.place_ty(t.args[0].place) or ""):
                writers.setdefault(strip_closure(pth), []).append(("overwrite", t.line))
    ok = set(writers) == {S + "new", S + "encrypt_message"} and [k for k, _ in writers.get(S + "new", [])] == ["construct:0"] and \
        all(k == "assign" for k, _ in writers.get(S + "encrypt_message", []))
    rule.check(ok, "writers of Session.counter: %s" % {k.split("::")[-1]: [x[0] for x in v] for k, v in writers.items()}, "counter|writers",
               "Session.counter is written in %s" % {k: v for k, v in writers.items()})
    # sessions are replaced wholesale only through the cache (insert) - update() keeps the counter
    upd = facts.one(re.escape(S) + "update")
    rule.analysed(upd)
    fields = set()
    for blk in upd.blocks:
        for s in blk.stmts:
            if s.k == "a" and s.lhs.local == 1:
                fields |= set(s.lhs.field_names())
            if s.k == "a" and s.rv.k == "ref" and s.rv.j["bk"] == "mut" and s.rv.place.local == 1:
                fields |= set(s.rv.place.field_names())
    rule.check("counter" not in fields and fields, "Session::update rewrites %s, not the counter" % sorted(fields), "update|counter", "Session::update touches the counter", loc=upd.loc(upd.line))
    return rule


def r3(ctx):
    facts = ctx.facts
    rule = Rule("C19.R3", "retransmission is the stored packet; re-keying re-encrypts every replayed request", floor=3, engine="A-prov")
    hrt = facts.coroutine_of(H + "handle_request_timeout")
    rule.analysed(hrt)
    p = Prov(hrt, facts)
    for bi, t in hrt.calls():
        if (t.callee() or "") == H + "send":
            rs = roots(p.operand(t.args[2]))
            rule.check(rs and all(x[0] == "call" and x[1].endswith("RequestCall::packet") for x in rs), "timeout resend = request_call.packet().clone()", "resend|stored",
                       "handle_request_timeout resends %s" % fmt_short(p.operand(t.args[2])), loc=hrt.loc(t.line))
    rar = facts.coroutine_of(H + "replay_active_requests")
    rule.analysed(rar)
    p = Prov(rar, facts)
    pushes = [(bi, t) for bi, t in rar.calls() if callee_matches(t, r"vec::Vec::<.*>::push$", r"Vec::push$")]
    okp = False
    for bi, t in pushes:
        v = p.operand(t.args[1])
        for x in roots(v):
            if x[0] == "agg" and x[1] == "tuple":
                f = dict(x[2])
                if "1" in f and any(y[0] == "call" and y[1] == S + "encrypt_message" for y in walk(f["1"])) and \
                        "Packet::message_nonce(RequestCall::packet(" in fmt_short(f["0"]):
                    okp = True
    rule.check(okp, "replayed packets are (old nonce, session.encrypt_message(..)) pairs", "replay|re-encrypt",
               "replay_active_requests does not re-encrypt the requests it replays", loc=rar.loc(rar.line))
    for bi, t in rar.calls():
        if (t.callee() or "") == H + "send":
            v = fmt_short(p.operand(t.args[2]))
            rule.check(".1" in v and "Iterator>::next(" in v, "replay sends the re-encrypted packets", "replay|send", "replay_active_requests sends %s" % v, loc=rar.loc(t.line))
        if (t.callee() or "").endswith("ActiveRequests::update_packet"):
            rule.check(".0.0" in fmt_short(p.operand(t.args[1])) and ".0.1" in fmt_short(p.operand(t.args[2])), "the stored packet is replaced by the re-encrypted one (later retransmissions are identical to it)",
                       "replay|update", "replay_active_requests updates (%s, %s)" % (fmt_short(p.operand(t.args[1])), fmt_short(p.operand(t.args[2]))), loc=rar.loc(t.line))
    return rule


def r4(ctx):
    facts = ctx.facts
    rule = Rule("C19.R4", "id-nonces and random packets come from the RNG only", floor=3, engine="A-prov")
    sc = facts.coroutine_of(H + "send_challenge")
    rule.analysed(sc)
    p = Prov(sc, facts)
    for bi, t in sc.calls():
        if (t.callee() or "") == "crate::packet::Packet::new_whoareyou":
            rs = roots(p.operand(t.args[1]))
            rule.check(rs and all(x[0] == "call" and short(x[1]) == "rand::random" for x in rs), "WHOAREYOU id_nonce = rand::random()", "whoareyou|id-nonce",
                       "the id-nonce derives from %s" % [fmt_short(x) for x in rs], loc=sc.loc(t.line))
    nr = facts.one(r"crate::packet::Packet::new_random")
    rule.analysed(nr)
    p = Prov(nr, facts)
    nm = [(bi, t) for bi, t in nr.calls() if (t.callee() or "") == "crate::packet::Packet::new_message"]
    if len(nm) != 1:
        raise AnchorError("Packet::new_random: expected one new_message call")
    bi, t = nm[0]
    rs = roots(p.operand(t.args[1]))
    rule.check(rs and all(x[0] == "call" and short(x[1]) == "rand::random" for x in rs), "random packet nonce = rand::random()", "random|nonce",
               "Packet::new_random uses nonce %s" % [fmt_short(x) for x in rs], loc=nr.loc(t.line))
    # body buffer filled by the RNG on every path
    # the buffer behind the body argument: back through moves, borrows and copies (`ciphertext.to_vec()`, `&ciphertext[..]`)
    body_l = t.args[3].place.local if t.args[3].place is not None else None
    for _ in range(8):
        if body_l is None:
            break
        nxt = None
        for b2 in nr.blocks:
            if b2.cleanup:
                continue
            for s_ in b2.stmts:
                if s_.k == "a" and s_.lhs.is_local() and s_.lhs.local == body_l:
                    if s_.rv.place is not None:
                        nxt = s_.rv.place.local
                    elif s_.rv.k in ("use", "cast") and s_.rv.ops[0].place is not None:
                        nxt = s_.rv.ops[0].place.local
            tt = b2.term
            if tt.k == "call" and tt.dest is not None and tt.dest.is_local() and tt.dest.local == body_l and tt.args and tt.args[0].place is not None and \
                    callee_matches(tt, r"slice::<impl \[T\]>::to_vec$|slice::to_vec$|::to_owned$|::clone$|::into_vec$|Deref(Mut)?>?::deref(_mut)?$|::index(_mut)?$|::as_(mut_)?slice$|Vec::<.*>::from$|::into$"):
                nxt = tt.args[0].place.local
        if nxt is None:
            break
        body_l = nxt
    fills = []
    if body_l is not None:
        al = aliases_of(nr, body_l)
        for fbi, ft in nr.calls():
            if callee_matches(ft, r"Rng::try_fill$|Rng::fill$|RngCore::(try_)?fill_bytes$") and len(ft.args) >= 2 and ft.args[1].place is not None and ft.args[1].place.local in al:
                fills.append(fbi)
    rule.check(bool(fills) and must_pass(nr, [bi], via_blocks=fills),
               "random packet body is a buffer filled by the RNG on every path", "random|body",
               "Packet::new_random builds its body without filling it from the RNG", loc=nr.loc(t.line))
    return rule


def run(ctx):
    G = lambda l, f, *a: guarded("C19." + l, f, ctx, *a)
    return G("R1", r1) + G("R2", r2) + G("R3", r3) + G("R4", r4)
