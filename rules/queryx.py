"""Shared extraction for the two iterative-query implementations (closest.rs / predicate.rs):
per function and matched peer state, the set of path summaries (state assignments, num_waiting
delta, returned QueryState, progress assignment). Used by C09 and C10."""
import re

from analysis import (Prov, Guards, fmt, fmt_short, walk, roots, short, comparison, linear, propagate, const_int_of)
from facts import AnchorError
import c13

FILES = {
    "closest": "crate::query_pool::peers::closest::FindNodeQuery::<TNodeId>::",
    "predicate": "crate::query_pool::peers::predicate::PredicateQuery::<TNodeId, TResult>::",
}
STATE_ENUM = {"closest": "crate::query_pool::peers::closest::QueryPeerState", "predicate": "crate::query_pool::peers::predicate::QueryPeerState"}
PROG_ENUM = {"closest": "crate::query_pool::peers::closest::QueryProgress", "predicate": "crate::query_pool::peers::predicate::QueryProgress"}


def block_events(body, prov, which):
    """events per block: ('state', V) ('nw', ±1) ('ret', V) ('progress', V)"""
    ev = {}
    for b in body.blocks:
        if b.cleanup or b.idx not in body.live_blocks():
            continue
        lst = []
        for s in b.stmts:
            if s.k != "a":
                continue
            fields = s.lhs.field_names()
            if fields and fields[-1] == "state" and s.lhs.proj and s.lhs.proj[0] == "*" or (fields and fields[-1] == "state" and "QueryPeerState" in (body.place_ty(s.lhs) or "")):
                e = prov.rvalue(s.rv, b.idx)
                vs = sorted(set(x[1].split("::")[-1] for x in roots(e) if x[0] == "agg" and x[1].startswith(STATE_ENUM[which])))
                if vs:
                    lst.append(("state", "|".join(vs)))
            elif fields and fields[-1] == "num_waiting":
                lf = linear(prov.rvalue(s.rv, b.idx), lambda x: "n" if fmt_short(x).endswith("num_waiting") or x[0] == "phi" else None)
                if lf and lf[0] == {"n": 1} and lf[1] in (1, -1):
                    lst.append(("nw", lf[1]))
                else:
                    lst.append(("nw", "?"))
            elif fields and fields[-1] == "progress":
                e = prov.rvalue(s.rv, b.idx)
                vs = sorted(set(x[1].split("::")[-1] for x in roots(e) if x[0] == "agg" and x[1].startswith(PROG_ENUM[which])))
                if vs:
                    lst.append(("progress", "|".join(vs)))
            elif s.lhs.is_local() and s.lhs.local == 0 and s.rv.k == "agg" and s.rv.j.get("def", "").endswith("QueryState"):
                v = s.rv.j["variant"]
                if v == "Waiting":
                    inner = prov.operand(s.rv.ops[0])
                    kinds = sorted(set(x[1].split("::")[-1] for x in roots(inner) if x[0] == "agg" and "Option::" in x[1]))
                    v = "Waiting:" + "|".join(kinds)
                lst.append(("ret", v))
        if lst:
            ev[b.idx] = lst
    return ev


def peer_state_arms(body, prov, guards, which):
    """switches on the discriminant of a QueryPeerState: [(block, {variant: target}, otherwise target or None)]"""
    out = []
    for bi, t, e in guards.switches():
        if e[0] != "discr":
            continue
        names, pl = guards.variant_names(bi)
        if pl is None:
            continue
        ty = body.place_ty(pl) or ""
        if not ty.endswith("QueryPeerState") and not re.search(r"QueryPeerState$", ty.replace("&", "").strip()):
            continue
        arms = {}
        for v, tb in t.vals:
            arms[names.get(v, str(v))] = tb
        other = t.otherwise
        if body.blocks[other].term.k == "unreachable":
            other = None
        out.append((bi, arms, other, names))
    return out


def extract(facts, which):
    """table: (function, matched state) -> sorted list of path summaries
    summary = (tuple of state assignments, net num_waiting change, returned variant or None, progress assignments)"""
    table = {}
    meta = {}
    for fn in ("next", "on_success", "on_failure"):
        body = facts.one(re.escape(FILES[which] + fn))
        prov = Prov(body, facts)
        g = Guards(body, prov, facts)
        ev = block_events(body, prov, which)
        heads = c13.loop_heads(body)
        arms = peer_state_arms(body, prov, g, which)
        meta[fn] = {"body": body, "prov": prov, "guards": g, "events": ev, "arms": arms, "heads": heads}
        for sw, armmap, other, names in arms:
            entries = list(armmap.items())
            if other is not None:
                rest = sorted(set(names.values()) - set(armmap))
                entries.append(("other(%s)" % ",".join(rest), other))
            # the loop this switch sits in (if any)
            loop = [h for h in heads if sw in body.reachable(h) and h in body.reachable(sw)]
            stop = set(loop)
            for variant, start in entries:
                def transfer(bidx, st):
                    events, started = st
                    if bidx in stop and started:
                        yield None, (events + (("end", "loop"),), True)
                        return
                    for e_ in ev.get(bidx, ()):
                        events = events + (e_,)
                    if len(events) > 8:
                        return
                    t = body.blocks[bidx].term
                    if t.k == "ret":
                        yield None, (events + (("end", "ret"),), True)
                        return
                    for s_ in t.succs():
                        yield s_, (events, True)
                states, exits, parent = propagate(body, ((), False), transfer, start=start)
                sums = set()
                for b_, st_in, (events, _) in exits:
                    states_a = tuple(x[1] for x in events if x[0] == "state")
                    nws = [x[1] for x in events if x[0] == "nw"]
                    nw = "?" if "?" in nws else sum(nws)
                    ret = [x[1] for x in events if x[0] == "ret"]
                    prog = tuple(x[1] for x in events if x[0] == "progress")
                    end = [x[1] for x in events if x[0] == "end"][0]
                    sums.add((states_a, nw, ret[-1] if ret else None, prog, end))
                table.setdefault((fn, variant), set()).update(sums)
    return table, meta
