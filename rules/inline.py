"""Fact-level inlining of small local helper functions.

Purpose (DESIGN.md 7.6): most rules are intraprocedural. A behaviour-preserving refactoring that moves a guard or a release into a
new helper function (`fn ensure_empty(p) -> Result<..>`, `fn release(&mut self, a)`) would make such a rule report a violation on code
where the property holds. When - and only when - a check is about to report violations, the property's rules are evaluated once more on
a copy of the facts in which calls to *helpers the rules know nothing about* are spliced into their callers; the violations are reported
only if they persist there. A helper is: a crate-local, synchronous, non-recursive fn or method with MIR of at most MAX_BLOCKS blocks whose
path did not exist in the pinned tree (known_functions.txt): every function the rules reason about by name, and every function the rules were
confirmed against, is therefore never inlined.

The splice is a plain MIR inline on the JSON facts: callee locals, type indices and blocks are renumbered into the caller, parameters
are assigned from the call's arguments, the return place is copied into the call's destination, `return` becomes a goto to the call's
target."""
import copy
import glob
import json
import os
import re

from facts import Body

MAX_BLOCKS = 400
MAX_ASYNC_BLOCKS = 800
MAX_DEPTH = 3
_HERE = os.path.dirname(os.path.abspath(__file__))
_known = None


def known_words():
    global _known
    if _known is None:
        text = " ".join(open(p).read() for p in glob.glob(os.path.join(_HERE, "*.py")) if not p.endswith("inline.py"))
        _known = set(re.findall(r"[A-Za-z_][A-Za-z_0-9]*", text))
    return _known


_known_fns = None


def known_functions():
    global _known_fns
    if _known_fns is None:
        p = os.path.join(_HERE, "known_functions.txt")
        _known_fns = set(l.strip() for l in open(p) if l.strip() and not l.startswith("#")) if os.path.exists(p) else set()
    return _known_fns


def simple_name(path):
    return re.sub(r"::\{closure#\d+\}", "", path).split("::")[-1]


def is_helper(facts, path, caller_path):
    b = facts.bodies.get(path)
    if b is None or path == caller_path:
        return False
    if not (path.startswith("crate::") or path.startswith("<crate::")):
        return False
    if b.coroutine or b.defkind not in ("Fn", "AssocFn") or "{closure" in path:
        return False
    if len(b.j["blocks"]) > MAX_BLOCKS:
        return False
    if path in known_functions():
        return False
    if async_body_of(facts, path) is not None:
        # an `async fn`: the body proper is the coroutine; it is inlined at `.await` sites of coroutine callers (splice_async)
        cb = facts.bodies[async_body_of(facts, path)]
        if len(cb.j["blocks"]) > MAX_ASYNC_BLOCKS:
            return False
        for blk in cb.j["blocks"]:
            t = blk["term"]
            if t["k"] == "call" and t.get("fn") and (t["fn"].get("inst") or t["fn"].get("decl")) == path:
                return False
        return True
    # no yields, no self-recursion
    for blk in b.j["blocks"]:
        t = blk["term"]
        if t["k"] == "yield":
            return False
        if t["k"] == "call" and t.get("fn") and (t["fn"].get("inst") or t["fn"].get("decl")) == path:
            return False
    return True


def async_body_of(facts, path):
    """for the outer function of an `async fn` (whose MIR only builds the coroutine value): the path of the coroutine body; else None"""
    b = facts.bodies.get(path)
    if b is None:
        return None
    live = [blk for blk in b.j["blocks"] if not blk["cleanup"]]
    aggs = [st for blk in live for st in blk["st"] if st["k"] == "a" and st["r"].get("k") == "agg" and st["r"].get("ak") == "coroutine"]
    others = [st for blk in live for st in blk["st"] if st["k"] == "a" and not (st["r"].get("k") == "agg" and st["r"].get("ak") == "coroutine")]
    calls = [blk for blk in live if blk["term"]["k"] == "call"]
    if len(aggs) != 1 or others or calls or aggs[0]["l"] != [0, []]:
        return None
    cp = aggs[0]["r"].get("def")
    if cp != path + "::{closure#0}" or cp not in facts.bodies:
        return None
    # the coroutine captures exactly the parameters, in order
    ops = aggs[0]["r"]["ops"]
    if len(ops) != b.j["arg_count"] or any(o[0] not in ("c", "m") or o[1] != [i + 1, []] for i, o in enumerate(ops)):
        return None
    return cp


def _fn_of(t):
    return (t.get("fn") or {}).get("decl") or ""


def await_shape(caller, call_block):
    """the `.await` of the future returned by the call terminating `call_block`:
    (local holding the Poll value, block of the Ready arm that reads its payload) or None if the call's result is not awaited at once"""
    call = caller["blocks"][call_block]["term"]
    dest = call.get("dest")
    if dest is None or dest[1] or call.get("t") is None:
        return None
    blk = caller["blocks"][call["t"]]
    t = blk["term"]
    if t["k"] != "call" or not _fn_of(t).endswith("IntoFuture::into_future") or not t["args"] or t["args"][0][0] not in ("c", "m") or t["args"][0][1] != [dest[0], []]:
        return None
    if any(st["k"] == "a" for st in blk["st"]):
        return None
    cur = t.get("t")
    poll = None
    for _ in range(12):
        if cur is None:
            return None
        t = caller["blocks"][cur]["term"]
        if t["k"] == "goto":
            cur = t["t"]
        elif t["k"] == "call":
            if _fn_of(t).endswith("Future::poll"):
                poll = t
                break
            if not re.search(r"Pin::<.*>::new_unchecked$|future::get_context$", _fn_of(t)):
                return None
            cur = t.get("t")
        else:
            return None
    if poll is None or poll["dest"][1] or poll.get("t") is None:
        return None
    pd = poll["dest"][0]
    sw = caller["blocks"][poll["t"]]["term"]
    if sw["k"] != "switch":
        return None
    ready = [b for v, b in sw["vals"] if str(v) == "0"]
    if len(ready) != 1:
        return None
    cur = ready[0]
    for _ in range(4):
        blk = caller["blocks"][cur]
        if blk["st"] or blk["term"]["k"] != "goto":
            break
        cur = blk["term"]["t"]
    return pd, cur


class _Remap:
    def __init__(self, caller, callee):
        self.loff = len(caller["locals"])
        self.boff = len(caller["blocks"])
        self.tymap = {}
        self.caller = caller
        self.callee = callee
        self.tyix = {s: i for i, s in enumerate(caller["tys"])}
        self.subst = {}
        self.upvars = None

    def intern(self, s):
        if s not in self.tyix:
            self.tyix[s] = len(self.caller["tys"])
            self.caller["tys"].append(s)
        return self.tyix[s]

    def ty(self, i):
        if i is None:
            return None
        if i not in self.tymap:
            s = self.callee["tys"][i]
            if s not in self.tyix:
                self.tyix[s] = len(self.caller["tys"])
                self.caller["tys"].append(s)
            self.tymap[i] = self.tyix[s]
        return self.tymap[i]

    def local(self, l):
        return l + self.loff

    def block(self, b):
        return None if b is None else b + self.boff

    def place(self, p):
        if self.upvars is not None and p[0] == 1 and p[1] and isinstance(p[1][0], list) and p[1][0][0] == "f" and p[1][0][1] < len(self.upvars):
            base = self.upvars[p[1][0][1]]
            return [base[0], list(base[1]) + self._proj(p[1][1:])]
        sub = self.subst.get(p[0]) if self.subst else None
        if sub is not None:
            kind, src = sub
            if kind == "ref" and p[1] and p[1][0] == "*":
                inner = self._proj(p[1][1:])
                return [src[0], list(src[1]) + inner]
            if kind == "val":
                inner = self._proj(p[1])
                return [src[0], list(src[1]) + inner]
        return [self.local(p[0]), self._proj(p[1])]

    def _proj(self, elems):
        proj = []
        for e in elems:
            if isinstance(e, list):
                e = list(e)
                if e[0] == "f" and len(e) > 3:
                    e[3] = self.ty(e[3])
                elif e[0] == "i":
                    e[1] = self.local(e[1])
            proj.append(e)
        return proj

    def _place_old(self, p):
        proj = []
        for e in p[1]:
            if isinstance(e, list):
                e = list(e)
                if e[0] == "f" and len(e) > 3:
                    e[3] = self.ty(e[3])
                elif e[0] == "i":
                    e[1] = self.local(e[1])
            proj.append(e)
        return [self.local(p[0]), proj]

    def operand(self, o):
        if o is None:
            return None
        if o[0] in ("c", "m"):
            return [o[0], self.place(o[1])]
        if o[0] == "k":
            c = dict(o[1])
            if "ty" in c:
                c["ty"] = self.ty(c["ty"])
            return ["k", c]
        return o

    def rvalue(self, r):
        r = dict(r)
        for key in ("op", "a", "b"):
            if key in r and isinstance(r[key], list):
                r[key] = self.operand(r[key])
        if "ops" in r:
            r["ops"] = [self.operand(o) for o in r["ops"]]
        if "pl" in r:
            r["pl"] = self.place(r["pl"])
        if "ty" in r and isinstance(r["ty"], int):
            r["ty"] = self.ty(r["ty"])
        return r

    def stmt(self, s):
        s = dict(s)
        if s["k"] == "a":
            s["l"] = self.place(s["l"])
            s["r"] = self.rvalue(s["r"])
        elif s["k"] == "sd":
            s["l"] = self.place(s["l"])
        elif "l" in s and isinstance(s["l"], int):
            s["l"] = self.local(s["l"])
        return s

    def term(self, t):
        t = dict(t)
        k = t["k"]
        if "t" in t:
            t["t"] = self.block(t["t"])
        for key in ("u", "drop", "unwind", "cleanup", "imag"):
            if key in t and isinstance(t[key], int):
                t[key] = self.block(t[key])
        if k == "call":
            t["args"] = [self.operand(a) for a in t["args"]]
            t["dest"] = self.place(t["dest"])
            if t.get("fop"):
                t["fop"] = self.operand(t["fop"])
            if "dty" in t:
                t["dty"] = self.ty(t["dty"])
        elif k == "switch":
            t["d"] = self.operand(t["d"])
            if "dty" in t:
                t["dty"] = self.ty(t["dty"])
            t["vals"] = [[v, self.block(b)] for v, b in t["vals"]]
            t["else"] = self.block(t["else"])
        elif k == "drop":
            t["pl"] = self.place(t["pl"])
        elif k == "assert":
            t["cond"] = self.operand(t["cond"])
        elif k == "yield":
            t["arg"] = self.place(t["arg"])
            if isinstance(t.get("v"), list):
                t["v"] = self.operand(t["v"])
        return t


def _callee_is_pure(callee):
    """no write through a reference and no call that receives a `&mut`: by-value arguments can then be replaced by the places they were read from"""
    for blk in callee["blocks"]:
        if blk["cleanup"]:
            continue
        for st in blk["st"]:
            if st["k"] == "a" and any(e == "*" for e in st["l"][1]):
                return False
        t = blk["term"]
        if t["k"] == "call":
            for a in t["args"]:
                if a[0] in ("c", "m"):
                    ty = callee["tys"][callee["locals"][a[1][0]]["ty"]]
                    if ty.startswith("&mut") or ty.startswith("*mut"):
                        return False
    return True


def _param_is_stable(callee, l, allowed_defs=0):
    """the parameter local is never assigned (beyond `allowed_defs` initialisations), mutably borrowed or moved into a call as a whole"""
    defs = 0
    for blk in callee["blocks"]:
        for st in blk["st"]:
            if st["k"] == "a":
                if st["l"][0] == l and not st["l"][1]:
                    defs += 1
                    if defs > allowed_defs:
                        return False
                r = st["r"]
                if r["k"] in ("ref", "rawptr") and r["pl"][0] == l and not any(e == "*" for e in r["pl"][1]) and (r["k"] == "rawptr" or r.get("bk") == "mut"):
                    return False
        t = blk["term"]
        if t["k"] == "call" and t.get("dest") and t["dest"][0] == l:
            return False
    return True


def param_substitution(caller, call_block, callee):
    """for parameters whose argument is a fresh reborrow / copy made in the call block: the caller place the parameter stands for.
    {callee local: ("ref", place) -> `*param` is `place`; ("val", place) -> `param` is `place`}"""
    call = caller["blocks"][call_block]["term"]
    stmts = caller["blocks"][call_block]["st"]
    pure = _callee_is_pure(callee)
    out = {}
    for i, a in enumerate(call["args"]):
        p = i + 1
        if p > callee["arg_count"] or a[0] not in ("c", "m") or a[1][1]:
            continue
        tl = a[1][0]
        if not _param_is_stable(callee, p):
            continue
        d = None
        for st in reversed(stmts):
            if st["k"] == "a" and st["l"][0] == tl and not st["l"][1]:
                d = st["r"]
                break
            if st["k"] == "a" and st["l"][0] == tl:
                d = None
                break
        if d is None:
            continue
        if d["k"] == "ref":
            out[p] = ("ref", d["pl"])
        elif d["k"] == "use" and d["op"][0] in ("c", "m") and pure:
            out[p] = ("val", d["op"][1])
    return out


def splice(caller, call_block, callee):
    """inline `callee` (body json) at the call terminating block `call_block` of `caller` (body json, modified in place)"""
    call = caller["blocks"][call_block]["term"]
    rm = _Remap(caller, callee)
    span = call.get("s", [0])
    rm.subst = param_substitution(caller, call_block, callee)
    # locals
    for i, d in enumerate(callee["locals"]):
        d = dict(d)
        d["ty"] = rm.ty(d["ty"])
        if i == 0:
            d["name"] = None
        caller["locals"].append(d)
    # entry: parameters := arguments
    entry_stmts = []
    for i, a in enumerate(call["args"]):
        if i + 1 > callee["arg_count"]:
            break
        entry_stmts.append({"k": "a", "l": [rm.local(i + 1), []], "r": {"k": "use", "op": a}, "s": span})
    ret_local = rm.local(0)
    target = call.get("t")
    # blocks
    for bi, blk in enumerate(callee["blocks"]):
        nb = {"cleanup": blk["cleanup"], "st": [rm.stmt(s) for s in blk["st"]], "term": None}
        t = blk["term"]
        if t["k"] == "ret":
            nb["st"].append({"k": "a", "l": call["dest"], "r": {"k": "use", "op": ["m", [ret_local, []]]}, "s": span})
            if target is None:
                nb["term"] = {"k": "unreachable", "s": span}
            else:
                nb["term"] = {"k": "goto", "t": target, "s": span}
        else:
            nb["term"] = rm.term(t)
        caller["blocks"].append(nb)
    # the call block now assigns the parameters and jumps to the callee's entry
    caller["blocks"][call_block]["st"] = caller["blocks"][call_block]["st"] + entry_stmts
    caller["blocks"][call_block]["term"] = {"k": "goto", "t": rm.block(0), "s": span}


def async_param_substitution(caller, call_block, cor):
    """the named locals an `async fn` body moves its captured parameters into (`let self = self;` of the desugaring): when the argument
    is a fresh reborrow made in the call block, `*local` is the caller's place"""
    call = caller["blocks"][call_block]["term"]
    stmts = caller["blocks"][call_block]["st"]
    out = {}
    for st in cor["blocks"][0]["st"]:
        if not (st["k"] == "a" and not st["l"][1] and st["r"]["k"] == "use" and st["r"]["op"][0] in ("c", "m")):
            continue
        src = st["r"]["op"][1]
        if src[0] != 1 or len(src[1]) != 1 or not isinstance(src[1][0], list) or src[1][0][0] != "f":
            continue
        i, k = src[1][0][1], st["l"][0]
        if i >= len(call["args"]):
            continue
        a = call["args"][i]
        if a[0] not in ("c", "m") or a[1][1] or not _param_is_stable(cor, k, allowed_defs=1):
            continue
        tl = a[1][0]
        d = None
        for s2 in reversed(stmts):
            if s2["k"] == "a" and s2["l"][0] == tl:
                d = s2["r"] if not s2["l"][1] else None
                break
        if d is not None and d["k"] == "ref":
            out[k] = ("ref", d["pl"])
    return out


def splice_async(caller, call_block, outer, cor):
    """inline the body `cor` of the async fn `outer` at `outer(args).await` in the coroutine `caller` (modified in place); False if the
    call's future is not awaited on the spot"""
    from facts import _each_place
    shape = await_shape(caller, call_block)
    if shape is None:
        return False
    pd, ready = shape
    call = caller["blocks"][call_block]["term"]
    rm = _Remap(caller, cor)
    span = call.get("s", [0])
    for i, d in enumerate(cor["locals"]):
        d = dict(d)
        d["ty"] = rm.ty(d["ty"])
        if i == 0:
            d["name"] = None
        caller["locals"].append(d)
    entry_stmts = []
    upvars = []
    for i, a in enumerate(call["args"]):
        if i + 1 > outer["arg_count"]:
            break
        od = outer["locals"][i + 1]
        caller["locals"].append({"ty": rm.intern(outer["tys"][od["ty"]]), "name": None, "adt": od.get("adt"), "user": False})
        u = len(caller["locals"]) - 1
        upvars.append([u, []])
        entry_stmts.append({"k": "a", "l": [u, []], "r": {"k": "use", "op": a}, "s": span})
    rm.upvars = upvars
    rm.subst = async_param_substitution(caller, call_block, cor)
    # the callee's task context is the caller's
    entry_stmts.append({"k": "a", "l": [rm.local(2), []], "r": {"k": "use", "op": ["c", [2, []]]}, "s": span})
    for blk in cor["blocks"]:
        nb = {"cleanup": blk["cleanup"], "st": [rm.stmt(s) for s in blk["st"]], "term": None}
        t = blk["term"]
        if t["k"] == "ret":
            nb["term"] = {"k": "goto", "t": ready, "s": span}
        else:
            nb["term"] = rm.term(t)
        caller["blocks"].append(nb)
    caller["blocks"][call_block]["st"] = caller["blocks"][call_block]["st"] + entry_stmts
    caller["blocks"][call_block]["term"] = {"k": "goto", "t": rm.block(0), "s": span}
    # the Ready arm reads the payload of the Poll value: that is the callee's return place now
    ret = rm.local(0)
    for pl in _each_place(caller):
        if pl[0] == pd and len(pl[1]) >= 2 and isinstance(pl[1][0], list) and pl[1][0][0] == "d" and isinstance(pl[1][1], list) and pl[1][1][0] == "f":
            pl[0] = ret
            del pl[1][:2]
    return True


class _Bodies(dict):
    """the bodies of the inlined fact set: closures of a removed helper are not listed (iteration, `in`), but a lookup by their path -
    which is how the spliced code in the callers names them - still finds them"""
    detached = None

    def __missing__(self, k):
        return self.detached[k]

    def get(self, k, default=None):
        if dict.__contains__(self, k):
            return dict.__getitem__(self, k)
        return (self.detached or {}).get(k, default)


def inline_all(facts):
    """a copy of `facts` with helper calls spliced into their callers; returns (new facts, {helper path: number of splices})"""
    new = copy.copy(facts)
    new.bodies = _Bodies(facts.bodies)
    new._callers = None
    counts = {}
    remaining_calls = {}
    for path, b in sorted(facts.bodies.items()):
        if not (path.startswith("crate::") or path.startswith("<crate::")):
            continue
        j = None
        depth_of = {}
        skipped = set()
        changed = True
        rounds = 0
        while changed and rounds < 40:
            changed = False
            rounds += 1
            src = j if j is not None else b.j
            for bi, blk in enumerate(src["blocks"]):
                t = blk["term"]
                if t["k"] != "call" or not t.get("fn"):
                    continue
                callee = t["fn"].get("inst") or t["fn"].get("decl")
                if not callee or not is_helper(facts, callee, path):
                    continue
                d = depth_of.get(bi, 0)
                if d >= MAX_DEPTH or (bi, callee) in skipped:
                    continue
                if j is None:
                    j = copy.deepcopy(b.j)
                first_new = len(j["blocks"])
                cor = async_body_of(facts, callee)
                if cor is not None:
                    if not b.coroutine or not splice_async(j, bi, facts.bodies[callee].j, facts.bodies[cor].j):
                        skipped.add((bi, callee))
                        continue
                else:
                    splice(j, bi, facts.bodies[callee].j)
                for nb in range(first_new, len(j["blocks"])):
                    depth_of[nb] = d + 1
                counts[callee] = counts.get(callee, 0) + 1
                changed = True
                break
        if j is not None:
            new.bodies[path] = Body(j)
    # a helper all of whose call sites were inlined is dead code for the who-may-call rules
    detached = dict(getattr(facts, "detached", {}) or {})
    new.detached = detached
    new.bodies.detached = detached
    still_called = set()
    for path, b in new.bodies.items():
        for blk in b.j["blocks"]:
            t = blk["term"]
            if t["k"] == "call" and t.get("fn"):
                c = t["fn"].get("inst") or t["fn"].get("decl")
                if c in counts and path != c and path not in counts:
                    still_called.add(c)
    for h in list(counts):
        if h not in still_called and h in new.bodies:
            vis = new.bodies[h].j.get("vis")
            if vis != "Public":
                del new.bodies[h]
                # closures of the helper go with it (the spliced code in the callers still builds them: they stay reachable through
                # `detached`, which analysis.closures_of / closure_return_in_caller_terms consult)
                for p in [p for p in new.bodies if p.startswith(h + "::{closure")]:
                    detached[p] = new.bodies[p]
                    del new.bodies[p]
    return new, counts
