"""Fact-level inlining of small local helper functions.

Purpose (DESIGN.md 7.6): most rules are intraprocedural. A behaviour-preserving refactoring that moves a guard or a release into a
new helper function (`fn ensure_empty(p) -> Result<..>`, `fn release(&mut self, a)`) would make such a rule report a violation on code
where the property holds. When - and only when - a check is about to report violations, the property's rules are evaluated once more on
a copy of the facts in which calls to *helpers the rules know nothing about* are spliced into their callers; the violations are reported
only if they persist there. A helper is: a crate-local, synchronous, non-recursive fn or method with MIR of at most MAX_BLOCKS blocks whose
path did not exist in the pinned tree (known_functions.txt): every function the rules reason about by name, and every function the rules were
confirmed against, is therefore never inlined.

The splice is a plain MIR inline on the JSON facts: callee locals, type indices and blocks are renumbered into the caller, parameters
are assigned from the call's arguments, the return place is copied into the call's destination, `return` becomes a goto to the call's
target."""
import copy
import glob
import json
import os
import re

from facts import Body

MAX_BLOCKS = 60
MAX_DEPTH = 3
_HERE = os.path.dirname(os.path.abspath(__file__))
_known = None


def known_words():
    global _known
    if _known is None:
        text = " ".join(open(p).read() for p in glob.glob(os.path.join(_HERE, "*.py")) if not p.endswith("inline.py"))
        _known = set(re.findall(r"[A-Za-z_][A-Za-z_0-9]*", text))
    return _known


_known_fns = None


def known_functions():
    global _known_fns
    if _known_fns is None:
        p = os.path.join(_HERE, "known_functions.txt")
        _known_fns = set(l.strip() for l in open(p) if l.strip() and not l.startswith("#")) if os.path.exists(p) else set()
    return _known_fns


def simple_name(path):
    return re.sub(r"::\{closure#\d+\}", "", path).split("::")[-1]


def is_helper(facts, path, caller_path):
    b = facts.bodies.get(path)
    if b is None or path == caller_path:
        return False
    if not (path.startswith("crate::") or path.startswith("<crate::")):
        return False
    if b.coroutine or b.defkind not in ("Fn", "AssocFn") or "{closure" in path:
        return False
    if len(b.j["blocks"]) > MAX_BLOCKS:
        return False
    if path in known_functions():
        return False
    # no yields, no self-recursion
    for blk in b.j["blocks"]:
        t = blk["term"]
        if t["k"] == "yield":
            return False
        if t["k"] == "call" and t.get("fn") and (t["fn"].get("inst") or t["fn"].get("decl")) == path:
            return False
    return True


class _Remap:
    def __init__(self, caller, callee):
        self.loff = len(caller["locals"])
        self.boff = len(caller["blocks"])
        self.tymap = {}
        self.caller = caller
        self.callee = callee
        self.tyix = {s: i for i, s in enumerate(caller["tys"])}
        self.subst = {}

    def ty(self, i):
        if i is None:
            return None
        if i not in self.tymap:
            s = self.callee["tys"][i]
            if s not in self.tyix:
                self.tyix[s] = len(self.caller["tys"])
                self.caller["tys"].append(s)
            self.tymap[i] = self.tyix[s]
        return self.tymap[i]

    def local(self, l):
        return l + self.loff

    def block(self, b):
        return None if b is None else b + self.boff

    def place(self, p):
        sub = self.subst.get(p[0]) if self.subst else None
        if sub is not None:
            kind, src = sub
            if kind == "ref" and p[1] and p[1][0] == "*":
                inner = self._proj(p[1][1:])
                return [src[0], list(src[1]) + inner]
            if kind == "val":
                inner = self._proj(p[1])
                return [src[0], list(src[1]) + inner]
        return [self.local(p[0]), self._proj(p[1])]

    def _proj(self, elems):
        proj = []
        for e in elems:
            if isinstance(e, list):
                e = list(e)
                if e[0] == "f" and len(e) > 3:
                    e[3] = self.ty(e[3])
                elif e[0] == "i":
                    e[1] = self.local(e[1])
            proj.append(e)
        return proj

    def _place_old(self, p):
        proj = []
        for e in p[1]:
            if isinstance(e, list):
                e = list(e)
                if e[0] == "f" and len(e) > 3:
                    e[3] = self.ty(e[3])
                elif e[0] == "i":
                    e[1] = self.local(e[1])
            proj.append(e)
        return [self.local(p[0]), proj]

    def operand(self, o):
        if o is None:
            return None
        if o[0] in ("c", "m"):
            return [o[0], self.place(o[1])]
        if o[0] == "k":
            c = dict(o[1])
            if "ty" in c:
                c["ty"] = self.ty(c["ty"])
            return ["k", c]
        return o

    def rvalue(self, r):
        r = dict(r)
        for key in ("op", "a", "b"):
            if key in r and isinstance(r[key], list):
                r[key] = self.operand(r[key])
        if "ops" in r:
            r["ops"] = [self.operand(o) for o in r["ops"]]
        if "pl" in r:
            r["pl"] = self.place(r["pl"])
        if "ty" in r and isinstance(r["ty"], int):
            r["ty"] = self.ty(r["ty"])
        return r

    def stmt(self, s):
        s = dict(s)
        if s["k"] == "a":
            s["l"] = self.place(s["l"])
            s["r"] = self.rvalue(s["r"])
        elif s["k"] == "sd":
            s["l"] = self.place(s["l"])
        elif "l" in s and isinstance(s["l"], int):
            s["l"] = self.local(s["l"])
        return s

    def term(self, t):
        t = dict(t)
        k = t["k"]
        if "t" in t:
            t["t"] = self.block(t["t"])
        for key in ("u", "drop", "unwind", "cleanup", "imag"):
            if key in t and isinstance(t[key], int):
                t[key] = self.block(t[key])
        if k == "call":
            t["args"] = [self.operand(a) for a in t["args"]]
            t["dest"] = self.place(t["dest"])
            if t.get("fop"):
                t["fop"] = self.operand(t["fop"])
            if "dty" in t:
                t["dty"] = self.ty(t["dty"])
        elif k == "switch":
            t["d"] = self.operand(t["d"])
            if "dty" in t:
                t["dty"] = self.ty(t["dty"])
            t["vals"] = [[v, self.block(b)] for v, b in t["vals"]]
            t["else"] = self.block(t["else"])
        elif k == "drop":
            t["pl"] = self.place(t["pl"])
        elif k == "assert":
            t["cond"] = self.operand(t["cond"])
        elif k == "yield":
            t["arg"] = self.place(t["arg"])
        return t


def _callee_is_pure(callee):
    """no write through a reference and no call that receives a `&mut`: by-value arguments can then be replaced by the places they were read from"""
    for blk in callee["blocks"]:
        if blk["cleanup"]:
            continue
        for st in blk["st"]:
            if st["k"] == "a" and any(e == "*" for e in st["l"][1]):
                return False
        t = blk["term"]
        if t["k"] == "call":
            for a in t["args"]:
                if a[0] in ("c", "m"):
                    ty = callee["tys"][callee["locals"][a[1][0]]["ty"]]
                    if ty.startswith("&mut") or ty.startswith("*mut"):
                        return False
    return True


def _param_is_stable(callee, l):
    """the parameter local is never assigned, mutably borrowed or moved into a call as a whole"""
    for blk in callee["blocks"]:
        for st in blk["st"]:
            if st["k"] == "a":
                if st["l"][0] == l and not st["l"][1]:
                    return False
                r = st["r"]
                if r["k"] in ("ref", "rawptr") and r["pl"][0] == l and not any(e == "*" for e in r["pl"][1]) and (r["k"] == "rawptr" or r.get("bk") == "mut"):
                    return False
        t = blk["term"]
        if t["k"] == "call" and t.get("dest") and t["dest"][0] == l:
            return False
    return True


def param_substitution(caller, call_block, callee):
    """for parameters whose argument is a fresh reborrow / copy made in the call block: the caller place the parameter stands for.
    {callee local: ("ref", place) -> `*param` is `place`; ("val", place) -> `param` is `place`}"""
    call = caller["blocks"][call_block]["term"]
    stmts = caller["blocks"][call_block]["st"]
    pure = _callee_is_pure(callee)
    out = {}
    for i, a in enumerate(call["args"]):
        p = i + 1
        if p > callee["arg_count"] or a[0] not in ("c", "m") or a[1][1]:
            continue
        tl = a[1][0]
        if not _param_is_stable(callee, p):
            continue
        d = None
        for st in reversed(stmts):
            if st["k"] == "a" and st["l"][0] == tl and not st["l"][1]:
                d = st["r"]
                break
            if st["k"] == "a" and st["l"][0] == tl:
                d = None
                break
        if d is None:
            continue
        if d["k"] == "ref":
            out[p] = ("ref", d["pl"])
        elif d["k"] == "use" and d["op"][0] in ("c", "m") and pure:
            out[p] = ("val", d["op"][1])
    return out


def splice(caller, call_block, callee):
    """inline `callee` (body json) at the call terminating block `call_block` of `caller` (body json, modified in place)"""
    call = caller["blocks"][call_block]["term"]
    rm = _Remap(caller, callee)
    span = call.get("s", [0])
    rm.subst = param_substitution(caller, call_block, callee)
    # locals
    for i, d in enumerate(callee["locals"]):
        d = dict(d)
        d["ty"] = rm.ty(d["ty"])
        if i == 0:
            d["name"] = None
        caller["locals"].append(d)
    # entry: parameters := arguments
    entry_stmts = []
    for i, a in enumerate(call["args"]):
        if i + 1 > callee["arg_count"]:
            break
        entry_stmts.append({"k": "a", "l": [rm.local(i + 1), []], "r": {"k": "use", "op": a}, "s": span})
    ret_local = rm.local(0)
    target = call.get("t")
    # blocks
    for bi, blk in enumerate(callee["blocks"]):
        nb = {"cleanup": blk["cleanup"], "st": [rm.stmt(s) for s in blk["st"]], "term": None}
        t = blk["term"]
        if t["k"] == "ret":
            nb["st"].append({"k": "a", "l": call["dest"], "r": {"k": "use", "op": ["m", [ret_local, []]]}, "s": span})
            if target is None:
                nb["term"] = {"k": "unreachable", "s": span}
            else:
                nb["term"] = {"k": "goto", "t": target, "s": span}
        else:
            nb["term"] = rm.term(t)
        caller["blocks"].append(nb)
    # the call block now assigns the parameters and jumps to the callee's entry
    caller["blocks"][call_block]["st"] = caller["blocks"][call_block]["st"] + entry_stmts
    caller["blocks"][call_block]["term"] = {"k": "goto", "t": rm.block(0), "s": span}


def inline_all(facts):
    """a copy of `facts` with helper calls spliced into their callers; returns (new facts, {helper path: number of splices})"""
    new = copy.copy(facts)
    new.bodies = dict(facts.bodies)
    new._callers = None
    counts = {}
    remaining_calls = {}
    for path, b in sorted(facts.bodies.items()):
        if not (path.startswith("crate::") or path.startswith("<crate::")):
            continue
        j = None
        depth_of = {}
        changed = True
        rounds = 0
        while changed and rounds < 40:
            changed = False
            rounds += 1
            src = j if j is not None else b.j
            for bi, blk in enumerate(src["blocks"]):
                t = blk["term"]
                if t["k"] != "call" or not t.get("fn"):
                    continue
                callee = t["fn"].get("inst") or t["fn"].get("decl")
                if not callee or not is_helper(facts, callee, path):
                    continue
                d = depth_of.get(bi, 0)
                if d >= MAX_DEPTH:
                    continue
                if j is None:
                    j = copy.deepcopy(b.j)
                first_new = len(j["blocks"])
                splice(j, bi, facts.bodies[callee].j)
                for nb in range(first_new, len(j["blocks"])):
                    depth_of[nb] = d + 1
                counts[callee] = counts.get(callee, 0) + 1
                changed = True
                break
        if j is not None:
            new.bodies[path] = Body(j)
    # a helper all of whose call sites were inlined is dead code for the who-may-call rules
    still_called = set()
    for path, b in new.bodies.items():
        for blk in b.j["blocks"]:
            t = blk["term"]
            if t["k"] == "call" and t.get("fn"):
                c = t["fn"].get("inst") or t["fn"].get("decl")
                if c in counts and path != c and path not in counts:
                    still_called.add(c)
    for h in list(counts):
        if h not in still_called and h in new.bodies:
            vis = new.bodies[h].j.get("vis")
            if vis != "Public":
                del new.bodies[h]
                # closures of the helper go with it
                for p in [p for p in new.bodies if p.startswith(h + "::{closure")]:
                    del new.bodies[p]
    return new, counts
