"""C05 — Packet wire codec is exact, total and strict (structural clauses)."""
import re

from analysis import (flow_key, Prov, Guards, fmt, fmt_short, walk, roots, short, comparison, find_calls, callee_matches,
                      must_pass, const_int_of, writes_into, _lin_add, canon, slice_span, normalised_cmp, cmp_intervals, closure_return_in_caller_terms, linear)
from aff import Aff, Fact
from facts import AnchorError, strip_closure
from harness import Rule, guarded
from c01 import bool_pass_edges

PID = "C05"
EXPLANATION = (
    "Affine / dominance / sibling-table rules over the MIR of the packet codec. R1: the comparison facts dominating every Ok "
    "return of Packet::decode entail exactly MIN_PACKET_SIZE <= len(data) <= MAX_PACKET_SIZE with the constants evaluating to 63 "
    "(= IV_LENGTH + STATIC_HEADER_LENGTH + 24) and 1280. R2 (strictness): every Ok of Packet::decode is past the protocol-id and "
    "version equality, past auth_data_size <= remaining, past Ok(PacketKind::decode) and not on the `WHOAREYOU with a body` edge; the "
    "facts dominating each Ok of PacketKind::decode entail len == 32, len == 24, resp. len >= 34 + sig + key, and the unknown-kind arm "
    "only returns Err. R3 (writer/reader agreement): the kind byte table of From<&PacketKind> for u8 equals the arm table of "
    "PacketKind::decode; the static header written by PacketHeader::encode (6, 2, 1, 12, 2 bytes = STATIC_HEADER_LENGTH) is read back "
    "from exactly those ranges with those meanings; per-kind auth-data prefixes agree (32; 16+8; 32+1+1); encrypt_header and decode key "
    "the same cipher with the first 16 bytes of the id and the IV. R4 (no panic on any input): every panic-capable site of "
    "Packet::decode, PacketKind::decode and ChallengeData::try_from (index / range / overflow asserts, try_into().expect, "
    "copy/clone_from_slice, explicit panics) is an affine obligation entailed (Fourier-Motzkin) by the facts on the edges dominating it.")
NOT_DECIDED = ["decode(encode(p)) == p and byte-exactness against the specification (value level; R3 is the part visible as agreeing tables)",
               "that a datagram masked for another id is rejected (a probabilistic statement about AES-CTR output)"]
TRUSTED = ["Enr::decode, NodeId::parse, the AES-CTR keystream and Vec operations do not panic on any input"]
TECHNIQUE = "static analysis over type-checked MIR: affine obligations with Fourier-Motzkin entailment from dominating guard facts, dominance, writer/reader table comparison"

P = "crate::packet::"


def r1_r2(ctx):
    facts = ctx.facts
    r1 = Rule("C05.R1", "accepted datagram lengths are exactly [MIN_PACKET_SIZE, MAX_PACKET_SIZE] = [63, 1280]", floor=3, engine="A-aff")
    r2 = Rule("C05.R2", "strictness guards of Packet::decode and PacketKind::decode", floor=9, engine="A-dom + A-aff")
    mx = facts.const_value(P + "MAX_PACKET_SIZE")
    mn = facts.const_value(P + "MIN_PACKET_SIZE")
    iv = facts.const_value(P + "IV_LENGTH")
    sh = facts.const_value(P + "STATIC_HEADER_LENGTH")
    r1.check(mx == 1280 and mn == 63 and mn == iv + sh + 24, "MAX_PACKET_SIZE = 1280, MIN_PACKET_SIZE = 63 = IV_LENGTH + STATIC_HEADER_LENGTH + 24", "consts",
             "MAX_PACKET_SIZE = %d, MIN_PACKET_SIZE = %d, IV_LENGTH = %d, STATIC_HEADER_LENGTH = %d" % (mx, mn, iv, sh))
    b = facts.one(re.escape(P + "Packet::decode"))
    r1.analysed(b)
    r2.analysed(b)
    a = Aff(b, facts)
    p, g = a.prov, a.guards
    oks = [blk for lhs, kind, payload, blk, _l in p.defs.get(0, ()) if kind == "rv" and payload.k == "agg" and payload.j.get("variant") == "Ok" and blk in b.live_blocks()]
    if not oks:
        raise AnchorError("Packet::decode has no Ok return")
    L = a.length(("param", b_idx(b, "data"), "data"))
    for ok in oks:
        lo_ok = not a.prove(ok, [("le", ({}, mn), L, "len >= MIN")])
        lo_tight = bool(a.prove(ok, [("le", ({}, mn + 1), L, "len >= MIN+1")]))
        hi_ok = not a.prove(ok, [("le", L, ({}, mx), "len <= MAX")])
        hi_tight = bool(a.prove(ok, [("le", L, ({}, mx - 1), "len <= MAX-1")]))
        r1.check(lo_ok and hi_ok, "Ok(..) only for %d <= len(data) <= %d" % (mn, mx), "decode|length-bounds",
                 "Packet::decode can accept a datagram shorter than %d or longer than %d bytes" % (mn, mx), loc=b.loc(b.line))
        r1.check(lo_tight and hi_tight, "the bounds are exact (63 and 1280 themselves are accepted)", "decode|length-tight",
                 "Packet::decode rejects datagrams of a legal length (the dominating facts entail a stricter bound than [%d, %d])" % (mn, mx), loc=b.loc(b.line))
    # R2: guards
    def eq_edges(pred):
        out = []
        for bi, t, e in g.switches():
            c = comparison(e)
            if c and c[0] in ("==", "!=") and pred(fmt_short(c[1]), fmt_short(c[2])):
                f, tr = g.bool_edges(bi)
                out.append((bi, tr if c[0] == "==" else f))
        return out
    pid_e = eq_edges(lambda x, y: x.endswith("protocol_identity.protocol_id") or y.endswith("protocol_identity.protocol_id"))
    ver_e = eq_edges(lambda x, y: x.endswith("protocol_identity.protocol_version") or y.endswith("protocol_identity.protocol_version"))
    sz_e = []
    # the same guard in any arithmetic spelling: with size = the declared auth-data size and rest = len(data) - 39, the datagram is accepted only
    # where size <= rest (`size > data[39..].len()`, `39 + size > data.len()`, `data.len() - 39 < size`, ..)
    def sz_atom(x):
        x = canon(x)
        y = x
        while y[0] == "cast":
            y = canon(y[1])
        if y[0] == "call" and re.search(r"from_be_bytes$|From>?::from$|Into>?::into$", short(y[1])) and "from_be_bytes" in fmt_short(y) and \
                not any(z[0] == "bin" for z in walk(y) if isinstance(z, tuple) and z and z is not y and z[0] == "bin" and "WithOverflow" in str(z[1]) and "from_be_bytes" in fmt_short(z)):
            return "size"
        if (x[0] == "call" and re.search(r"::len$", short(x[1])) and x[2]) or (x[0] == "un" and x[1] == "PtrMetadata"):
            base, st, en = slice_span(x[2][0] if x[0] == "call" else x[2])
            if canon(base) == ("param", 3, b.local_name(3) or "data") and en is None and st is not None and not st[0]:
                return ({"len": 1}, -st[1])
        return None
    for bi, t, e in g.switches():
        nc = normalised_cmp(e, sz_atom)
        if nc and set(nc[0]) == {"size", "len"} and nc[0]["size"] == -nc[0]["len"] and abs(nc[0]["size"]) == 1 and nc[2] not in ("==", "!="):
            # x = size - len + k' ...: accepted where size - (len - 39) <= 0
            sgn = nc[0]["size"]
            ivs = cmp_intervals(sgn, nc[1] - sgn * 39 + sgn * 39, nc[2])
            # normalise to y = size - len + 39: nc says sgn*size - sgn*len + k op 0 ; y = size - len + 39 => sgn*y + (k - sgn*39) op 0
            ivs = cmp_intervals(sgn, nc[1] - sgn * 39, nc[2])
            f, tr = g.bool_edges(bi)
            if ivs is not None:
                (lo_t, hi_t), (lo_f, hi_f) = ivs
                if hi_t is not None and hi_t <= 0 and lo_f is not None and lo_f >= 1 and (bi, tr) not in sz_e:
                    sz_e.append((bi, tr))
                elif hi_f is not None and hi_f <= 0 and lo_t is not None and lo_t >= 1 and (bi, f) not in sz_e:
                    sz_e.append((bi, f))
    for bi, t, e in ():
        c = comparison(e)
        if c and c[0] in (">", "<=", "<", ">=") and "from_be_bytes" in fmt_short(c[1]) + fmt_short(c[2]) and "Vec::len" in fmt_short(c[1]) + fmt_short(c[2]):
            f, tr = g.bool_edges(bi)
            # a > len : pass edge is false ; a <= len : pass edge is true
            lhs_is_size = "from_be_bytes" in fmt_short(c[1])
            if (c[0] == ">" and lhs_is_size) or (c[0] == "<" and not lhs_is_size):
                sz_e.append((bi, f))
            elif (c[0] == "<=" and lhs_is_size) or (c[0] == ">=" and not lhs_is_size):
                sz_e.append((bi, tr))
    kd = [(bi, t) for bi, t in b.calls() if (t.callee() or "") == P + "PacketKind::decode"]
    kd_ok = []
    for bi, t, e in g.switches():
        if e[0] == "discr" and any(x[0] == "call" and x[1] == P + "PacketKind::decode" for x in walk(e[1])):
            names, _ = g.variant_names(bi)
            kd_ok += [(bi, tb) for v, tb in t.vals if names.get(v) in ("Continue", "Ok")]
    way = []
    for bi, t, e in g.switches():
        inner, neg = e, False
        while inner[0] == "un" and inner[1] == "Not":
            inner, neg = inner[2], not neg
        if inner[0] == "call" and inner[1].endswith("PacketKind::is_whoareyou"):
            f, tr = g.bool_edges(bi)
            way.append((bi, f if not neg else tr))
        if inner[0] == "call" and re.search(r"(Vec|slice|\[T\]>?)::is_empty$", short(inner[1])) and inner[2]:
            # the message part: the datagram from the end of the auth-data on (`data[39 + n..]`, `rest.split_at(n).1`)
            sb, sst, sen = slice_span(inner[2][0])
            tail_of_data = canon(sb) == ("param", b_idx(b, "data"), "data") and sen is None and sst is not None and (sst[0] or sst[1] >= 39)
            if "RangeFrom" in fmt(inner) or tail_of_data:
                f, tr = g.bool_edges(bi)
                way.append((bi, tr if not neg else f))
    for name, edges, msg in (("protocol-id", pid_e, "a foreign protocol id"), ("version", ver_e, "a foreign protocol version"),
                             ("auth-data-size", sz_e, "an auth-data size larger than the rest of the datagram"),
                             ("kind-decodes", kd_ok, "auth-data that PacketKind::decode rejected"),
                             ("whoareyou-body", way, "a WHOAREYOU that carries a body")):
        r = b.reachable(0, removed_edges=edges)
        r2.check(bool(edges) and not any(o in r for o in oks), "Packet::decode: Ok only past the %s check" % name, "decode|%s" % name,
                 "Packet::decode can accept a datagram with %s" % msg, loc=b.loc(b.line))
    for bi, t in kd:
        a0, a1 = fmt_short(canon(p.operand(t.args[0]))), fmt_short(canon(p.operand(t.args[1])))
        r2.check("8" in a0 and "Range" in fmt(canon(p.operand(t.args[1]))), "PacketKind::decode(flag byte 8 of the header, unmasked auth-data)", "decode|kind-args",
                 "PacketKind::decode is given (%s, %s)" % (a0, a1), loc=b.loc(t.line))
    # PacketKind::decode
    kb = facts.one(re.escape(P + "PacketKind::decode"))
    r2.analysed(kb)
    ka = Aff(kb, facts)
    kp, kg = ka.prov, ka.guards
    AL = ka.length(("param", b_idx(kb, "auth_data"), "auth_data"))
    arms = {}
    for bi, t, e in kg.switches():
        if roots(e) == {("param", b_idx(kb, "kind"), "kind")}:
            for v, tb in t.vals:
                arms[v] = tb
            arms["other"] = t.otherwise
    if set(arms) != {0, 1, 2, "other"}:
        raise AnchorError("PacketKind::decode: kind arms %s" % sorted(map(str, arms)))
    ok_sites = {}
    # the return place, and the locals whose value is moved into it whole (the return place of a decoding helper spliced into this body)
    ret_locals = [0]
    for l in ret_locals:
        for lhs, kind, payload, blk, _l in kp.defs.get(l, ()):
            if kind == "rv" and payload.k == "use" and payload.ops and payload.ops[0].place is not None and payload.ops[0].place.is_local() and \
                    payload.ops[0].place.local not in ret_locals:
                ret_locals.append(payload.ops[0].place.local)
    for lhs, kind, payload, blk, _l in [d for l in ret_locals for d in kp.defs.get(l, ())]:
        if kind == "rv" and payload.k == "agg" and payload.j.get("variant") == "Ok" and blk in kb.live_blocks():
            v = kp.operand(payload.ops[0])
            vs = sorted(set(x[1].split("::")[-1] for x in roots(v) if x[0] == "agg" and x[1].startswith(P + "PacketKind::")))
            ok_sites[blk] = vs
    # a kind built inside a combinator (`NodeId::parse(d).map(|src_id| PacketKind::Message { src_id }).map_err(..)`): the site is the call
    # whose result is returned
    for bi, t in kb.calls():
        if bi in kb.live_blocks() and t.dest.is_local() and t.dest.local in ret_locals:
            for x in walk(canon(kp.call(t, bi))):
                if x[0] == "call" and re.search(r"Result::(map|and_then)$", short(x[1])) and len(x[2]) == 2:
                    rv = closure_return_in_caller_terms(facts, canon(x[2][1]), [("unknown", "payload")])
                    if rv is not None:
                        vs = sorted(set(y[1].split("::")[-1] for y in walk(rv) if y[0] == "agg" and y[1].startswith(P + "PacketKind::")))
                        if vs:
                            ok_sites[bi] = sorted(set(ok_sites.get(bi, [])) | set(vs))
    want = {"Message": ("eq", 32), "WhoAreYou": ("eq", 24)}
    seen = set()
    for blk, vs in ok_sites.items():
        for v in vs:
            seen.add(v)
            if v in want:
                failed = ka.prove(blk, [("eq", AL, ({}, want[v][1]), "len == %d" % want[v][1])])
                r2.check(not failed, "PacketKind::decode: %s only for auth-data of exactly %d bytes" % (v, want[v][1]), "kind|%s|length" % v,
                         "PacketKind::decode accepts a %s packet whose auth-data is not %d bytes long" % (v, want[v][1]), loc=kb.loc(kb.line))
            elif v == "Handshake":
                ad = ("param", b_idx(kb, "auth_data"), "auth_data")
                sig = ka.value(("index", ad, ("const", "32")))
                key = ka.value(("index", ad, ("const", "33")))
                need = _lin_add(_lin_add(({}, 34), sig, 1), key, 1)
                failed = ka.prove(blk, [("le", need, AL, "len >= 34 + sig + key")])
                r2.check(not failed, "PacketKind::decode: Handshake only for len >= 34 + sig_size + eph_key_size", "kind|Handshake|length",
                         "PacketKind::decode accepts a handshake whose auth-data is shorter than its declared signature and key", loc=kb.loc(kb.line))
    r2.check(seen == {"Message", "WhoAreYou", "Handshake"}, "the three kinds are decoded", "kind|variants", "PacketKind::decode produces %s" % sorted(seen), loc=kb.loc(kb.line))
    rr = kb.reachable(arms["other"])
    r2.check(not any(bk in rr for bk in ok_sites), "an unknown kind byte is rejected", "kind|unknown", "PacketKind::decode can accept an unknown kind byte", loc=kb.loc(kb.line))
    ctx.c05 = dict(kb=kb, ka=ka, arms=arms, ok_sites=ok_sites, b=b, a=a)
    return r1, r2


def comparison_side(g, s):
    return ("const", s)


def b_idx(b, name):
    for l in range(1, b.arg_count + 1):
        if b.local_name(l) == name:
            return l
    raise AnchorError("%s has no parameter %s" % (b.path, name))


def r3(ctx):
    facts = ctx.facts
    rule = Rule("C05.R3", "writer / reader tables agree: kind byte, static header layout, per-kind auth-data prefix, header cipher", floor=5, engine="A-sib + A-aff")
    c = ctx.c05
    kb, ka, arms, ok_sites = c["kb"], c["ka"], c["arms"], c["ok_sites"]
    # (a) kind byte
    wb = facts.one(r"crate::packet::<impl std::convert::From<&crate::packet::PacketKind> for u8>::from")
    rule.analysed(wb)
    wp = Prov(wb, facts)
    wg = Guards(wb, wp, facts)
    wtab = {}
    for bi, t, e in wg.switches():
        if e[0] == "discr":
            names, _ = wg.variant_names(bi)
            for v, tb in t.vals:
                vals = set()
                for lhs, kind, payload, blk, _l in wp.defs.get(0, ()):
                    if kind == "rv" and payload.k == "use" and blk in wb.reachable(tb) and not any(blk in wb.reachable(ob) for ov, ob in t.vals if ob != tb):
                        vals.add(payload.ops[0].const_int())
                if len(vals) == 1:
                    wtab[names.get(v, str(v))] = vals.pop()
    rtab = {}
    for blk, vs in ok_sites.items():
        arm = [k for k, tb in arms.items() if k != "other" and blk in kb.reachable(tb) and not any(blk in kb.reachable(ob) for ok_, ob in arms.items() if ob != tb and ok_ != "other")]
        for v in vs:
            if len(arm) == 1:
                rtab[v] = arm[0]
    rule.check(wtab == rtab and len(wtab) == 3, "kind byte table: writer %s == reader %s" % (wtab, rtab), "kind-byte|tables",
               "the kind byte written (%s) and the kind decoded (%s) disagree" % (wtab, rtab), loc=wb.loc(wb.line))
    # (b) static header layout
    he = facts.one(re.escape(P + "PacketHeader::encode"))
    rule.analysed(he)
    ha = Aff(he, facts)
    hp = ha.prov
    buf = None
    for i, l in enumerate(he.locals):
        if l.get("name") == "buf":
            buf = i
    if buf is None:
        raise AnchorError("PacketHeader::encode: local buf not found")
    ws = [(bi, src[0]) for bi, m, src, t in writes_into(he, hp, buf) if m == "extend_from_slice"]
    order = sorted(ws, key=lambda x: [i for i in range(len(he.blocks)) if True].index(x[0]) if False else 0)
    # program order = dominance order: each write must-pass the previous ones
    seq = sorted(ws, key=flow_key(he, ws))
    layout = []
    off = 0
    meaning = []
    for bi, src in seq:
        s_ = fmt_short(src)
        ln = ha.length(src)
        if s_.endswith(".protocol_id"):
            m = "protocol_id"
        elif s_.endswith(".protocol_version"):
            m = "protocol_version"
        elif s_ == "num::to_be_bytes(self.kind)":
            m = "kind"
        elif "message_nonce" in s_:
            m = "message_nonce"
        elif "to_be_bytes(Vec::len(PacketKind::encode(self.kind)))" in s_:
            m = "auth_data_size"
        elif s_ == "PacketKind::encode(self.kind)":
            m = "auth_data"
        else:
            m = "?" + s_
        n = ln[1] if ln and not ln[0] else None
        layout.append((m, off, n))
        if n is not None:
            off += n
    static = [(m, o, n) for m, o, n in layout if m != "auth_data"]
    sh = facts.const_value(P + "STATIC_HEADER_LENGTH")
    wl = {m: (o, o + n) for m, o, n in static if n is not None}
    rule.check([m for m, _, _ in layout] == ["protocol_id", "protocol_version", "kind", "message_nonce", "auth_data_size", "auth_data"] and
               sum(n or 0 for _, _, n in static) == sh, "writer layout %s, total %d = STATIC_HEADER_LENGTH" % (wl, sh), "header|writer-layout",
               "PacketHeader::encode writes %s (static part %s bytes, STATIC_HEADER_LENGTH = %d)" % (layout, sum(n or 0 for _, _, n in static), sh), loc=he.loc(he.line))
    # reader ranges on the static header
    b, a = c["b"], c["a"]
    p = a.prov
    rl = {}
    iv_len = facts.const_value(P + "IV_LENGTH")
    DATA = ("param", b_idx(b, "data"), "data")

    def header_ranges(e):
        """the parts of the static header (bytes IV_LENGTH.. of the datagram) that expression `e` reads, relative to the header's start;
        the header as a whole is not a part"""
        out = set()
        for x in walk(canon(e)):
            if not (isinstance(x, tuple) and x):
                continue
            if x[0] == "index" and len(x) > 2:
                base, st, en = slice_span(x[1])
                i = linear(x[2])
                if canon(base) == DATA and st and not st[0] and en and not en[0] and (st[1], en[1]) == (iv_len, iv_len + sh) and i is not None and not i[0]:
                    out.add((i[1], i[1] + 1))
            elif x[0] == "call" and len(x[2]) == 2 and re.search(r"::index$|::get$", short(x[1])):
                base, st, en = slice_span(x)
                if canon(base) == DATA and st and not st[0] and st[1] >= iv_len:
                    lo = st[1] - iv_len
                    hi = en[1] - iv_len if en and not en[0] else None
                    if hi is None:
                        continue
                    if (lo, hi) == (0, sh) or hi > sh:
                        continue
                    out.add((lo, hi))
                elif canon(base) != DATA:
                    # an element picked through the Index trait (`header_vec[8]`)
                    bb, st2, en2 = slice_span(x[2][0])
                    i = linear(x[2][1])
                    if canon(bb) == DATA and st2 and not st2[0] and en2 and not en2[0] and (st2[1], en2[1]) == (iv_len, iv_len + sh) and i is not None and not i[0]:
                        out.add((i[1], i[1] + 1))
        # nested slicing reports the outer range too: keep the innermost (narrowest) ranges
        return {r for r in out if not any(o != r and r[0] <= o[0] and o[1] <= r[1] for o in out)}

    def note(use, e):
        for r in header_ranges(e):
            rl.setdefault(use, set()).add(r)
    for sbi, st, se in a.guards.switches():
        cc = comparison(se)
        if not cc:
            continue
        for side, oth in ((cc[1], cc[2]), (cc[2], cc[1])):
            other = fmt_short(oth)
            if "protocol_identity.protocol_id" in other.replace("protocol_identity.protocol_version", ""):
                note("protocol_id", side)
            elif "protocol_version" in other:
                note("protocol_version", side)
        for side in (cc[1], cc[2]):
            for x in walk(canon(side)):
                if isinstance(x, tuple) and x and x[0] == "call" and re.search(r"num::from_be_bytes$", short(x[1])) and x[2]:
                    note("auth_data_size", x[2][0])
    for cbi, ct in b.calls():
        if (ct.callee() or "") == P + "PacketKind::decode":
            note("kind", p.operand(ct.args[0]))
    for blk in b.blocks:
        if blk.idx not in b.live_blocks():
            continue
        for s_ in blk.stmts:
            if s_.k == "a" and s_.rv.k == "agg" and s_.rv.j.get("def") == P + "PacketHeader":
                fd = dict(zip(s_.rv.j["fields"], [p.operand(o) for o in s_.rv.ops]))
                note("message_nonce", fd["message_nonce"])
    rl1 = {k: sorted(v)[0] for k, v in rl.items() if len(v) == 1}
    rule.check(rl1 == wl, "reader ranges %s == writer ranges" % rl1, "header|reader-layout",
               "Packet::decode reads the static header as %s but PacketHeader::encode writes %s" % (rl, wl), loc=b.loc(b.line))
    # (c) per-kind auth-data prefixes
    ke = facts.one(re.escape(P + "PacketKind::encode"))
    rule.analysed(ke)
    kea = Aff(ke, facts)
    kep = kea.prov
    keg = kea.guards
    warms = {}
    for bi, t, e in keg.switches():
        if e[0] == "discr" and fmt_short(e[1]) == "self":
            names, _ = keg.variant_names(bi)
            for v, tb in t.vals:
                warms[names.get(v, str(v))] = tb
    fixed = {}
    for vname, tb in warms.items():
        region = ke.reachable(tb)
        others = set()
        for on, ob in warms.items():
            if on != vname:
                others |= ke.reachable(ob)
        tot = 0
        okf = True
        found = False
        for l in range(len(ke.locals)):
            if not ke.local_ty(l).startswith("std::vec::Vec<u8>"):
                continue
            for bi, m, src, t in writes_into(ke, kep, l):
                if bi in region and bi not in others and m == "extend_from_slice":
                    ln = kea.length(src[0])
                    found = True
                    if ln and not ln[0]:
                        tot += ln[1]
        if not found:
            # Message: `src_id.raw().to_vec()`
            for lhs, kind, payload, blk, _l in kep.defs.get(0, ()):
                if kind == "call" and blk in region and blk not in others:
                    ln = kea.length(kep.call(payload, blk))
                    if ln and not ln[0]:
                        tot = ln[1]
        fixed[vname] = tot
    rule.check(fixed == {"Message": 32, "WhoAreYou": 24, "Handshake": 34}, "fixed auth-data prefix written per kind %s == sizes the reader requires (32, 24, 34)" % fixed,
               "auth-data|prefix", "PacketKind::encode writes fixed prefixes %s but PacketKind::decode requires 32 / 24 / 34" % fixed, loc=ke.loc(ke.line))
    # (d) header cipher
    # the function that masks the header on the sending side: Packet::encrypt_header, or Packet::encode itself when the masking was moved
    # into it (or into a helper that was inlined into it)
    eh = facts.bodies.get(P + "Packet::encrypt_header") or facts.one(re.escape(P + "Packet::encode") + "$")
    rule.analysed(eh)
    ep = Prov(eh, facts)
    ciph = {}
    for name, body, pr, idn in (("encrypt_header", eh, ep, "dst_id"), ("decode", b, p, "src_id")):
        for bi, t in body.calls():
            if callee_matches(t, r"KeyIvInit>::new$"):
                k, n = fmt_short(pr.operand(t.args[0])), fmt_short(pr.operand(t.args[1]))
                ciph[name] = (t.callee_full(), "GenericArray::clone_from_slice(array::index(NodeId::raw(%s), RangeTo{..}))" % idn == k, n)
                kr = [x for x in walk(pr.operand(t.args[0])) if x[0] == "agg" and x[1].endswith("RangeTo::RangeTo")]
                ciph[name] += (const_int_of(dict(kr[0][2])["end"]) if kr else None,)
    ok = len(ciph) == 2 and ciph["encrypt_header"][0] == ciph["decode"][0] and ciph["encrypt_header"][1] and ciph["decode"][1] and \
        ciph["encrypt_header"][3] == ciph["decode"][3] == 16 and "self.iv" in ciph["encrypt_header"][2] and "data" in ciph["decode"][2]
    rule.check(ok, "both sides key AES-128-CTR with id[..16] and the IV", "cipher|agreement", "encrypt_header and decode do not key the same cipher the same way: %s" % ciph, loc=eh.loc(eh.line))
    return rule


def r4(ctx):
    rule = Rule("C05.R4", "no panic on any input: every panic-capable site of the decoders is entailed by its dominating facts", floor=30, engine="A-aff (Fourier-Motzkin)")
    total_sites = 0
    for prof, facts in ctx.all_profiles():
        for pat in (P + "Packet::decode", P + "PacketKind::decode", r"<crate::packet::ChallengeData as std::convert::TryFrom<&[u8]>>::try_from"):
            b = facts.one(re.escape(pat))
            rule.analysed(b)
            a = Aff(b, facts)
            res, ns, no = a.check_all()
            total_sites += ns
            name = pat.split("::")[-2] + "::" + pat.split("::")[-1]
            for (blk, kind, desc, line), failed in res:
                site = "[%s] %s %s: %s" % (prof, name, kind, desc[:90])
                if failed:
                    rule.fail("%s|%s|%s" % (name, kind, re.sub(r"\s+", " ", desc)[:80]),
                              "%s can panic: %s at %s - %s" % (name, kind, desc[:120], "; ".join("%s (%s)" % (w, why[:200]) for w, why in failed)),
                              loc=b.loc(line), site=site)
                else:
                    rule.ok(site, "entailed")
    rule.note("panic-capable sites examined: %d" % total_sites)
    return rule


def run(ctx):
    G = lambda l, f, *a: guarded("C05." + l, f, ctx, *a)
    return G("R1-R2", r1_r2) + G("R3", r3) + G("R4", r4)
