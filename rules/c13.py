"""C13 — Filter exemptions track outstanding exchanges exactly."""
import re

from analysis import (membership_test, mirror, Prov, Guards, fmt, fmt_short, walk, roots, short, comparison, propagate, witness, edge_label,
                      find_calls, callee_matches, awaited_in_place, must_pass, path_to, describe_path,
                      normalised_cmp, const_int_of)
from facts import AnchorError, strip_closure
from harness import Rule, guarded

PID = "C13"
EXPLANATION = (
    "Conservation analysis (A-cons) over the MIR of every Handler function: N = Δ|active_requests ∪ active_challenges| − "
    "Δ(filter_expected_responses ledger) is computed on every entry→return path with interprocedural summaries "
    "(an async fn awaited in place is a call to its coroutine body; that is checked). Required: N is "
    "path-independent in every function, loops are neutral, N = 0 for the event entry points and for every arm of "
    "Handler::start (stream items count as −1 at their binding). R2: each ledger call's address derives from the "
    "key of the map operation it balances or from the removed call's own contact. R3: remove_expected_response "
    "deletes entries that reach zero and the receive task tests presence of the normalised source address, both "
    "filter passes being conditional on its negation. R4: only add/remove_expected_response write the ledger and "
    "only Handler methods call them. A path with N ≠ 0 leaves an exemption that no later event removes (or "
    "removes one still needed) — the property's statement.")
NOT_DECIDED = ["the numeric count per address at run time (R1 is its per-path static counterpart)",
               "API effects of ActiveRequests / delay_map methods are an effect table (trusted), except the nonce postcondition of remove_by_nonce which is checked"]
TRUSTED = ["effect table: ActiveRequests::insert +1; remove_by_nonce/remove_request −1 on Some; remove_requests yields a Vec consumed one per loop iteration; "
           "HashMapDelay insert (fresh key) +1, remove −1 on Some; stream items −1",
           "delay_map::HashMapDelay::insert on an existing key only resets the timer (read in 0.4.1)"]

H = "crate::handler::Handler::"
AR = r"crate::handler::active_requests::ActiveRequests::"
CH = r"delay_map::HashMapDelay::<crate::node_info::NodeAddress, crate::handler::Challenge>::"
T_CALL = "crate::handler::request_call::RequestCall"
T_CHAL = "crate::handler::Challenge"


def classify(t):
    """effect class of a call terminator"""
    full = t.callee_full() or ""
    decl = t.callee() or ""
    if re.fullmatch(AR + "insert", decl):
        return ("map", +1, "active_requests.insert")
    if re.fullmatch(AR + "(remove_by_nonce|remove_request)", decl):
        return ("map_opt", -1, "active_requests." + decl.split("::")[-1])
    if re.fullmatch(AR + "remove_requests", decl):
        return ("bag", 0, "active_requests.remove_requests")
    if re.fullmatch(CH + "insert", full):
        return ("map", +1, "active_challenges.insert")
    if re.fullmatch(CH + "remove", full) or re.fullmatch(CH + r"remove::<.*>", full):
        return ("map_opt", -1, "active_challenges.remove")
    if re.search(r"<std::vec::IntoIter<%s> as std::iter::Iterator>::next$" % re.escape(T_CALL), full):
        return ("map_opt", -1, "next(removed requests)")
    if decl == H + "add_expected_response":
        return ("net", -1, "add_expected_response")
    if decl == H + "remove_expected_response":
        return ("net", +1, "remove_expected_response")
    if decl.startswith(H) and "{closure" not in decl:
        return ("handler", 0, decl)
    return None


class Cons:
    def __init__(self, facts, rule):
        self.facts = facts
        self.rule = rule
        self.summaries = {}
        self.active = []
        self.infeasible_ok = None
        self.details = {}

    def body_of(self, fn):
        b = self.facts.bodies.get(fn + "::{closure#0}")
        if b is not None and b.coroutine:
            return b, True
        b = self.facts.bodies.get(fn)
        if b is None:
            raise AnchorError("no body for %s" % fn)
        return b, False

    def nonce_postcondition(self):
        """remove_by_nonce returns a call selected by `packet().message_nonce() == nonce`"""
        if self.infeasible_ok is not None:
            return self.infeasible_ok
        facts = self.facts
        b = facts.one(AR + "remove_by_nonce")
        ok_pos = False
        ok_rem = False
        for bi, t in b.calls():
            if callee_matches(t, r"Iterator::position$|Iterator>::position$"):
                # the predicate closure
                clos = [a for a in t.args if a.place is not None and "closure" in b.local_ty(a.place.local)]
                for cb in facts.find(re.escape(b.path) + r"::\{closure#\d+\}"):
                    p = Prov(cb, facts)
                    e = p.local(0)
                    c = comparison(e)
                    if c and c[0] == "==":
                        sides = [fmt_short(c[1]), fmt_short(c[2])]
                        if any(s.startswith("Packet::message_nonce(RequestCall::packet(") for s in sides) and \
                                any(s == "nonce" for s in sides):
                            ok_pos = True
            if callee_matches(t, r"Option::map$"):
                pass
        for cb in facts.find(re.escape(b.path) + r"::\{closure#\d+\}"):
            p = Prov(cb, facts)
            e = p.local(0)
            for x in walk(e):
                if x[0] == "call" and short(x[1]).endswith("vec::Vec::remove") and len(x[2]) == 2:
                    if x[2][1][0] == "param":
                        ok_rem = True
        self.infeasible_ok = ok_pos and ok_rem
        return self.infeasible_ok

    def infeasible_edges(self, body, prov):
        """edges contradicting the checked postcondition of remove_by_nonce"""
        out = []
        g = Guards(body, prov, self.facts)
        for bi, t, e in g.switches():
            c = comparison(e)
            if not c or c[0] not in ("==", "!="):
                continue
            for a, k in ((c[1], c[2]), (c[2], c[1])):
                m = None
                for x in walk(a):
                    if x[0] == "call" and x[1] == AR.replace("\\", "") + "remove_by_nonce":
                        m = x
                if m is None or not fmt_short(a).startswith("Packet::message_nonce(RequestCall::packet("):
                    continue
                if roots(m[2][1]) == roots(k) and self.nonce_postcondition():
                    f, tr = g.bool_edges(bi)
                    out.append((bi, tr if c[0] == "!=" else f))
        return out

    def summary(self, fn):
        if fn in self.summaries:
            return self.summaries[fn]
        if fn in self.active:
            raise AnchorError("recursion among handler functions through %s: summaries do not apply" % fn)
        self.active.append(fn)
        try:
            s = self._summary(fn)
        finally:
            self.active.pop()
        self.summaries[fn] = s
        return s

    def _summary(self, fn):
        facts = self.facts
        body, is_async = self.body_of(fn)
        self.rule.analysed(body)
        prov = Prov(body, facts)
        infeasible = set(self.infeasible_edges(body, prov))
        is_start = fn == H + "start"
        # per-block events
        ev = {}
        problems = []
        for b in body.blocks:
            if b.cleanup or b.idx not in body.live_blocks():
                continue
            lst = []
            if is_start:
                for s in b.stmts:
                    if s.k == "a" and s.lhs.is_local() and s.rv.k == "use" and s.rv.ops[0].place is not None:
                        ty = body.local_ty(s.lhs.local)
                        src = s.rv.ops[0].place
                        if ty in (T_CALL, T_CHAL) and "__tokio_select_util::Out" in body.local_ty(src.local):
                            lst.append(("net", -1, "stream item (%s)" % ty.split("::")[-1]))
            t = b.term
            if t.k == "call":
                c = classify(t)
                if c is not None:
                    if c[0] == "handler":
                        callee = c[2]
                        sub = self.summary(callee)
                        if is_async_fn(facts, callee) and not awaited_in_place(body, b.idx):
                            problems.append("future of %s is not awaited in place at %s" % (callee, body.loc(t.line)))
                        lst.append(("net", sub["value"], callee.split("::")[-1]))
                    else:
                        lst.append(c)
            ev[b.idx] = lst

        def tracked_switch(bidx, tracked):
            """if the block switches on the discriminant of a tracked option: (local, some_target, others)"""
            blk = body.blocks[bidx]
            t = blk.term
            if t.k != "switch" or t.discr.place is None:
                return None
            for s in reversed(blk.stmts):
                if s.k == "a" and s.lhs.local == t.discr.place.local and s.rv.k == "discr":
                    pl = s.rv.place
                    if all(p == "*" for p in pl.proj):
                        for (l, eff, what) in tracked:
                            if l == pl.local:
                                some = [tb for v, tb in t.vals if v == 1]
                                return (l, eff, what, some[0] if some else (t.otherwise if (0 in [v for v, _ in t.vals]) else None))
                    return None
            return None

        LIM = 4

        def transfer(bidx, st):
            net, tracked = st
            blk = body.blocks[bidx]
            # moves of tracked options
            if tracked:
                for s in blk.stmts:
                    if s.k == "a" and s.lhs.is_local() and s.rv.k == "use" and s.rv.ops[0].place is not None \
                            and s.rv.ops[0].place.is_local():
                        src = s.rv.ops[0].place.local
                        tracked = frozenset((s.lhs.local if l == src else l, e, w) for l, e, w in tracked)
            for kind, eff, what in ev.get(bidx, ()):
                if kind in ("map", "net"):
                    net += eff
                elif kind == "map_opt":
                    tracked = frozenset(set(tracked) | {(blk.term.dest.local, eff, what)})
            if abs(net) > LIM:
                return
            t = blk.term
            if t.k == "ret":
                yield None, (net, tracked)
                return
            ts = tracked_switch(bidx, tracked) if tracked else None
            for succ in t.succs():
                if (bidx, succ) in infeasible:
                    continue
                if ts is not None:
                    l, eff, what, some_t = ts
                    rest = frozenset(x for x in tracked if x[0] != l)
                    if succ == some_t:
                        yield succ, (net + eff, rest)
                    else:
                        yield succ, (net, rest)
                else:
                    yield succ, (net, tracked)

        states, exits, parent = propagate(body, (0, frozenset()), transfer)
        # loops must be neutral: one net value per loop head
        heads = loop_heads(body)
        for h in heads:
            nets = sorted(set(n for n, _ in states.get(h, ())))
            if len(nets) > 1:
                problems.append("loop at %s is not neutral: net exemptions at its head %s" % (
                    body.loc(body.blocks[h].term.line), nets))
        by_net = {}
        for b, st_in, (net, tracked) in exits:
            if tracked:
                problems.append("result of %s is never matched before returning" % ", ".join(sorted(w for _, _, w in tracked)))
            by_net.setdefault(net, []).append((b, st_in))
        # states cut by the bound
        if any(abs(net) >= LIM for sts in states.values() for net, _ in sts):
            problems.append("net exemptions grow without bound (|N| >= %d on some path)" % LIM)
        problems = list(dict.fromkeys(problems))
        exits_desc = {}
        allpreds = parent["__allpreds__"]
        for net, lst in by_net.items():
            # distinct offending exits = distinct last source-level decisions (or events) before returning
            finals = {}
            seen = set()
            stack = list(lst)
            while stack:
                node = stack.pop()
                if node in seen:
                    continue
                seen.add(node)
                b, st_in = node
                stop = False
                for pb, pst in allpreds.get(node, ()):
                    t = body.blocks[pb].term
                    if (t.k == "switch" and not t.exp) or ev.get(pb):
                        lab = edge_label(body, prov, pb, b) if t.k == "switch" else None
                        finals.setdefault((pb, b if t.k == "switch" else None), (pb, pst, lab))
                    else:
                        stack.append((pb, pst))
            descs = []
            for (pb, nb), (pb_, pst, lab) in sorted(finals.items()):
                w = witness(parent, (pb, pst))
                key, human = self.describe(body, prov, w, ev, last_succ=nb)
                descs.append((key, human))
            if not descs:
                b, st_in = lst[0]
                descs.append(self.describe(body, prov, witness(parent, (b, st_in)), ev))
            exits_desc[net] = descs
        if is_start and not by_net:
            # the main loop only leaves through the exit arm; take the loop-head value instead
            pass
        nets = sorted(by_net)
        if not nets and is_start:
            nets = [0]
        if not nets:
            # function never returns normally
            nets = [0]
        value = nets[0] if len(nets) == 1 else (0 if 0 in nets else min(nets, key=abs))
        s = {"fn": fn, "nets": nets, "value": value, "exits": exits_desc, "problems": problems,
             "events": sum(len(v) for v in ev.values()), "body": body,
             "infeasible": len(infeasible)}
        return s

    def describe(self, body, prov, w, ev, last_succ=None):
        """(line-free decision trace, human trace with lines) of a witness path"""
        key = []
        human = []
        w = list(w)
        if last_succ is not None:
            w.append((last_succ, None))
        for i, (b, st) in enumerate(w):
            if i == len(w) - 1 and last_succ is not None:
                break
            for kind, eff, what in ev.get(b, ()):
                key.append(what)
                human.append("%s@%s" % (what, body.blocks[b].term.line))
            if i + 1 < len(w):
                t = body.blocks[b].term
                if t.k == "switch" and not t.exp:
                    lab = edge_label(body, prov, b, w[i + 1][0])
                    if lab:
                        key.append("[%s]" % lab)
                        human.append("[%s]@%s" % (lab, t.line))
        return key, human


def is_async_fn(facts, fn):
    b = facts.bodies.get(fn + "::{closure#0}")
    return b is not None and b.coroutine


def loop_heads(body):
    """loop headers, independent of block numbering: targets of edges u -> h where h dominates u (natural loops). For the rare
    irreducible cycle (no dominating header) the targets of DFS back edges are added, visiting successors in source-line order."""
    live = body.live_blocks()
    heads = set()

    dominates = body.dominates
    preds = body.preds()
    for h in sorted(live):
        for u in preds.get(h, ()):
            if u in live and dominates(h, u):
                heads.add(h)
                break
    # irreducible remainder
    color = {}

    def succs(b):
        return sorted(body.succs(b), key=lambda x: (body.blocks[x].term.line or 0, len(body.blocks[x].stmts)))
    stack = [(0, iter(succs(0)))]
    color[0] = 1
    while stack:
        b, it = stack[-1]
        adv = False
        for s_ in it:
            if color.get(s_, 0) == 0:
                color[s_] = 1
                stack.append((s_, iter(succs(s_))))
                adv = True
                break
            elif color.get(s_) == 1:
                if not any(dominates(h, s_) and s_ in body.reachable(h) and h in body.reachable(s_) for h in heads):
                    heads.add(s_)
        if not adv:
            color[b] = 2
            stack.pop()
    return heads


ENTRY_POINTS = ["send_request", "send_response", "send_challenge", "process_inbound_packet", "start"]


def handler_fns(facts):
    out = []
    for p, b in sorted(facts.bodies.items()):
        if p.startswith(H) and "{closure" not in p:
            out.append(p)
    return out


def r1(ctx):
    facts = ctx.facts
    rule = Rule("C13.R1", "conservation: Δ(outstanding requests+challenges) − Δ(filter exemptions) is path-independent "
                "in every handler function, 0 for event entry points, loops neutral", floor=25, engine="A-cons")
    cons = Cons(facts, rule)
    fns = handler_fns(facts)
    for ep in ENTRY_POINTS:
        if H + ep not in fns:
            raise AnchorError("entry point %s missing" % ep)
    total_events = 0
    for fn in fns:
        if fn.endswith("::spawn"):
            continue
        s = cons.summary(fn)
        total_events += s["events"]
        name = fn.split("::")[-1]
        body = s["body"]
        want0 = name in ENTRY_POINTS
        for pr in s["problems"]:
            rule.fail("%s|%s" % (name, re.sub(r"src/\S+:\d+", "", pr)), "Handler::%s: %s" % (name, pr), loc=body.loc(body.line))
        nets = s["nets"]
        if len(nets) == 1 and (not want0 or nets[0] == 0):
            rule.ok("Handler::%s" % name, "N = %+d on every path (%d event sites%s)" % (
                nets[0], s["events"], ", %d infeasible edge(s) pruned by remove_by_nonce's postcondition" % s["infeasible"] if s["infeasible"] else ""))
            continue
        if any("not neutral" in pr or "without bound" in pr for pr in s["problems"]):
            continue    # the loop report above already names the defect; exit values are artefacts of the unrolling bound
        # path-dependent: report every exit whose net differs from the reference value
        ref = 0 if (want0 or 0 in nets) else s["value"]
        for net in nets:
            if net == ref:
                continue
            for key, human in s["exits"][net]:
              rule.fail("%s|N=%+d|%s" % (name, net, " ".join(key)),
                      "Handler::%s has an exit with N = %+d (other exits: %s): %s" % (
                          name, net, [n for n in nets if n != net],
                          "an exemption is released that is still needed" if net > 0 else
                          "a request/challenge is consumed without releasing its filter exemption"),
                      loc=body.loc(body.line), site="Handler::%s exit N=%+d via %s" % (name, net, key[-1] if key else "?"), path=human)
    rule.note("event sites counted: %d" % total_events)
    if total_events < 20:
        rule.fail("events|floor", "only %d map/ledger event sites found (at least 20 confirmed by hand)" % total_events)
    # remove_requests' Vec is consumed by a loop
    for fn in fns:
        body, _ = cons.body_of(fn) if fn in cons.summaries else (None, None)
        if body is None:
            continue
        for bi, t in body.calls():
            c = classify(t)
            if c and c[0] == "bag":
                prov = Prov(body, facts)
                iters = [tt for _, tt in find_calls(body, r"IntoIterator>::into_iter$|IntoIterator::into_iter$")
                         if any(x[0] == "call" and x[1].endswith("ActiveRequests::remove_requests")
                                for x in walk(prov.operand(tt.args[0])))]
                rule.check(len(iters) == 1, "%s: Vec from remove_requests is consumed by one loop" % fn.split("::")[-1],
                           "%s|bag" % fn.split("::")[-1], "the Vec returned by remove_requests in %s is not iterated exactly once" % fn,
                           loc=body.loc(t.line))
    rule.check(cons.nonce_postcondition(), "remove_by_nonce returns the call whose packet nonce equals its key (justifies pruning the nonce double-check exit)",
               "remove_by_nonce|postcondition",
               "ActiveRequests::remove_by_nonce no longer selects the returned call by `packet().message_nonce() == nonce`")
    ctx.c13_cons = cons
    return rule


def r2(ctx):
    facts = ctx.facts
    rule = Rule("C13.R2", "each ledger call's address is the socket_addr of the key of a map operation in the same "
                "function, or comes from the balanced call's own contact", floor=7, engine="A-prov")
    for fn in handler_fns(facts):
        try:
            body = facts.bodies.get(fn + "::{closure#0}") or facts.bodies[fn]
            if not body.coroutine and fn + "::{closure#0}" in facts.bodies:
                body = facts.bodies[fn]
        except KeyError:
            continue
        ledger = [(bi, t) for bi, t in body.calls() if (t.callee() or "") in (H + "add_expected_response", H + "remove_expected_response")]
        if not ledger:
            continue
        rule.analysed(body)
        prov = Prov(body, facts)
        keys = set()
        calls_vals = set()
        for bi, t in body.calls():
            c = classify(t)
            if c is None:
                continue
            if c[0] in ("map", "map_opt", "bag") and "next(" not in c[2]:
                if c[2].endswith("remove_by_nonce"):
                    continue
                for r_ in roots(prov.operand(t.args[1])):
                    keys.add(r_)
        # stream items in start: the NodeAddress bound next to the item
        if fn == H + "start":
            for b in body.blocks:
                for s in b.stmts:
                    if s.k == "a" and s.lhs.is_local() and body.local_ty(s.lhs.local) == "crate::node_info::NodeAddress" \
                            and s.rv.k == "use" and s.rv.ops[0].place is not None and \
                            "__tokio_select_util::Out" in body.local_ty(s.rv.ops[0].place.local):
                        for r_ in roots(prov.place(s.lhs)):
                            keys.add(r_)
        for bi, t in ledger:
            e = prov.operand(t.args[1])
            rs = roots(e)
            ok = bool(rs)
            why = []
            for r_ in rs:
                good = False
                if r_[0] == "field" and r_[2] == "socket_addr" and r_[1] in keys:
                    good = True
                # from the call's own contact: NodeContact::socket_addr(RequestCall::contact(c)) or node_address(contact(c)).socket_addr
                s_ = fmt_short(r_)
                if re.match(r"NodeContact::socket_addr\(RequestCall::contact\(", s_) or \
                        re.match(r"NodeContact::node_address\(RequestCall::contact\(.*\)\)\.socket_addr$", s_):
                    good = True
                if not good:
                    ok = False
                    why.append(fmt_short(r_))
            name = fn.split("::")[-1]
            rule.check(ok, "%s: %s(%s)" % (name, t.callee().split("::")[-1], fmt_short(e)),
                       "%s|%s|%s" % (name, t.callee().split("::")[-1], ",".join(sorted(why))),
                       "Handler::%s passes %s to %s, which is neither the socket_addr of a map key used in this function "
                       "nor the balanced call's own contact" % (name, why, t.callee().split("::")[-1]),
                       loc=body.loc(t.line))
    return rule


def r3(ctx):
    facts = ctx.facts
    rule = Rule("C13.R3", "zero-count entries are deleted; the receive task exempts exactly the addresses present in "
                "the ledger and both filter passes are conditional on the negated exemption", floor=4,
                engine="A-dom + A-sib")
    rem = facts.one(re.escape(H) + "remove_expected_response")
    rule.analysed(rem)
    prov = Prov(rem, facts)
    g = Guards(rem, prov, facts)
    removes = [bi for bi, t in find_calls(rem, r"hash_map::OccupiedEntry::<.*>::remove(_entry)?$", r"hash_map::OccupiedEntry::remove(_entry)?$")]
    # the same written with get_mut + remove(&key): the key removed must be the address whose counter was decremented
    p_name = rem.local_name(2) or "socket_addr"
    for bi, t in rem.calls():
        if callee_matches(t, r"HashMap::<.*>::remove$", r"HashMap::remove$") and len(t.args) == 2 and fmt_short(prov.operand(t.args[1])) == p_name and \
                "filter_expected_responses" in fmt_short(prov.operand(t.args[0])):
            removes.append(bi)
    nonzero_edges = []
    for bi, t, e in g.switches():
        c = comparison(e)
        if c and c[0] in ("==", "!="):
            z = [const_int_of(x) for x in (c[1], c[2])]
            # comparisons against 0 (possibly a promoted &0)
            other = c[1] if (z[1] == 0 or fmt_short(c[2]) in ("promoted", "0")) else (c[2] if (z[0] == 0 or fmt_short(c[1]) in ("promoted", "0")) else None)
            if other is None:
                continue
            if not any(x[0] == "call" and (short(x[1]).endswith("OccupiedEntry::get_mut") or
                                            (short(x[1]).endswith("HashMap::get_mut") and "filter_expected_responses" in fmt_short(x))) for x in walk(other)):
                continue
            f, tr = g.bool_edges(bi)
            nonzero_edges.append((bi, f if c[0] == "==" else tr))
    # the decrement: a write through the counter reference
    dec = []
    for b in rem.blocks:
        for s in b.stmts:
            if s.k == "a" and s.lhs.proj and s.lhs.proj[0] == "*" and b.idx in rem.live_blocks():
                e = prov.rvalue(s.rv, b.idx)
                if any(x[0] == "call" and re.search(r"(saturating_sub|checked_sub|wrapping_sub)$", short(x[1])) for x in walk(e)) or \
                        any(x[0] == "bin" and x[1].startswith("Sub") for x in walk(e)):
                    dec.append(b.idx)
    if not dec:
        raise AnchorError("remove_expected_response: no decrement of the counter found")
    for d in dec:
        r = rem.reachable(d, removed_edges=nonzero_edges, removed_blocks=removes)
        bad = [x for x in rem.return_blocks() if x in r]
        rule.check(not bad and bool(removes) and bool(nonzero_edges),
                   "remove_expected_response: after the decrement every path passes `count != 0` or OccupiedEntry::remove",
                   "remove_expected_response|zero-entry-kept",
                   "remove_expected_response can leave an entry whose count is 0 in the ledger (the receive task exempts every present address)",
                   loc=rem.loc(rem.line))
    # add: increments via entry().or_default()
    add = facts.one(re.escape(H) + "add_expected_response")
    rule.analysed(add)
    has_entry = bool(find_calls(add, r"HashMap::<.*>::entry$|HashMap::entry$")) and bool(find_calls(add, r"Entry::<.*>::or_default$|Entry::or_default$|or_insert"))
    inc = False
    pa = Prov(add, facts)
    for b in add.blocks:
        for s in b.stmts:
            if s.k == "a" and s.lhs.proj and s.lhs.proj[0] == "*":
                e = pa.rvalue(s.rv, b.idx)
                from analysis import linear
                lf = linear(e)
                if lf and lf[1] == 1 and len(lf[0]) == 1 and list(lf[0].values()) == [1]:
                    inc = True
    rule.check(has_entry and inc, "add_expected_response: entry(addr).or_default() += 1", "add_expected_response|shape",
               "add_expected_response no longer increments the per-address counter by exactly 1", loc=add.loc(add.line))
    # reader
    hi = facts.coroutine_of("crate::socket::recv::RecvHandler::handle_inbound")
    rule.analysed(hi)
    prov = Prov(hi, facts)
    g = Guards(hi, prov, facts)
    permit_locals = []
    # `permitted` = is_some(get(read(expected_responses), &src_address))
    exempt_true_edges = []
    pass_calls = {"initial_pass": [], "final_pass": []}
    for bi, t in hi.calls():
        for k in pass_calls:
            if callee_matches(t, r"filter::Filter::%s$" % k):
                pass_calls[k].append((bi, t))
    for bi, t, e in g.switches():
        inner = e
        neg = False
        while inner[0] == "un" and inner[1] == "Not":
            inner = inner[2]
            neg = not neg
        mt = membership_test(inner)
        if mt is not None and "expected_responses" in fmt_short(mt[0]) and fmt_short(mt[1]).endswith("src_address"):
            f, tr = g.bool_edges(bi)
            exempt_true_edges.append((bi, f if (neg != mt[2]) else tr, fmt_short(inner)))
    rule.check(bool(exempt_true_edges), "handle_inbound: exemption test is membership of the source address in expected_responses",
               "handle_inbound|exemption-test", "the receive task no longer tests presence of the source address in the ledger",
               loc=hi.loc(hi.line), detail=str([x[2] for x in exempt_true_edges][:1]))
    for k, lst in pass_calls.items():
        if not lst:
            rule.fail("handle_inbound|%s-missing" % k, "handle_inbound does not call Filter::%s" % k, loc=hi.loc(hi.line))
        for bi, t in lst:
            # the filter pass must not run for exempt packets: unreachable when only exempt(true) edges are allowed
            # i.e. cutting the *non-exempt* edges must make it unreachable
            non_exempt = []
            for sb, tgt, _ in exempt_true_edges:
                for s_ in hi.blocks[sb].term.succs():
                    if s_ != tgt:
                        non_exempt.append((sb, s_))
            r = hi.reachable(0, removed_edges=non_exempt)
            rule.check(bi not in r, "handle_inbound: Filter::%s runs only when the source is not exempt" % k,
                       "handle_inbound|%s-not-conditional" % k,
                       "Filter::%s also runs for exempt sources (or the exemption no longer short-circuits it)" % k,
                       loc=hi.loc(t.line))
    # the address tested is the normalised one: the v6 normalisation writes src_address before the test
    norm = find_calls(hi, r"SocketAddrV6::set_flowinfo$") and find_calls(hi, r"SocketAddrV6::set_scope_id$")
    if exempt_true_edges and norm:
        first_test = min(b for b, _, _ in exempt_true_edges)
        nb = [bi for bi, _ in find_calls(hi, r"SocketAddrV6::set_(flowinfo|scope_id)$")]
        r = hi.reachable(first_test)
        rule.check(not any(x in r for x in nb), "handle_inbound: flowinfo/scope normalisation precedes the exemption lookup",
                   "handle_inbound|normalise-after", "the source address is normalised after the exemption lookup", loc=hi.loc(hi.line))
    return rule


def r4(ctx):
    facts = ctx.facts
    rule = Rule("C13.R4", "only add/remove_expected_response touch the ledger inside the handler; only Handler "
                "methods (main bodies, not nested closures) call them", floor=3, engine="A-who")
    touch = {}
    for p, b in sorted(facts.bodies.items()):
        if not p.startswith("crate::handler::"):
            continue
        for blk in b.blocks:
            if blk.idx not in b.live_blocks():
                continue
            for s in blk.stmts:
                if s.k == "a" and s.rv.place is not None and "filter_expected_responses" in s.rv.place.field_names():
                    touch.setdefault(p, []).append(s.line)
                if s.k == "a" and any(o.place is not None and "filter_expected_responses" in o.place.field_names() for o in s.rv.ops):
                    touch.setdefault(p, []).append(s.line)
    allowed = {H + "add_expected_response", H + "remove_expected_response"}
    extra = sorted(p for p in touch if p not in allowed and not p.startswith(H + "spawn"))
    rule.check(not extra and allowed <= set(touch), "accesses of Handler.filter_expected_responses: %s" % sorted(touch),
               "ledger|writers", "filter_expected_responses is accessed outside add/remove_expected_response: %s" % extra)
    callers = facts.callers_of(lambda n: n in allowed)
    bad = sorted(p for p in callers if not re.fullmatch(re.escape(H) + r"\w+(::\{closure#0\})?", p))
    rule.check(not bad, "callers of the ledger functions: %s" % sorted(set(strip_closure(p).split("::")[-1] for p in callers)),
               "ledger|callers", "ledger functions are called from outside Handler method bodies: %s" % bad)
    n_sites = sum(len(v) for v in callers.values())
    rule.check(n_sites >= 7, "%d ledger call sites" % n_sites, "ledger|sites", "fewer ledger call sites (%d) than the 7 confirmed by hand" % n_sites)
    # map-operation call sites are all in analysed bodies too
    sites = facts.call_sites(lambda t: classify(t) is not None and classify(t)[0] in ("map", "map_opt", "bag"))
    bad = sorted(set(b.path for b, _, _ in sites if not re.fullmatch(re.escape(H) + r"\w+(::\{closure#0\})?", b.path)
                     and not b.path.startswith("crate::handler::active_requests::")))
    rule.check(not bad, "request/challenge map operations occur only in Handler method bodies", "maps|callers",
               "request/challenge maps are modified from %s, which the conservation analysis does not cover" % bad)
    return rule


def run(ctx):
    G = lambda l, f, *a: guarded("C13." + l, f, ctx, *a)
    return G("R1", r1) + G("R2", r2) + G("R3", r3) + G("R4", r4)
