"""C20 — Every TALK request is answered exactly once."""
import os
import re
import subprocess
import shutil

from analysis import (Prov, Guards, fmt, fmt_short, walk, roots, short, comparison, find_calls, callee_matches,
                      must_pass, path_to, describe_path, option_edges)
from facts import AnchorError, strip_closure
from harness import Rule, VERIF, REPO, guarded

PID = "C20"
EXPLANATION = (
    "Type-level and structural rules for TalkRequest. W1: compile_fail witnesses (with compiling twins) built against the "
    "crate as an external user sees it: responding twice is E0382 (respond consumes the request) and the request cannot be "
    "cloned (E0599); the same two facts are also read from the type-checked program (respond's receiver type is TalkRequest "
    "by value; no Clone/Copy impl). R1: the sender is single-use - set to Some only at the one construction site, taken on "
    "every path of respond, and Drop sends only past Some(self.sender.take()); no other function touches it. R2: both "
    "responses carry the request's own id and node address, which at construction derive from the delivered request; "
    "Event::TalkRequest is built only there. R3: in respond and drop the only panic-capable site is the unwrap of the "
    "freshly taken sender (discharged by R1); a closed channel becomes Err(ChannelClosed) resp. a log line.")
EXPLANATION += (" Added while testing: R1 also requires TALKRESP bodies to be built only in TalkRequest::respond / drop (and the codec); R2 also requires respond to send the payload it was given, untouched; R4: Handler::send_response puts the application's response on the wire whenever a session with the peer exists.")
NOT_DECIDED = ["that the application eventually drops or answers every request it holds (mem::forget is outside the property)",
               "delivery of the response by the handler (C04/C02)"]
TRUSTED = ["rustc's move checker (E0382) and trait resolution (E0599)", "Option::take leaves None behind"]
TECHNIQUE = "compile_fail type-level witnesses + static analysis over type-checked MIR (typestate / who-may-write / panic-site enumeration)"

SV = "crate::service::"
T = "crate::service::TalkRequest"
PANICKY = re.compile(r"(Option|Result)::(unwrap|expect|unwrap_err|expect_err)$|panicking::|::unreachable|slice::index|ops::Index")


def witness(rule, tier):
    """compile_fail doctests in /verif/witness against /repo (nightly, so that the error codes are checked)"""
    wdir = os.path.join(VERIF, "witness")
    if not os.path.isdir(wdir):
        rule.fail("witness|missing", "witness crate missing")
        return
    try:
        shutil.copy(os.path.join(REPO, "Cargo.lock"), os.path.join(wdir, "Cargo.lock"))
    except OSError:
        pass
    # the witness crate path-depends on the repository under check
    with open(os.path.join(wdir, "Cargo.toml.in")) as f:
        toml = f.read().replace("@REPO@", REPO)
    with open(os.path.join(wdir, "Cargo.toml"), "w") as f:
        f.write(toml)
    env = dict(os.environ)
    env["CARGO_NET_OFFLINE"] = "true"
    env["CARGO_TARGET_DIR"] = os.environ.get("VERIF_WITNESS_TARGET") or os.path.join(VERIF, "out", "witness-target")
    env.pop("RUSTC_WORKSPACE_WRAPPER", None)
    r = subprocess.run("cargo +nightly test --doc --offline 2>&1", shell=True, cwd=wdir, env=env, stdout=subprocess.PIPE, text=True)
    out = r.stdout
    res = dict(re.findall(r"^test (\S.*?) \.\.\. (ok|FAILED|ignored)", out, re.M))
    want = ["SecondRespondIsRejected", "SingleRespondCompiles", "CloneIsRejected", "MoveWithoutCloneCompiles"]
    for w in want:
        hit = [k for k in res if w in k]
        okk = bool(hit) and all(res[k] == "ok" for k in hit)
        kind = "compile_fail" if "Rejected" in w else "compiles"
        if kind == "compile_fail":
            okk = okk and all("compile fail" in k for k in hit)
        rule.check(okk, "witness %s (%s): %s" % (w, kind, [("%s: %s" % (k.split(" - ")[-1], res[k])) for k in hit]),
                   "witness|%s" % w, "type-level witness %s did not behave as required (%s)" % (w, hit and res[hit[0]] or "not run: " + out[-300:]))


def r_types(ctx):
    facts = ctx.facts
    rule = Rule("C20.W1", "a TalkRequest can be answered at most once: respond consumes it and it cannot be duplicated (witnesses + type facts)",
                floor=2, engine="E3 compile_fail witnesses + ADT/impl facts")
    resp = facts.one(re.escape(T) + "::respond")
    rule.analysed(resp)
    rule.check(resp.local_ty(1) == T, "respond takes `self` by value", "respond|by-value", "TalkRequest::respond takes %s: a request can be answered twice" % resp.local_ty(1),
               loc=resp.loc(resp.line))
    impls = [i for i in facts.impls if i.get("self_adt") == T and i.get("trait")]
    traits = sorted(i["trait"].split("<")[0] for i in impls)
    bad = [t for t in traits if t in ("std::clone::Clone", "std::marker::Copy", "core::clone::Clone", "core::marker::Copy")]
    rule.check(not bad, "TalkRequest implements %s (neither Clone nor Copy)" % traits, "TalkRequest|clone", "TalkRequest implements %s" % bad)
    adt = facts.adts.get(T)
    if adt is None:
        raise AnchorError("ADT TalkRequest not found")
    fields = {f["name"]: f for f in adt["variants"][0]["fields"]}
    priv = all(not f["vis"].startswith("Public") for f in fields.values())
    rule.check(priv and "sender" in fields, "all fields of TalkRequest are private (cannot be rebuilt outside the crate)", "TalkRequest|fields",
               "TalkRequest has public fields: %s" % [n for n, f in fields.items() if f["vis"].startswith("Public")])
    if os.environ.get("VERIF_NO_SELFTEST"):
        rule.note("compile_fail witnesses skipped in checker self-validation runs (mutants); the type facts above still apply")
    else:
        witness(rule, ctx.tier)
    return rule


def r1(ctx):
    facts = ctx.facts
    rule = Rule("C20.R1", "the sender is single-use: set once at construction, taken on every path of respond, Drop sends if and only if it was still there",
                floor=5, engine="A-who + A-dom")
    # who writes / reads the sender field
    touch = {}
    for p, b in sorted(facts.bodies.items()):
        if p.startswith("<crate::service::TalkRequest as std::fmt::Debug>"):
            continue
        for blk in b.blocks:
            if blk.idx not in b.live_blocks():
                continue
            for s in blk.stmts:
                places = []
                if s.k == "a":
                    places.append(s.lhs)
                    if s.rv.place is not None:
                        places.append(s.rv.place)
                    places += [o.place for o in s.rv.ops if o.place is not None]
                for pl in places:
                    base_ty = b.local_ty(pl.local)
                    if "sender" in pl.field_names() and "TalkRequest" in base_ty:
                        touch.setdefault(strip_closure(p), set()).add(s.line)
                if s.k == "a" and s.rv.k == "agg" and s.rv.j.get("def") == T:
                    touch.setdefault(strip_closure(p), set()).add(s.line)
    allowed = {T + "::respond", "<crate::service::TalkRequest as std::ops::Drop>::drop", SV + "Service::handle_rpc_request"}
    extra = sorted(set(touch) - allowed)
    rule.check(not extra and allowed <= set(touch), "TalkRequest.sender is touched only by construction, respond and drop", "sender|who",
               "TalkRequest.sender is also accessed in %s" % extra)
    # construction: Some(handler_send.clone())
    hr = facts.one(re.escape(SV) + "Service::handle_rpc_request")
    rule.analysed(hr)
    p = Prov(hr, facts)
    n = 0
    for blk in hr.blocks:
        for s in blk.stmts:
            if s.k == "a" and s.rv.k == "agg" and s.rv.j.get("def") == T:
                n += 1
                f = dict(zip(s.rv.j["fields"], [p.operand(o) for o in s.rv.ops]))
                okk = all(x[0] == "agg" and x[1].endswith("Option::Some") and "handler_send" in fmt(x) for x in roots(f["sender"]))
                rule.check(okk, "constructed with sender = Some(handler_send.clone())", "construct|sender", "TalkRequest is built with sender = %s" % fmt_short(f["sender"]), loc=hr.loc(s.line))
    if n != 1:
        rule.fail("construct|sites", "TalkRequest is constructed at %d sites (1 confirmed by hand)" % n)
    # respond: every path to return passes sender.take()
    resp = facts.one(re.escape(T) + "::respond")
    rule.analysed(resp)
    pr = Prov(resp, facts)
    takes = [bi for bi, t in resp.calls() if callee_matches(t, r"Option::<.*>::take$", r"Option::take$") and
             any(isinstance(pp, tuple) and pp[0] == "f" and pp[2] == "sender" for pp in place_chain(resp, t.args[0]))]
    rule.check(bool(takes) and must_pass(resp, resp.return_blocks(), via_blocks=takes), "respond takes the sender on every path (the implicit drop finds None)",
               "respond|take", "TalkRequest::respond can return without taking the sender: dropping `self` at its end sends a second, empty response", loc=resp.loc(resp.line))
    sends = [bi for bi, t in resp.calls() if callee_matches(t, r"mpsc::UnboundedSender::<.*>::send$", r"UnboundedSender::send$")]
    rule.check(len(sends) == 1 and must_pass(resp, sends, via_blocks=takes), "respond sends exactly once, on the taken sender", "respond|send",
               "TalkRequest::respond sends %d times or on a sender it did not take" % len(sends), loc=resp.loc(resp.line))
    rule.check(bool(sends) and must_pass(resp, resp.return_blocks(), via_blocks=sends), "every path of respond that returns has sent the response", "respond|return-without-send",
               "TalkRequest::respond can return without sending although it consumes the request (and Drop then finds no sender): the request gets no response at all",
               loc=resp.loc(resp.line))
    # drop: send guarded by Some(take())
    dr = facts.one(r"<crate::service::TalkRequest as std::ops::Drop>::drop")
    rule.analysed(dr)
    pd = Prov(dr, facts)
    g = Guards(dr, pd, facts)
    some_edges = []
    for bi, t, e in g.switches():
        if e[0] == "discr" and fmt_short(e[1]) == "self.sender":
            # must be the result of take(), not a peek at the field
            blk = dr.blocks[bi]
            src = None
            for s in blk.stmts:
                if s.k == "a" and s.rv.k == "discr":
                    src = s.rv.place
            okk = src is not None and any(t2.k == "call" and callee_matches(t2, r"Option::take$", r"Option::<.*>::take$") and t2.dest.local == src.local
                                          for t2 in [bb.term for bb in dr.blocks])
            if okk:
                some_edges += [(bi, tb) for v, tb in t.vals if v == 1]
    dsends = [bi for bi, t in dr.calls() if callee_matches(t, r"UnboundedSender::<.*>::send$", r"UnboundedSender::send$")]
    r = dr.reachable(0, removed_edges=some_edges)
    rule.check(bool(some_edges) and dsends and not any(x in r for x in dsends), "drop sends only past Some(self.sender.take())", "drop|guard",
               "Drop for TalkRequest sends a response even when respond already took the sender", loc=dr.loc(dr.line))
    # ... and always then: once the sender was found, no path returns without sending (an unanswered request otherwise gets no response at all)
    okk = bool(some_edges) and bool(dsends)
    for sb, tgt in some_edges:
        rr = dr.reachable(tgt, removed_blocks=dsends)
        if any(x in rr for x in dr.return_blocks()):
            okk = False
    rule.check(okk, "drop: every path past Some(self.sender.take()) sends the empty response", "drop|return-without-send",
               "Drop for TalkRequest can find the sender still present (the request was never answered) and return without sending the empty response", loc=dr.loc(dr.line))
    # a TALKRESP is only ever produced by the request object (respond / drop): anything else that answers a TALK request on its own adds a
    # second response to the one the object is going to send
    makers = set()
    for pth, bb in sorted(facts.bodies.items()):
        for blk in bb.blocks:
            if blk.idx not in bb.live_blocks():
                continue
            for st_ in blk.stmts:
                if st_.k == "a" and st_.rv.k == "agg" and str(st_.rv.j.get("def")).endswith("rpc::ResponseBody") and st_.rv.j.get("variant") == "Talk":
                    makers.add(strip_closure(pth))
    allowed = {"crate::service::TalkRequest::respond", "<crate::service::TalkRequest as std::ops::Drop>::drop", "crate::rpc::Message::decode",
               "<crate::rpc::ResponseBody as std::clone::Clone>::clone"}
    extra = sorted(m for m in makers if m not in allowed and not m.startswith("crate::rpc::"))
    rule.check(not extra and {"crate::service::TalkRequest::respond", "<crate::service::TalkRequest as std::ops::Drop>::drop"} <= makers,
               "TALKRESP bodies are built only by TalkRequest::respond and TalkRequest::drop (and the codec)", "talkresp|who",
               "a TALKRESP is also built in %s: a request answered there is answered again by its TalkRequest object (respond or drop)" % extra)

    return rule


def place_chain(body, op):
    """projection elements reachable by following `_x = &mut (*_1).sender` style temporaries of an operand"""
    out = []
    if op.place is None:
        return out
    cur = op.place
    seen = set()
    for _ in range(6):
        out += list(cur.proj)
        nxt = None
        for b in body.blocks:
            for s in b.stmts:
                if s.k == "a" and s.lhs.is_local() and s.lhs.local == cur.local and s.rv.place is not None:
                    nxt = s.rv.place
        if nxt is None or nxt.local in seen:
            break
        seen.add(nxt.local)
        cur = nxt
    return out


def r2(ctx):
    facts = ctx.facts
    rule = Rule("C20.R2", "right id, right address: both responses carry the request's own id and node address; respond sends the payload given", floor=5, engine="A-prov")
    for name, pat in (("respond", re.escape(T) + "::respond"), ("drop", r"<crate::service::TalkRequest as std::ops::Drop>::drop")):
        b = facts.one(pat)
        rule.analysed(b)
        p = Prov(b, facts)
        n = 0
        for bi, t in b.calls():
            if callee_matches(t, r"UnboundedSender::<.*>::send$", r"UnboundedSender::send$"):
                e = p.operand(t.args[1])
                for x in walk(e):
                    if x[0] == "agg" and x[1].endswith("HandlerIn::Response"):
                        n += 1
                        f = dict(x[2])
                        addr = fmt_short(f["0"])
                        resp = [y for y in walk(f["1"]) if y[0] == "agg" and y[1].endswith("rpc::Response::Response")]
                        rid = fmt_short(dict(resp[0][2])["id"]) if resp else "?"
                        body = [y for y in walk(f["1"]) if y[0] == "agg" and y[1].endswith("ResponseBody::Talk")]
                        rule.check(addr == "self.node_address" and rid == "self.id" and bool(body), "%s answers HandlerIn::Response(self.node_address, Response{id: self.id, Talk{..}})" % name,
                                   "%s|id-address" % name, "TalkRequest::%s answers to %s with id %s" % (name, addr, rid), loc=b.loc(t.line))
                        if name == "respond" and body:
                            # "the application's payload if it responds": the payload sent is the argument, untouched
                            import c02
                            payload = dict(body[0][2])["response"]
                            pl = 2 if b.local_name(2) else None
                            touched = c02.mut_borrowed_locals(b, 2, bi) if pl else []
                            rule.check(set(roots(payload)) == {("param", 2, b.local_name(2))} and not any(x[0] == "call" for x in walk(payload)) and not touched,
                                       "respond sends the application's payload as given", "respond|payload",
                                       "TalkRequest::respond does not send the payload it was given unchanged (sent: %s%s): the peer receives something else than the "
                                       "application's answer" % (fmt_short(payload)[:80], "; the argument is modified in place first" if touched else ""), loc=b.loc(t.line))
                        if name == "drop" and body:
                            payload = dict(body[0][2])["response"]
                            empty = all(y[0] == "call" and re.search(r"vec::Vec::<.*>::new$|Vec::new$|from_elem|box_new_uninit|into_vec", y[1]) or y[0] in ("const", "agg") for y in roots(payload))
                            rule.note("drop payload: %s" % fmt_short(payload))
        if n != 1:
            rule.fail("%s|sites" % name, "TalkRequest::%s builds %d responses (1 confirmed by hand)" % (name, n))
    hr = facts.one(re.escape(SV) + "Service::handle_rpc_request")
    p = Prov(hr, facts)
    for blk in hr.blocks:
        for s in blk.stmts:
            if s.k == "a" and s.rv.k == "agg" and s.rv.j.get("def") == T:
                f = dict(zip(s.rv.j["fields"], [p.operand(o) for o in s.rv.ops]))
                rule.check(fmt_short(f["id"]) == "req.id" and fmt_short(f["node_address"]) == "node_address",
                           "constructed with the delivered request's id and NodeAddress", "construct|id-address",
                           "TalkRequest is built with id %s, address %s" % (fmt_short(f["id"]), fmt_short(f["node_address"])), loc=hr.loc(s.line))
    mk = set()
    for pth, b in facts.bodies.items():
        if pth.startswith("<crate::discv5::Event as"):
            continue
        for blk in b.blocks:
            for s in blk.stmts:
                if s.k == "a" and s.rv.k == "agg" and s.rv.j.get("def") == "crate::discv5::Event" and s.rv.j.get("variant") == "TalkRequest":
                    mk.add(strip_closure(pth))
    rule.check(mk == {SV + "Service::handle_rpc_request"}, "Event::TalkRequest is built only in handle_rpc_request", "event|who", "Event::TalkRequest is constructed in %s" % sorted(mk))
    return rule


def r3(ctx):
    rule = Rule("C20.R3", "no panic after shutdown: only the unwrap of the freshly taken sender can panic in respond/drop; closed channel -> Err / log",
                floor=2, engine="panic-site enumeration")
    for prof, facts in ctx.all_profiles():
        for name, pat in (("respond", re.escape(T) + "::respond"), ("drop", r"<crate::service::TalkRequest as std::ops::Drop>::drop")):
            b = facts.one(pat)
            rule.analysed(b)
            sites = []
            for blk in b.blocks:
                if blk.idx not in b.live_blocks() or blk.cleanup:
                    continue
                t = blk.term
                if t.exp and ("debug" in t.exp or "warn" in t.exp or "event" in t.exp):
                    continue
                if t.k == "assert":
                    sites.append(("assert:" + t.j["msg"], t.line))
                if t.k == "call" and t.fn is not None:
                    n = short(t.callee() or "")
                    if PANICKY.search(n):
                        sites.append((n.split("::")[-2] + "::" + n.split("::")[-1], t.line))
            allowed = [("Option::unwrap", None)] if name == "respond" else []
            extra = [s for s in sites if s[0] not in [a[0] for a in allowed]]
            rule.check(not extra and len(sites) <= len(allowed), "[%s] %s: panic-capable sites %s" % (prof, name, sites), "%s|panic-sites" % name,
                       "TalkRequest::%s has panic-capable sites %s" % (name, extra), loc=b.loc(b.line))
            if name == "respond":
                p = Prov(b, facts)
                # Err(ChannelClosed) comes out of map_err on the send result
                okk = any(callee_matches(t, r"Result::<.*>::map_err", r"Result::map_err$") for _, t in b.calls())
                clos = [cb for pth, cb in facts.bodies.items() if pth.startswith(b.path + "::{closure#")]
                cc = any(any(s.k == "a" and s.rv.k == "agg" and s.rv.j.get("variant") == "ChannelClosed" for blk in cb.blocks for s in blk.stmts) for cb in clos)
                mapped = okk and cc
                if not mapped:
                    # the same mapping written as `match sender.send(..) { Ok(()) => Ok(()), Err(_) => Err(ChannelClosed) }`
                    g = Guards(b, p, facts)
                    cc_blocks = [blk.idx for blk in b.blocks if blk.idx in b.live_blocks() for s in blk.stmts
                                 if s.k == "a" and s.rv.k == "agg" and s.rv.j.get("variant") == "ChannelClosed"]
                    for bi, t, e in g.switches():
                        if e[0] == "discr" and any(x[0] == "call" and re.search(r"UnboundedSender::send$|Sender::send$", short(x[1])) for x in walk(e[1])):
                            names, _ = g.variant_names(bi)
                            err_t = [tb for v, tb in t.vals if names.get(v) == "Err"] or ([t.otherwise] if any(names.get(v) == "Ok" for v, _ in t.vals) else [])
                            ok_t = [s_ for s_ in t.succs() if s_ not in err_t]
                            if err_t and cc_blocks and all(not any(x in b.reachable(e_, removed_blocks=cc_blocks) for x in b.return_blocks()) for e_ in err_t) and \
                                    not any(c in b.reachable(o_) for o_ in ok_t for c in cc_blocks):
                                mapped = True
                rule.check(mapped, "[%s] a closed channel is mapped to Err(ResponseError::ChannelClosed)" % prof, "respond|closed-channel",
                           "TalkRequest::respond does not map a closed channel to ResponseError::ChannelClosed", loc=b.loc(b.line))
    return rule


def r4(ctx):
    """'leads to exactly one TALKRESP': the application's answer travels Service -> Handler::send_response -> wire whenever the peer has a session"""
    facts = ctx.facts
    rule = Rule("C20.R4", "the handler puts the application's response on the wire whenever a session with the peer exists (no further condition on the session)",
                floor=3, engine="A-dom + A-prov")
    H = "crate::handler::Handler::"
    b = facts.coroutine_of(H + "send_response")
    rule.analysed(b)
    p = Prov(b, facts)
    g = Guards(b, p, facts)
    is_get = lambda e: e[0] == "call" and re.search(r"LruTimeCache(::<.*>)?::(get_mut|get)$", short(e[1])) and "sessions" in fmt_short(e)
    some_e, none_e = option_edges(g, is_get)
    # no other condition is put on the session between the lookup and the test (Option::filter, take_if, and_then ..)
    wrapped = []
    for bi, t, e in g.switches():
        inner = e
        while inner[0] in ("un", "discr") or (inner[0] == "call" and re.search(r"Option::is_(some|none)$", short(inner[1]))):
            inner = inner[2] if inner[0] == "un" else (inner[1] if inner[0] == "discr" else inner[2][0])
        if not is_get(inner) and inner[0] == "call" and re.search(r"option::Option(::<.*>)?::\w+$|^Option::\w+$", short(inner[1])) and any(is_get(x) for x in walk(inner)):
            wrapped.append(fmt_short(inner)[:100])
    rule.check(bool(some_e) and not wrapped, "send_response tests the session lookup itself", "send_response|session-test",
               "Handler::send_response puts a further condition on the session it found (%s): a response the application gave for a delivered request is dropped although "
               "a session with the peer exists, and the peer gets no TALKRESP" % "; ".join(wrapped), loc=b.loc(b.line))
    enc = [bi for bi, t in b.calls() if (t.callee() or "").endswith("Session::encrypt_message")]
    snd = [bi for bi, t in b.calls() if (t.callee() or "") == H + "send"]
    rule.check(bool(enc) and bool(snd) and all(must_pass(b, [x], via_blocks=enc) for x in snd), "what is sent is the response encrypted with that session", "send_response|encrypt",
               "Handler::send_response sends without encrypting the response with the peer's session", loc=b.loc(b.line))
    okk = bool(some_e) and bool(enc)
    for sb, tgt in some_e:
        rr = b.reachable(tgt, removed_blocks=enc)
        if any(x in rr for x in b.return_blocks()):
            okk = False
    rule.check(okk, "with a session, every path encrypts the response", "send_response|skipped",
               "Handler::send_response can return without encrypting / sending although a session was found", loc=b.loc(b.line))
    return rule


def run(ctx):
    G = lambda l, f, *a: guarded("C20." + l, f, ctx, *a)
    return G("W1", r_types) + G("R1", r1) + G("R2", r2) + G("R3", r3) + G("R4", r4)
