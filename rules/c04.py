"""C04 — Every request gets exactly one outcome."""
import re

from analysis import (canon, const_int_of, async_param_names, linear, lift_option_predicates, option_edges, membership_test, cmp_intervals, peel_await, Prov, Guards, fmt, fmt_short, walk, roots, short, comparison, find_calls, callee_matches,
                      must_pass, path_to, describe_path, normalised_cmp, const_int_of, contains_call)
from facts import AnchorError, strip_closure
from harness import Rule, guarded
import c13

PID = "C04"
EXPLANATION = (
    "Linear-resource rule by must-pass-through over the MIR of the handler: every RequestCall obtained from "
    "ActiveRequests (remove_by_nonce / remove_request / an item of remove_requests / the timeout stream / a by-value "
    "parameter) reaches, on every path to the function's return (or the loop's next iteration), a discharge of that "
    "very value: re-insertion, a sink function taking it by value, the report idiom (match on its id: External -> "
    "RequestFailed with that id, Internal -> nothing) or delivery of HandlerOut::Response; the same for "
    "PendingRequest items and for send_request's Ok returns and callers (R1). Queued requests are released on every "
    "path of new_session, after a consumed challenge and on challenge expiry; only three functions write "
    "pending_requests (R2). The resend path is bounded by retries() >= request_retries with an increment before the "
    "re-insert and resends the stored packet; Timeout is constructed only there (R3). Multi-packet re-insertions "
    "are guarded by total > 1 and are disjoint from the final path that releases the exemption (R4).")
EXPLANATION += (" Added while testing: R4 also requires every re-insert of a multi-packet NODES request to follow a stored update of the packets still expected (Some(total - 1), then - 1). R5: the request that travelled inside the handshake packet is not replayed under the new keys (new_session gets the handshake packet's nonce; replay_active_requests filters on it). R6: the Service keeps a request and its caller waiting only while further NODES packets are due (C11.R4's re-insertion obligations).")
NOT_DECIDED = ["exactly-once under every interleaving of the two event sources", "that Timeout is reported only after a full timeout period (delay_map timer semantics)",
               "synchrony of the two maps inside ActiveRequests", "'never two outcomes' is carried by move semantics (fail_request takes the call by value), a typing fact"]
TRUSTED = ["ActiveRequests::insert stores the call (it is outstanding again)", "the nonce double-check exit of handle_challenge is infeasible by remove_by_nonce's checked postcondition (C13.R1)"]

H = "crate::handler::Handler::"
T_CALL = "crate::handler::request_call::RequestCall"
T_PEND = "crate::handler::PendingRequest"
SINKS = {  # callee -> index of the RequestCall argument
    "crate::handler::active_requests::ActiveRequests::insert": 2,
    H + "insert_active_request": 1,
    H + "fail_request": 1,
    H + "handle_request_timeout": 2,
}


def body_of(facts, fn):
    b = facts.bodies.get(fn + "::{closure#0}")
    if b is not None and b.coroutine:
        return b
    b = facts.bodies.get(fn)
    if b is None:
        raise AnchorError("no body for %s" % fn)
    return b


def derives_from(e, pred):
    return any(pred(x) for x in walk(e))


def option_some_edge(body, call_block):
    """for `_x = call(..) -> bbN; bbN: d = discriminant(_x); switch` return (switch block, some target, other targets)"""
    t = body.blocks[call_block].term
    cur = t.target
    for _ in range(8):
        blk = body.blocks[cur]
        tt = blk.term
        if tt.k == "switch":
            for s in blk.stmts:
                if s.k == "a" and s.rv.k == "discr" and s.rv.place.local == t.dest.local:
                    some = [tb for v, tb in tt.vals if v == 1]
                    if some:
                        return cur, some[0]
                    # vals = [(0, none)] otherwise some
                    if [v for v, _ in tt.vals] == [0]:
                        return cur, tt.otherwise
            return None
        if tt.k in ("goto",) or (tt.k == "call" and callee_matches(tt, r"Option::unwrap_or_default$")):
            cur = tt.target
            continue
        return None
    return None


def result_switches(body, prov, facts, call_pred):
    """switches on the discriminant of a Result deriving from a call satisfying call_pred:
    yields (switch block, [Err targets], [other targets])"""
    g = Guards(body, prov, facts)
    for wbi, wt, we in g.switches():
        if we[0] != "discr":
            continue
        tops = [peel_await(x) for x in (we[1][1] if we[1][0] == "phi" else (we[1],))]
        if not tops or not all(call_pred(x) for x in tops):
            continue
        names, _pl = g.variant_names(wbi)
        if sorted(names.values()) != ["Err", "Ok"]:
            continue
        err_t = [tb for v, tb in wt.vals if names.get(v) == "Err"]
        others = [s_ for s_ in wt.succs() if s_ not in err_t]
        yield wbi, err_t, others


def report_idiom(body, prov, id_pred):
    """discharge (blocks, edges) of the report idiom for ids satisfying id_pred(expr of the matched id)"""
    g = Guards(body, prov)
    blocks, edges = [], []
    for bi, t, e in g.switches():
        if e[0] != "discr" or not id_pred(e[1]):
            continue
        # HandlerReqId: 0 = Internal, 1 = External. `match` lists both values; `if let External(id) = ..` lists 1 and leaves
        # Internal to the otherwise edge
        ext = [tb for v, tb in t.vals if v == 1]
        for v, tb in t.vals:
            if v == 0:
                edges.append((bi, tb))
        if ext and not any(v == 0 for v, _ in t.vals) and t.otherwise is not None and t.otherwise not in ext:
            edges.append((bi, t.otherwise))
    for bi, t in body.calls():
        if callee_matches(t, r"mpsc::Sender::<crate::handler::HandlerOut>::send$") and len(t.args) == 2:
            e = prov.operand(t.args[1])
            for x in walk(e):
                if x[0] == "agg" and x[1] == "crate::handler::HandlerOut::RequestFailed":
                    f0 = dict(x[2]).get("0")
                    if f0 is not None and derives_from(f0, id_pred):
                        blocks.append(bi)
    return blocks, edges


def response_sends(body, prov):
    out = []
    for bi, t in body.calls():
        if callee_matches(t, r"mpsc::Sender::<crate::handler::HandlerOut>::send$") and len(t.args) == 2:
            e = prov.operand(t.args[1])
            if any(x[0] == "agg" and x[1] == "crate::handler::HandlerOut::Response" for x in walk(e)):
                out.append(bi)
    return out


def r1(ctx):
    facts = ctx.facts
    rule = Rule("C04.R1", "every removed / received RequestCall and PendingRequest is re-inserted, handed to a sink, "
                "reported, or answered on every path; send_request's Ok returns store the request", floor=12,
                engine="A-dom (linear resource by must-pass-through)")
    cons = c13.Cons(facts, Rule("tmp", ""))
    fns = [p for p in sorted(facts.bodies) if p.startswith(H) and "{closure" not in p and not p.endswith("::spawn")]
    for fn in fns:
        body = body_of(facts, fn)
        prov = Prov(body, facts)
        name = fn.split("::")[-1]
        infeasible = cons.infeasible_edges(body, prov)
        rets = body.return_blocks()
        sites = []   # (description, start block, value predicate, extra terminal blocks)
        # (a) by-value parameters
        outer = facts.bodies.get(fn)
        for l in range(1, outer.arg_count + 1):
            if outer.local_ty(l) == T_CALL:
                pname = outer.local_name(l)
                if body.coroutine:
                    pred = (lambda n: (lambda x: x == ("upvar", n)))(pname)
                else:
                    pred = (lambda i: (lambda x: x[0] == "param" and x[1] == i))(l)
                sites.append(("parameter %s" % pname, 0, pred, []))
        # (b) removes, (c) loop items
        for bi, t in body.calls():
            c = c13.classify(t)
            if c is None or c[0] != "map_opt" or "active_challenges" in c[2]:
                continue
            se = option_some_edge(body, bi)
            if se is None:
                rule.fail("%s|%s|unmatched" % (name, c[2]), "result of %s in Handler::%s is not matched on Some/None" % (c[2], name),
                          loc=body.loc(t.line))
                continue
            sw, some_t = se
            key = (body.path, bi)
            pred = (lambda k: (lambda x: x[0] == "call" and x[3] == k))(key)
            extra = [bi] if "next(" in c[2] else []
            sites.append((c[2], some_t, pred, extra))
        # (d) stream item in start
        if name == "start":
            for b in body.blocks:
                for s in b.stmts:
                    if s.k == "a" and s.lhs.is_local() and body.local_ty(s.lhs.local) == T_CALL and s.rv.k == "use" \
                            and s.rv.ops[0].place is not None and "__tokio_select_util::Out" in body.local_ty(s.rv.ops[0].place.local):
                        l = s.lhs.local
                        pe = prov.place(s.rv.ops[0].place)
                        sites.append(("timeout stream item", b.idx, (lambda pe_: (lambda x: x == pe_))(pe), []))
        if not sites:
            continue
        rule.analysed(body)
        resp = response_sends(body, prov)
        for what, start, pred, extra_term in sites:
            dblocks, dedges = [], list(infeasible)
            for bi, t in body.calls():
                callee = t.callee() or ""
                if callee in SINKS and len(t.args) > SINKS[callee]:
                    a = t.args[SINKS[callee]]
                    if a.kind == "m" and derives_from(prov.operand(a), pred):
                        dblocks.append(bi)
            rb, re_ = report_idiom(body, prov, lambda e: e[0] == "call" and e[1].endswith("RequestCall::id") and derives_from(e, pred)
                                   or derives_from(e, lambda x: x[0] == "call" and x[1].endswith("RequestCall::id") and derives_from(x, pred)))
            dblocks += rb
            dedges += re_
            dblocks += resp
            terms = set(rets) | set(extra_term)
            r = body.reachable(start, removed_edges=dedges, removed_blocks=[b for b in dblocks if b != start])
            # a loop item's own next() block is the start's predecessor; exclude the trivial start==terminal
            bad = [x for x in terms if x in r and x != start]
            if start in dblocks:
                bad = []
            if bad:
                p = path_to(body, bad, removed_edges=dedges, removed_blocks=dblocks, start=start)
                rule.fail("%s|%s|dropped" % (name, what),
                          "Handler::%s: a RequestCall from %s can reach the end of its scope without being re-inserted, "
                          "failed, reported or answered" % (name, what), loc=body.loc(body.blocks[start].term.line),
                          site="%s: %s" % (name, what), path=describe_path(body, p or []))
            else:
                rule.ok("%s: RequestCall from %s" % (name, what), "discharges: %d sink/report/response blocks, %d edges" % (len(dblocks), len(dedges)))
    # PendingRequest items
    for fn in fns:
        body = body_of(facts, fn)
        name = fn.split("::")[-1]
        prov = None
        for bi, t in body.calls():
            full = t.callee_full() or ""
            if not re.search(r"<std::vec::IntoIter<%s> as std::iter::Iterator>::next$" % re.escape(T_PEND), full):
                continue
            prov = prov or Prov(body, facts)
            rule.analysed(body)
            se = option_some_edge(body, bi)
            if se is None:
                rule.fail("%s|pending|unmatched" % name, "loop over pending requests in %s not recognised" % name, loc=body.loc(t.line))
                continue
            sw, some_t = se
            key = (body.path, bi)
            pred = lambda x, k=key: x[0] == "call" and x[3] == k
            rb, re_ = report_idiom(body, prov, lambda e: e[0] == "field" and e[2] == "request_id" and derives_from(e, pred))
            dedges = list(re_)
            dblocks = list(rb)
            # handed to send_request: its Ok edge discharges, its Err edge must go on to the report idiom
            for sbi, st in body.calls():
                if (st.callee() or "") == H + "send_request" and any(derives_from(prov.operand(a), pred) for a in st.args[1:]):
                    skey = (body.path, sbi)
                    for wbi, err_t, others in result_switches(body, prov, facts, lambda x, k=skey: x[0] == "call" and x[1] == H + "send_request" and x[3] == k):
                        for s_ in others:
                            dedges.append((wbi, s_))
            terms = set(body.return_blocks()) | {bi}
            r = body.reachable(some_t, removed_edges=dedges, removed_blocks=dblocks)
            bad = [x for x in terms if x in r]
            rule.check(not bad, "%s: each queued PendingRequest is sent (Err reported) or reported" % name,
                       "%s|pending|dropped" % name,
                       "Handler::%s: a queued request can be dropped without being sent or reported" % name,
                       loc=body.loc(t.line))
    # send_request: Ok returns store the request
    sr = body_of(facts, H + "send_request")
    rule.analysed(sr)
    prov = Prov(sr, facts)
    oks = [blk for lhs, kind, payload, blk, _l in prov.defs.get(0, ()) if kind == "rv" and payload.k == "agg"
           and payload.j.get("variant") == "Ok" and blk in sr.live_blocks()]
    stores = []
    for bi, t in sr.calls():
        if callee_matches(t, r"vec::Vec::<crate::handler::PendingRequest>::push$"):
            e = prov.operand(t.args[1])
            agg = [x for x in walk(e) if x[0] == "agg" and x[1].startswith(T_PEND)]
            if agg and all(roots(v) == {("upvar", n)} for n, v in agg[0][2]):
                stores.append(bi)
        if (t.callee() or "") == "crate::handler::active_requests::ActiveRequests::insert":
            e = prov.operand(t.args[2])
            new = [x for x in walk(e) if x[0] == "call" and x[1].endswith("RequestCall::new")]
            if new and roots(new[0][2][0]) == {("upvar", "contact")} and roots(new[0][2][2]) == {("upvar", "request_id")} \
                    and roots(new[0][2][3]) == {("upvar", "request")}:
                stores.append(bi)
    if not oks:
        raise AnchorError("send_request has no Ok return")
    rule.check(len(stores) >= 2 and must_pass(sr, oks, via_blocks=stores),
               "send_request: every Ok return has queued a PendingRequest or inserted a RequestCall built from its parameters",
               "send_request|ok-without-store", "send_request can return Ok without having stored the request",
               loc=sr.loc(sr.line), detail="%d Ok sites, %d store sites" % (len(oks), len(stores)))
    # callers of send_request
    callers = facts.callers_of(lambda n: n == H + "send_request")
    for p in sorted(callers):
        cb = facts.bodies[p]
        cprov = Prov(cb, facts)
        cname = strip_closure(p).split("::")[-1]
        for bi, t in callers[p]:
            if not t.callee() == H + "send_request":
                continue
            rid = cprov.operand(t.args[2])
            internal = all(x[0] == "agg" and x[1].endswith("HandlerReqId::Internal") for x in roots(rid))
            if internal:
                rule.ok("%s: send_request for an Internal id needs no report" % cname)
                continue
            if cname == "send_pending_requests":
                continue  # covered above by the PendingRequest rule
            skey = (cb.path, bi)
            err_targets = []
            for wbi, err_t, others in result_switches(cb, cprov, facts, lambda x: x[0] == "call" and x[1] == H + "send_request" and x[3] == skey):
                err_targets += err_t
            sends = []
            for sbi, st in cb.calls():
                if callee_matches(st, r"mpsc::Sender::<crate::handler::HandlerOut>::send$") and len(st.args) == 2:
                    e = cprov.operand(st.args[1])
                    if any(x[0] == "agg" and x[1] == "crate::handler::HandlerOut::RequestFailed" for x in walk(e)):
                        sends.append(sbi)
            terms = set(cb.return_blocks()) | c13.loop_heads(cb)
            ok = bool(err_targets) and bool(sends)
            for et in err_targets:
                r = cb.reachable(et, removed_blocks=sends)
                if any(x in r for x in terms):
                    ok = False
            rule.check(ok, "%s: Err of send_request leads to RequestFailed" % cname, "%s|send_request-err" % cname,
                       "Handler::%s ignores a failed send_request for an external request" % cname, loc=cb.loc(t.line))
    return rule


def r2(ctx):
    facts = ctx.facts
    rule = Rule("C04.R2", "queued requests are released: on every path of new_session, after a consumed challenge, on "
                "challenge expiry; writers of pending_requests are three functions; a request is queued only while a release is bound to come", floor=9, engine="A-dom + A-who")
    ns = body_of(facts, H + "new_session")
    rule.analysed(ns)
    spr = [bi for bi, t in ns.calls() if (t.callee() or "") == H + "send_pending_requests"]
    ok = bool(spr) and must_pass(ns, ns.return_blocks(), via_blocks=spr)
    if not ok:
        p = path_to(ns, ns.return_blocks(), removed_blocks=spr)
        prov = Prov(ns, facts)
        from analysis import edge_label
        labs = []
        for i in range(len(p or []) - 1):
            t = ns.blocks[p[i]].term
            if t.k == "switch" and not t.exp:
                labs.append(edge_label(ns, prov, p[i], p[i + 1]))
        rule.fail("new_session|no-release|%s" % " ".join("[%s]" % l for l in labs),
                  "Handler::new_session can return without calling send_pending_requests (path: %s): requests queued "
                  "behind an outstanding WHOAREYOU are neither sent nor failed when the handshake re-keys an existing session" % labs,
                  loc=ns.loc(ns.line), site="new_session releases queued requests on every path", path=describe_path(ns, p or []))
    else:
        rule.ok("new_session releases queued requests on every path")
    # (b) handle_auth_message
    ham = body_of(facts, H + "handle_auth_message")
    rule.analysed(ham)
    rem = [(bi, t) for bi, t in ham.calls() if c13.classify(t) and c13.classify(t)[2] == "active_challenges.remove"]
    if len(rem) != 1:
        raise AnchorError("handle_auth_message: expected one active_challenges.remove, found %d" % len(rem))
    se = option_some_edge(ham, rem[0][0])
    if se is None:
        raise AnchorError("handle_auth_message: challenge removal is not matched")
    via = [bi for bi, t in ham.calls() if (t.callee() or "") in (H + "new_session", H + "fail_session") or
           (c13.classify(t) and c13.classify(t)[2] == "active_challenges.insert")]
    r = ham.reachable(se[1], removed_blocks=via)
    rule.check(not any(x in r for x in ham.return_blocks()),
               "handle_auth_message: after consuming the challenge every path reaches new_session, fail_session or re-inserts the challenge",
               "handle_auth_message|stuck-queue", "handle_auth_message can consume the challenge and return without "
               "new_session / fail_session / re-insertion: queued requests stay queued with nothing left to release them",
               loc=ham.loc(ham.line))
    # (c) expiry arm
    st = body_of(facts, H + "start")
    rule.analysed(st)
    binds = []
    for b in st.blocks:
        for s in b.stmts:
            if s.k == "a" and s.lhs.is_local() and st.local_ty(s.lhs.local) == c13.T_CHAL and s.rv.k == "use" and \
                    s.rv.ops[0].place is not None and "__tokio_select_util::Out" in st.local_ty(s.rv.ops[0].place.local):
                binds.append(b.idx)
    if not binds:
        raise AnchorError("Handler::start: challenge-expiry arm not found")
    spr = [bi for bi, t in st.calls() if (t.callee() or "") == H + "send_pending_requests"]
    heads = c13.loop_heads(st)
    for bidx in binds:
        r = st.reachable(bidx, removed_blocks=spr)
        rule.check(bool(spr) and not any(h in r for h in heads if h != bidx) and not any(x in r for x in st.return_blocks()),
                   "start: the challenge-expiry arm releases queued requests", "start|expiry-arm",
                   "the challenge-expiry arm of Handler::start does not call send_pending_requests", loc=st.loc(st.blocks[bidx].term.line))
    # (d) writers
    writers = set()
    for p, b in sorted(facts.bodies.items()):
        if not p.startswith("crate::handler::"):
            continue
        for blk in b.blocks:
            if blk.idx not in b.live_blocks():
                continue
            for s in blk.stmts:
                if s.k == "a" and s.rv.k == "ref" and s.rv.j["bk"] == "mut" and "pending_requests" in s.rv.place.field_names():
                    writers.add(strip_closure(p))
    want = {H + "send_request", H + "send_pending_requests", H + "fail_session"}
    rule.check(writers <= want and writers, "mutable accesses to pending_requests: %s" % sorted(w.split("::")[-1] for w in writers),
               "pending|writers", "pending_requests is modified outside send_request / send_pending_requests / fail_session: %s" % sorted(writers - want))
    # (e) a request is queued only while something is bound to release it: an outstanding challenge (released by the handshake, its failure
    # or the challenge's expiry), or no session at all plus a session-initiating request in flight (released by new_session / fail_session).
    # pending_requests has no timer of its own.
    sr = body_of(facts, H + "send_request")
    rule.analysed(sr)
    ps = Prov(sr, facts)
    gs = Guards(sr, ps, facts)
    pushes = [bi for bi, t in sr.calls() if callee_matches(t, r"Vec::<.*PendingRequest.*>::push$", r"vec::Vec::push$") and
              "pending_requests" in fmt_short(ps.operand(t.args[0]))]
    if not pushes:
        raise AnchorError("send_request: the push into pending_requests was not found")
    addr = None
    chal = []
    wait = []
    # "a challenge is outstanding" in any spelling: get(..).is_some(), contains_key, `if let Some(_) = get(..)`, matches!
    _cs, _cn = option_edges(gs, lambda x: x[0] == "call" and re.search(r"HashMapDelay(<.*>)?::get$", short(x[1])) and fmt_short(x[2][0]) == "self.active_challenges")
    chal += _cs
    for bi, t, e in gs.switches():
        if e[0] == "discr" or (e[0] == "call" and re.search(r"Option::is_(some|none)$", short(e[1]))) or (e[0] == "un"):
            for x in walk(e):
                if x[0] == "call" and re.search(r"HashMapDelay(<.*>)?::get$", short(x[1])) and fmt_short(x[2][0]) == "self.active_challenges":
                    addr = fmt_short(x[2][1])
        mt = membership_test(e)
        if mt is not None and fmt_short(mt[0]) == "self.active_challenges" and "contains" in fmt_short(e):
            f_, tr_ = gs.bool_edges(bi)
            chal.append((bi, f_ if mt[2] else tr_))
            addr = fmt_short(mt[1])
        inner, neg = e, False
        while inner[0] == "un" and inner[1] == "Not":
            inner, neg = inner[2], not neg
        if inner[0] == "call" and inner[1] == H + "is_awaiting_session_to_be_established":
            f_, tr_ = gs.bool_edges(bi)
            wait.append((bi, tr_ if not neg else f_, fmt_short(inner[2][1])))
    r = sr.reachable(0, removed_edges=chal + [(a_, b_) for a_, b_, _ in wait])
    rule.check(bool(chal) and bool(wait) and not any(x in r for x in pushes) and all(w[2] == addr for w in wait),
               "send_request queues only past active_challenges.get(addr).is_some() or is_awaiting_session_to_be_established(addr)", "send_request|queue-guard",
               "send_request can queue a request although neither a challenge is outstanding nor a session is being established for that address: nothing will release it",
               loc=sr.loc(sr.blocks[pushes[0]].term.line))
    aw = body_of(facts, H + "is_awaiting_session_to_be_established")
    rule.analysed(aw)
    pw = Prov(aw, facts)
    gw = Guards(aw, pw, facts)
    nosess = []
    pn = aw.local_name(2) or "node_address"
    _ss, _sn = option_edges(gw, lambda x: x[0] == "call" and re.search(r"LruTimeCache(<.*>)?::(get|get_mut|peek)$", short(x[1])) and fmt_short(x[2][0]) == "self.sessions" and
                            fmt_short(x[2][1]) == pn)
    nosess += _sn
    # returns that may be true: every definition of the return place that is not the constant false
    may_true = [blk for lhs, kind, payload, blk, _l in pw.defs.get(0, ()) if not (kind == "rv" and payload.k == "use" and payload.ops[0].const_int() == 0)]
    rr = aw.reachable(0, removed_edges=nosess)
    rule.check(bool(nosess) and bool(may_true) and not any(x in rr for x in may_true),
               "is_awaiting_session_to_be_established can return true only past `no session stored for the address`", "awaiting|session-exists",
               "is_awaiting_session_to_be_established can return true although a session exists for the address: send_request then queues the request, and with the "
               "session already established nothing (no handshake, no challenge expiry) will ever release or fail it", loc=aw.loc(aw.line))
    # (f) the release that (e) relies on: when a request fails - in particular the session-initiating one timing out - the requests queued
    # behind it are failed with it: fail_request reaches fail_session on every path, and fail_session empties pending_requests for that address
    fr = body_of(facts, H + "fail_request")
    rule.analysed(fr)
    fs_calls = [bi for bi, t in fr.calls() if (t.callee() or "") == H + "fail_session"]
    rule.check(bool(fs_calls) and must_pass(fr, fr.return_blocks(), via_blocks=fs_calls), "fail_request fails the whole session's queue on every path (fail_session)", "fail_request|queue-not-failed",
               "fail_request can return without fail_session: requests queued behind the failed one (pending_requests has no timer of its own) are never sent nor failed",
               loc=fr.loc(fr.line))
    fsb = body_of(facts, H + "fail_session")
    rule.analysed(fsb)
    pfs = Prov(fsb, facts)
    rem = [bi for bi, t in fsb.calls() if callee_matches(t, r"HashMap::<.*>::remove$", r"HashMap::remove$") and fmt_short(pfs.operand(t.args[0])) == "self.pending_requests"]
    rule.check(bool(rem) and must_pass(fsb, fsb.return_blocks(), via_blocks=rem), "fail_session takes the address's queue out of pending_requests on every path", "fail_session|queue-kept",
               "fail_session can return without removing the address's entry from pending_requests", loc=fsb.loc(fsb.line))
    ini = [bi for bi, t in aw.calls() if callee_matches(t, r"Iterator>::any$")]
    clos = [cb for pth, cb in facts.bodies.items() if pth.startswith(aw.path + "::{closure#")]
    by_flag = any(any(callee_matches(t, r"RequestCall::initiating_session$") for _, t in cb.calls()) for cb in clos)
    # `self.active_requests.get(a).is_some_and(|rs| rs.iter().any(|r| r.initiating_session()))` (or map_or(false, ..)) says the same as the if-let
    via_comb = set()
    for lhs, kind, payload, blk, _l in pw.defs.get(0, ()):
        if kind == "call" and callee_matches(payload, r"option::Option::<.*>::(is_some_and|map_or)$", r"Option::(is_some_and|map_or)$"):
            for le in lift_option_predicates(facts, pw.operand_of_call(payload) if hasattr(pw, "operand_of_call") else
                                             ("call", payload.callee(), tuple(pw.operand(a) for a in payload.args))):
                if any(isinstance(x, tuple) and x and x[0] == "call" and re.search(r"Iterator>?::any$", short(x[1])) for x in walk(le)):
                    via_comb.add(blk)
    ini = ini + sorted(via_comb)
    rule.check(bool(ini) and by_flag and all(x in ini for x in may_true), "…and only if some active request to that address is initiating a session", "awaiting|initiating",
               "is_awaiting_session_to_be_established does not depend on an in-flight session-initiating request", loc=aw.loc(aw.line))
    return rule


def r3(ctx):
    facts = ctx.facts
    rule = Rule("C04.R3", "retry bound: resend is guarded by !(retries() >= request_retries), increments before the "
                "re-insert, resends the stored packet; otherwise fail_request(Timeout); Timeout constructed only here",
                floor=5, engine="A-dom + A-aff + A-who")
    b = body_of(facts, H + "handle_request_timeout")
    rule.analysed(b)
    prov = Prov(b, facts)
    g = Guards(b, prov, facts)

    def atom(e):
        if e[0] == "call" and e[1].endswith("RequestCall::retries"):
            return "retries"
        if e in (("field", ("upvar", "self"), "request_retries"),):
            return "limit"
        return None
    more, done = [], []
    for bi, t, e in g.switches():
        nc = normalised_cmp(e, atom)
        if nc is None:
            continue
        d, k, op = nc
        if set(d) != {"retries", "limit"} or d["retries"] != -d["limit"] or abs(d["retries"]) != 1:
            continue
        s = d["retries"]
        f, tr = g.bool_edges(bi)
        # x = retries - limit ; a resend is allowed only where x <= -1, the request is failed where x >= 0
        ivs = cmp_intervals(s, k, op)
        if ivs is None:
            continue
        for (lo, hi), edge, other in ((ivs[0], tr, f), (ivs[1], f, tr)):
            if hi is not None and hi <= -1:
                more.append((bi, edge))
            if lo is not None and lo >= 0:
                done.append((bi, edge))
    inserts = [bi for bi, t in b.calls() if (t.callee() or "").endswith("ActiveRequests::insert")]
    sends = [(bi, t) for bi, t in b.calls() if (t.callee() or "") == H + "send"]
    incs = [bi for bi, t in b.calls() if (t.callee() or "").endswith("RequestCall::increment_retries")]
    fails = [(bi, t) for bi, t in b.calls() if (t.callee() or "") == H + "fail_request"]
    if inserts and sends and fails and not done:
        # the give-up branch is not entered by an ordering test `retries >= limit`: an equality (or nothing) leaves values of the counter
        # for which the request is re-sent for ever (e.g. request_retries = 0 while the counter starts at 1)
        rule.fail("timeout|bound-not-ordering", "handle_request_timeout does not give up on an ordering test `retries() >= request_retries`: for a counter value "
                  "beyond the limit (request_retries = 0, the counter starts at 1) the request is re-sent on every timeout and never failed", loc=b.loc(b.line))
        return rule
    if not (done and inserts and sends and fails):
        raise AnchorError("handle_request_timeout: retry guard / insert / send / fail_request not all found")
    r = b.reachable(0, removed_edges=more)
    rule.check(not any(i in r for i in inserts) and not any(s_ in r for s_, _ in sends),
               "resend and re-insert only when retries < request_retries", "timeout|unbounded-retry",
               "handle_request_timeout resends or re-inserts a request without the retries() >= request_retries bound",
               loc=b.loc(b.line))
    rule.check(must_pass(b, inserts, via_blocks=incs), "increment_retries precedes the re-insert", "timeout|no-increment",
               "handle_request_timeout re-inserts the request without incrementing its retry counter (it is retried forever)", loc=b.loc(b.line))
    for bi, t in sends:
        e = prov.operand(t.args[2])
        rs = roots(e)
        ok = all(x[0] == "call" and x[1].endswith("RequestCall::packet") for x in rs) and bool(rs)
        rule.check(ok, "the resent packet is the stored one (request_call.packet().clone())", "timeout|resend-packet",
                   "handle_request_timeout resends %s instead of the stored packet" % fmt_short(e), loc=b.loc(t.line))
    r = b.reachable(0, removed_edges=done)
    for bi, t in fails:
        e = prov.operand(t.args[2])
        is_timeout = all(x[0] == "agg" and x[1] == "crate::error::RequestError::Timeout" for x in roots(e))
        rule.check(bi not in r and is_timeout, "exhausted retries lead to fail_request(.., Timeout, ..)", "timeout|fail",
                   "handle_request_timeout fails the request without the retry bound having been reached or with another error", loc=b.loc(t.line))
    # who constructs Timeout
    where = set()
    for p, bb in sorted(facts.bodies.items()):
        for blk in bb.blocks:
            for s in blk.stmts:
                if s.k == "a" and s.rv.k == "agg" and s.rv.j.get("def") == "crate::error::RequestError" and s.rv.j.get("variant") == "Timeout":
                    if not p.startswith("<crate::error::RequestError as"):
                        where.add(strip_closure(p))
    rule.check(where == {H + "handle_request_timeout"}, "RequestError::Timeout is constructed only in handle_request_timeout",
               "timeout|who", "RequestError::Timeout is constructed in %s" % sorted(where))
    return rule


def r4(ctx):
    facts = ctx.facts
    rule = Rule("C04.R4", "multi-packet NODES bookkeeping: re-insertions are guarded by total > 1; the final path "
                "neither re-inserts nor shares a path with them", floor=3, engine="A-dom")
    b = body_of(facts, H + "handle_response")
    rule.analysed(b)
    prov = Prov(b, facts)
    g = Guards(b, prov, facts)
    multi = []
    for bi, t, e in g.switches():
        c = comparison(e)
        if not c:
            continue
        op, l, r_ = c
        ls, rs = fmt_short(l), fmt_short(r_)
        if ls.endswith(".total") and const_int_of(r_) == 1 and op == ">":
            multi.append((bi, g.bool_edges(bi)[1]))
        elif rs.endswith(".total") and const_int_of(l) == 1 and op == "<":
            multi.append((bi, g.bool_edges(bi)[1]))
        elif ls.endswith(".total") and const_int_of(r_) == 2 and op == ">=":
            multi.append((bi, g.bool_edges(bi)[1]))
    inserts = [bi for bi, t in b.calls() if (t.callee() or "").endswith("ActiveRequests::insert")]
    rel = [bi for bi, t in b.calls() if (t.callee() or "") == H + "remove_expected_response"]
    if not inserts or not rel:
        raise AnchorError("handle_response: re-insert or release not found")
    r = b.reachable(0, removed_edges=multi)
    rule.check(bool(multi) and not any(i in r for i in inserts), "re-insertions only for total > 1", "response|reinsert-guard",
               "handle_response re-inserts a request for a response that is not a multi-packet NODES response", loc=b.loc(b.line))
    # the count of packets still expected lives in the request that is re-inserted: every re-insert follows a write through
    # remaining_responses_mut() of that request (`= Some(total - 1)` for the first packet, `-= 1` afterwards)
    cw = []
    for blk in b.blocks:
        if blk.cleanup or blk.idx not in b.live_blocks():
            continue
        for st_ in blk.stmts:
            if st_.k == "a" and st_.lhs.proj and st_.lhs.proj[0] == "*" and \
                    any(x[0] == "call" and short(x[1]).endswith("RequestCall::remaining_responses_mut") for x in walk(prov.local(st_.lhs.local))):
                v = prov.rvalue(st_.rv, blk.idx)
                lin = linear(v, lambda e: "cur" if (e[0] == "field" and e[1][0] != "bin" and any(x[0] == "call" and short(x[1]).endswith("RequestCall::remaining_responses_mut") for x in walk(e))) else None)
                first = [x for x in roots(v) if x[0] == "agg" and x[1].endswith("Option::Some")]
                if lin == ({"cur": 1}, -1):
                    cw.append((blk.idx, "dec"))
                elif first and len(first) == len(roots(v)):
                    inner = linear(dict(first[0][2])["0"], lambda e: "total" if fmt_short(e).endswith(".total") or fmt_short(e) == "total" else None)
                    if inner == ({"total": 1}, -1):
                        cw.append((blk.idx, "init"))
    rule.check(bool(cw) and {k for _, k in cw} == {"dec", "init"} and must_pass(b, inserts, via_blocks=[x for x, _ in cw]),
               "every re-insert follows a stored update of the packets still expected (= Some(total - 1) first, -= 1 afterwards)", "response|count-not-stored",
               "handle_response re-inserts a multi-packet NODES request without having written the updated count of remaining packets into it (found: %s): the request never "
               "completes in the handler, is reported as timed out after its responses were delivered, and is re-sent" % sorted({k for _, k in cw}), loc=b.loc(b.line))
    for i in inserts:
        r = b.reachable(i)
        rule.check(not any(x in r for x in rel), "a re-inserted request does not also release its exemption", "response|reinsert-and-release",
                   "handle_response re-inserts a request and then releases its exemption", loc=b.loc(b.blocks[i].term.line))
    for x in rel:
        r = b.reachable(x)
        rule.check(not any(i in r for i in inserts), "the final path does not re-insert", "response|release-and-reinsert",
                   "handle_response releases the exemption and then re-inserts the request", loc=b.loc(b.blocks[x].term.line))
    return rule


def _excludes_nonce(facts, cb, depth):
    """does the closure body `cb` return `<request's packet nonce> != <something not derived from the request>` (or `true` when there is
    no nonce to compare with)? Spellings: if-let / match with a `true` arm, Option::map_or(true, |n| ..), Option::is_none_or(|n| ..)"""
    cpv = Prov(cb, facts)
    ret = canon(cpv.local(0))
    alts = list(ret[1]) if ret[0] == "phi" else [ret]
    seen_ne = False
    is_pkt_nonce = lambda s_: bool(re.search(r"Packet::message_nonce\(.*RequestCall::packet\(", s_) or re.search(r"packet\(.*\)\.header\.message_nonce", s_))
    for a in alts:
        if const_int_of(a) == 1:
            continue
        c = comparison(a)
        if c and c[0] == "!=":
            sides = [fmt_short(c[1]), fmt_short(c[2])]
            if sum(1 for s_ in sides if is_pkt_nonce(s_)) == 1 and not any("RequestCall" in s_ for s_ in sides if not is_pkt_nonce(s_)):
                seen_ne = True
                continue
        if a[0] == "call" and depth < 2 and re.search(r"Option::(map_or|is_none_or)$", short(a[1])):
            inner = [y for x in a[2] for y in walk(x) if y[0] == "agg" and isinstance(y[1], str) and y[1].startswith("closure:")]
            dflt_ok = short(a[1]).endswith("is_none_or") or (len(a[2]) == 3 and const_int_of(a[2][1]) == 1)
            ib = facts.bodies.get(inner[0][1][len("closure:"):]) if len(inner) == 1 else None
            if ib is not None and dflt_ok and _excludes_nonce(facts, ib, depth + 1)[0]:
                seen_ne = True
                continue
        return False, "filter closure returns %s" % fmt_short(ret)[:200]
    return seen_ne, "filter closure returns %s" % fmt_short(ret)[:200]


def r5(ctx):
    """'at most 1+retries times per session key': the request that travelled inside the handshake packet is not sent again when the other
    requests in flight are replayed under the new keys"""
    facts = ctx.facts
    rule = Rule("C04.R5", "replay under new keys skips the request that carried the handshake: new_session gets the nonce of the handshake packet "
                "the request was re-inserted with, and replay_active_requests filters on it", floor=2, engine="A-prov")
    b = body_of(facts, H + "handle_challenge")
    rule.analysed(b)
    prov = Prov(b, facts)
    F = lambda e: fmt(canon(e), -60)
    pkts = set()
    for bi, t in b.calls():
        if (t.callee() or "").endswith("RequestCall::update_packet"):
            pkts.add(F(prov.operand(t.args[1])))
    ns = [(bi, t) for bi, t in b.calls() if (t.callee() or "") == H + "new_session"]
    if not pkts or not ns:
        raise AnchorError("handle_challenge: update_packet / new_session not found")
    for bi, t in ns:
        e = prov.operand(t.args[3])
        somes = [x for x in roots(e) if x[0] == "agg" and x[1].endswith("Option::Some")]
        ok = bool(somes) and len(somes) == len(roots(e))
        shown = fmt_short(e)
        for x in somes:
            n = canon(dict(x[2])["0"])
            # the nonce is `<packet>.header.message_nonce` or `*<packet>.message_nonce()` of the packet handed to update_packet
            base = None
            if n[0] == "field" and n[2] == "message_nonce" and n[1][0] == "field" and n[1][2] == "header":
                base = n[1][1]
            elif n[0] == "call" and short(n[1]).endswith("Packet::message_nonce") and n[2]:
                base = n[2][0]
            ok = ok and base is not None and F(base) in pkts
            shown = fmt_short(n)
        rule.check(ok, "handle_challenge -> new_session(.., Some(nonce of the handshake packet given to update_packet))", "handle_challenge|replay-skip-nonce",
                   "handle_challenge tells new_session to skip the request with nonce %s, which is not the nonce of the handshake packet the request was re-inserted with: "
                   "the request that carried the handshake is sent a second time under the new keys" % shown[:160], loc=b.loc(t.line))
    rb = body_of(facts, H + "replay_active_requests")
    rule.analysed(rb)
    rp = Prov(rb, facts)
    names = async_param_names(facts, H + "replay_active_requests")
    enc = [(bi, t) for bi, t in rb.calls() if (t.callee() or "").endswith("Session::encrypt_message")]
    if not enc:
        raise AnchorError("replay_active_requests: encrypt_message not found")
    for bi, t in enc:
        e = rp.operand(t.args[2])
        filt = [x for x in walk(e) if x[0] == "call" and short(x[1]).endswith("Iterator::filter")]
        ok = False
        detail = "no filter on the replayed requests"
        for x in filt:
            for y in walk(x[2][1]):
                if y[0] == "agg" and isinstance(y[1], str) and y[1].startswith("closure:"):
                    cb = facts.bodies.get(y[1][len("closure:"):])
                    if cb is None:
                        continue
                    rule.analysed(cb)
                    ok, detail = _excludes_nonce(facts, cb, 0)
        if not filt:
            # the exclusion as a test inside the loop (`if message_nonce.as_ref() == Some(req.packet().message_nonce()) { continue }`):
            # from the iterator's `next`, encrypt_message is reached only over an edge on which the two nonces differ
            rg = Guards(rb, rp)
            differ = []
            is_pkt_nonce = lambda s_: bool(re.search(r"Packet::message_nonce\(.*RequestCall::packet\(", s_) or re.search(r"packet\(.*\)\.header\.message_nonce", s_))
            for sbi, st, se in rg.switches():
                c = comparison(se)
                if not c or c[0] not in ("==", "!="):
                    continue
                sides = [fmt(canon(c[1]), -40), fmt(canon(c[2]), -40)]
                if sum(1 for s_ in sides if is_pkt_nonce(s_)) != 1:
                    continue
                other = [s_ for s_ in sides if not is_pkt_nonce(s_)][0]
                if "RequestCall" in other or "message_nonce" not in other:
                    continue
                f_e, t_e = rg.bool_edges(sbi)
                differ.append((sbi, f_e if c[0] == "==" else t_e))
            nexts = [nbi for nbi, nt in rb.calls() if callee_matches(nt, r"Iterator>::next$", r"Iterator::next$") and bi in rb.reachable(nbi)]
            if differ and nexts:
                ok = all(bi not in rb.reachable(nbi, removed_edges=differ) for nbi in nexts)
                detail = "the request with the given nonce still reaches encrypt_message" if not ok else ""
        rule.check(ok, "replay_active_requests re-encrypts only requests whose packet nonce differs from the given one", "replay|filter",
                   "replay_active_requests does not exclude the request with the given nonce (%s): the request that carried the handshake is replayed" % detail, loc=rb.loc(t.line))
    return rule


def r6(ctx):
    """'never neither', seen from the caller of the request: the Service removes its own record of the request (and with it the caller's
    callback) when the handler reports the one event it will ever report for it; it keeps the request only while further NODES packets are due.
    These are the re-insertion obligations of C11.R4, re-evaluated here."""
    import c11
    rule = Rule("C04.R6", "the Service keeps a request (and its caller waiting) only while more NODES packets of the answer are due", floor=3,
                engine="A-dom + A-aff (obligations shared with C11.R4)")
    sub = c11.r4(ctx)
    sub.finish()
    rule.functions |= sub.functions
    keep = ("multi|count-total", "multi|count-max", "multi|reinsert-and-complete")
    for o in sub.obligations:
        if o["verdict"] == "discharged" and re.search(r"waiting for more packets|re-inserted request is not also completed", o["site"]):
            rule.ok("[%s] %s" % (o["rule"], o["site"]), o.get("detail", ""))
    for v in sub.violations:
        if v.key in keep or v.key in ("anchor", "floor"):
            rule.fail("%s|%s" % (v.rule, v.key), "the Service keeps a request in its active_requests although no further packet of its answer is due (the handler has already "
                      "retired it and will report nothing else): the caller of the request gets no outcome at all. " + v.msg, loc=v.loc, site="[%s] %s" % (v.rule, v.key), path=v.path)
    return rule


def run(ctx):
    G = lambda l, f, *a: guarded("C04." + l, f, ctx, *a)
    return G("R1", r1) + G("R2", r2) + G("R3", r3) + G("R4", r4) + G("R5", r5) + G("R6", r6)
