"""C03 — Handshakes answer only fresh, outstanding challenges."""
import re

from analysis import (Prov, Guards, fmt, fmt_short, walk, roots, short, comparison, find_calls, callee_matches,
                      must_pass, path_to, describe_path, peel_await, edge_label, field_writes, option_edges, membership_test)
from facts import AnchorError, strip_closure
from harness import Rule, guarded
import c13
from c01 import body_of, derives, bool_pass_edges, H, S
from c04 import option_some_edge

PID = "C03"
EXPLANATION = (
    "Dominance / path rules over the MIR of the handler. R1: in handle_auth_message establish_from_challenge, "
    "new_session and handle_message are reached only past the Some edge of active_challenges.remove(node_address) "
    "(a removal, so acceptance consumes the challenge), the challenge passed on is the removed one, and a "
    "re-insertion happens only on the InvalidChallengeSignature edge with the value carried by that error. R2: the "
    "challenge map is a HashMapDelay built with config.request_timeout and is polled by Handler::start, so "
    "challenges expire. R3: in handle_challenge the handshake is generated only past Some(remove_by_nonce(nonce of "
    "the WHOAREYOU)) and past equality of the request's address with the packet's source. R4: only past "
    "!handshake_sent(), set_handshake_sent precedes every re-insertion after a successful handshake generation, and "
    "the handshake_sent edge leads to fail_request. R5: the id-nonce of a WHOAREYOU comes from rand::random only and "
    "the stored challenge data is the authenticated data of that very packet.")
EXPLANATION += (' Added while testing: R1 also requires the challenge to be taken out of the table before establish_from_challenge on every path; R5 also requires send_challenge to build, send and store a WHOAREYOU only when none is outstanding for the node.')
NOT_DECIDED = ["timing: that the delay map fires after exactly request_timeout", "re-insertion on a bad signature restarts the challenge timer (noted, not a clause of C03)"]
TRUSTED = ["delay_map::HashMapDelay::remove removes the entry and its timer; expired entries are yielded by the stream"]


def r1(ctx):
    facts = ctx.facts
    rule = Rule("C03.R1", "a handshake needs and consumes an outstanding challenge for exactly (src id, src address)", floor=4,
                engine="A-dom + A-prov")
    b = body_of(facts, H + "handle_auth_message")
    rule.analysed(b)
    prov = Prov(b, facts)
    g = Guards(b, prov, facts)
    rem = [(bi, t) for bi, t in b.calls() if c13.classify(t) and c13.classify(t)[2] == "active_challenges.remove"]
    est0 = [(bi, t) for bi, t in b.calls() if (t.callee() or "") == S + "establish_from_challenge"]
    if est0:
        # the challenge handed to establish_from_challenge must come out of a *removal* that every path to the call has passed:
        # a peek (`get`, `get(..).cloned()`) leaves it outstanding, and the same handshake can be replayed while it is
        bad = [bi for bi, _ in est0 if not must_pass(b, [bi], via_blocks=[x for x, _ in rem])]
        ch_src = [fmt_short(prov.operand(t.args[3])) for _, t in est0]
        if bad or not rem:
            rule.fail("auth|challenge-not-consumed", "handle_auth_message verifies a handshake against a challenge it has not taken out of active_challenges (%s): "
                      "acceptance does not consume the challenge, a replay of the same handshake is accepted again while it is outstanding" % ch_src[:1], loc=b.loc(est0[0][1].line))
            return rule
    if len(rem) != 1:
        raise AnchorError("handle_auth_message: expected exactly one active_challenges.remove, found %d" % len(rem))
    rbi, rt = rem[0]
    rkey = (b.path, rbi)
    se = option_some_edge(b, rbi)
    if se is None:
        raise AnchorError("handle_auth_message: the challenge removal is not matched on Some")
    sw, some_t = se
    key_e = prov.operand(rt.args[1])
    rule.check(roots(key_e) == {("upvar", "node_address")}, "challenge looked up by the packet's NodeAddress (id + address)",
               "auth|challenge-key", "the challenge is looked up by %s, not by the handshake's (src id, src address)" % fmt_short(key_e), loc=b.loc(rt.line))
    # a `get`/`contains` would not consume: the lookup must be the removal itself (by construction of `rem`), and
    # no other lookup of the challenge map gates the handshake
    est = [(bi, t) for bi, t in b.calls() if (t.callee() or "") == S + "establish_from_challenge"]
    ns = [(bi, t) for bi, t in b.calls() if (t.callee() or "") == H + "new_session"]
    hm = [(bi, t) for bi, t in b.calls() if (t.callee() or "") == H + "handle_message"]
    if not est or not ns:
        raise AnchorError("handle_auth_message: establish_from_challenge / new_session not found")
    r = b.reachable(0, removed_edges=[(sw, some_t)])
    rule.check(not any(bi in r for bi, _ in est + ns + hm), "handshake processing only past Some(active_challenges.remove(..))",
               "auth|without-challenge", "handle_auth_message processes a handshake without an outstanding challenge", loc=b.loc(rt.line))
    for bi, t in est:
        ch = prov.operand(t.args[3])
        okk = all(x[0] == "field" and x[2] == "0" and x[1][0] == "as" and x[1][1][0] == "call" and x[1][1][3] == rkey for x in roots(ch)) and roots(ch)
        rule.check(okk, "the challenge verified is the one just removed", "auth|which-challenge",
                   "establish_from_challenge verifies against %s, not the removed challenge" % fmt_short(ch), loc=b.loc(t.line))
    # re-insertion only on the InvalidChallengeSignature edge, with the carried value
    ins = [(bi, t) for bi, t in b.calls() if c13.classify(t) and c13.classify(t)[2] == "active_challenges.insert"]
    ekey = (b.path, est[0][0])
    sig_edges = []
    ok_edges = []
    for bi, t, e in g.switches():
        if e[0] == "discr" and derives(e[1], lambda x: x[0] == "call" and x[3] == ekey):
            names, pl = g.variant_names(bi)
            for v, tb in t.vals:
                if names.get(v) == "InvalidChallengeSignature":
                    sig_edges.append((bi, tb))
                if names.get(v) == "Ok":
                    ok_edges.append((bi, tb))
    for bi, t in ins:
        r = b.reachable(some_t, removed_edges=sig_edges)
        val = prov.operand(t.args[2])
        carried = all(derives(x, lambda y: y[0] == "as" and y[2] == "InvalidChallengeSignature") for x in roots(val)) and roots(val)
        rule.check(bool(sig_edges) and bi not in r and carried, "challenge re-inserted only after an invalid signature, with the value the error carries",
                   "auth|reinsert", "handle_auth_message re-inserts a challenge (%s) outside the invalid-signature path" % fmt_short(val), loc=b.loc(t.line))
    # on the Ok path the challenge is not re-inserted before the session is created
    for bi, t in ns:
        for ibi, it in ins:
            r = b.reachable(t.target) if t.target is not None else set()
            # no insert reachable from Ok edge at all
        okr = set()
        for e_ in ok_edges:
            okr |= b.reachable(e_[1])
        rule.check(bool(ok_edges) and not any(ibi in okr for ibi, _ in ins), "an accepted handshake never re-arms its challenge",
                   "auth|rearm", "after a successful handshake the challenge can be inserted again (replay would be accepted)", loc=b.loc(t.line))
    # send_request refuses to start while a challenge is outstanding (uses get, fine) - not part of this rule
    return rule


def r2(ctx):
    facts = ctx.facts
    rule = Rule("C03.R2", "challenges expire: HashMapDelay::new(config.request_timeout), polled by Handler::start", floor=2,
                engine="A-prov + A-who")
    found = 0
    for b in facts.find(r"crate::handler::Handler::spawn(::\{closure#\d+\})*"):
        prov = Prov(b, facts)
        for blk in b.blocks:
            for s in blk.stmts:
                if s.k == "a" and s.rv.k == "agg" and s.rv.j.get("def") == "crate::handler::Handler":
                    found += 1
                    rule.analysed(b)
                    f = dict(zip(s.rv.j["fields"], s.rv.ops))
                    e = prov.operand(f["active_challenges"])
                    rs = roots(e)
                    okk = len(rs) == 1 and all(x[0] == "call" and short(x[1]).endswith("HashMapDelay::new") and
                                               all(y[0] == "field" and y[2] == "request_timeout" for y in roots(x[2][0])) for x in rs)
                    rule.check(okk, "active_challenges = HashMapDelay::new(config.request_timeout)", "spawn|challenge-map",
                               "active_challenges is built as %s" % fmt_short(e), loc=b.loc(s.line))
    if not found:
        raise AnchorError("construction of Handler not found")
    st = body_of(facts, H + "start")
    rule.analysed(st)
    prov = Prov(st, facts)
    polls = [(bi, t) for bi, t in st.calls() if callee_matches(t, r"HashMapDelay<crate::node_info::NodeAddress, crate::handler::Challenge> as futures::StreamExt>::next$")]
    heads = c13.loop_heads(st)
    okk = False
    for bi, t in polls:
        # inside the main loop: the loop head is reachable from the poll
        r = st.reachable(bi)
        if any(h in r for h in heads) and fmt_short(prov.operand(t.args[0])) == "self.active_challenges":
            okk = True
    rule.check(okk, "Handler::start polls active_challenges in its main loop", "start|poll-challenges",
               "Handler::start no longer polls the challenge map: challenges never expire", loc=st.loc(st.line))
    return rule


def r3_r4(ctx):
    facts = ctx.facts
    r3 = Rule("C03.R3", "a WHOAREYOU is acted on only for a request in flight with that nonce to that address", floor=3, engine="A-dom + A-prov")
    r4 = Rule("C03.R4", "at most one handshake per request: guarded by !handshake_sent(), flag set before re-insertion, second WHOAREYOU fails the request",
              floor=3, engine="A-dom")
    b = body_of(facts, H + "handle_challenge")
    r3.analysed(b)
    r4.analysed(b)
    prov = Prov(b, facts)
    g = Guards(b, prov, facts)
    rem = [(bi, t) for bi, t in b.calls() if (t.callee() or "").endswith("ActiveRequests::remove_by_nonce")]
    if len(rem) != 1:
        raise AnchorError("handle_challenge: expected one remove_by_nonce")
    rbi, rt = rem[0]
    rkey = (b.path, rbi)
    se = option_some_edge(b, rbi)
    if se is None:
        raise AnchorError("handle_challenge: remove_by_nonce result not matched")
    sw, some_t = se
    enc = [(bi, t) for bi, t in b.calls() if (t.callee() or "") == S + "encrypt_with_header"]
    ns = [(bi, t) for bi, t in b.calls() if (t.callee() or "") == H + "new_session"]
    if not enc or not ns:
        raise AnchorError("handle_challenge: encrypt_with_header / new_session not found")
    ne = prov.operand(rt.args[1])
    r3.check(roots(ne) == {("upvar", "request_nonce")}, "request looked up by the nonce the WHOAREYOU echoes", "challenge|nonce-key",
             "handle_challenge looks the request up by %s" % fmt_short(ne), loc=b.loc(rt.line))
    r = b.reachable(0, removed_edges=[(sw, some_t)])
    r3.check(not any(bi in r for bi, _ in enc + ns), "handshake only past Some(remove_by_nonce(..))", "challenge|without-request",
             "handle_challenge answers a WHOAREYOU that matches no request in flight", loc=b.loc(rt.line))
    # address equality
    eq_edges = []
    for bi, t, e in g.switches():
        c = comparison(e)
        if c and c[0] in ("==", "!="):
            a, b_ = fmt_short(c[1]), fmt_short(c[2])
            sides = {a, b_}
            if "src_address" in sides and any(x.endswith(".socket_addr") and "remove_by_nonce" in x for x in sides):
                f, tr = g.bool_edges(bi)
                eq_edges.append((bi, tr if c[0] == "==" else f))
    r = b.reachable(0, removed_edges=eq_edges)
    r3.check(bool(eq_edges) and not any(bi in r for bi, _ in enc + ns), "handshake only if the request's address equals the packet's source",
             "challenge|address", "handle_challenge answers a WHOAREYOU from an address other than the one the request was sent to", loc=b.loc(rt.line))
    # the nonce handed in by process_inbound_packet is the packet's message nonce, the address its source
    pip = body_of(facts, H + "process_inbound_packet")
    pp = Prov(pip, facts)
    for bi, t in pip.calls():
        if (t.callee() or "") == H + "handle_challenge":
            r3.analysed(pip)
            a1, a2 = fmt_short(pp.operand(t.args[1])), fmt_short(pp.operand(t.args[2]))
            r3.check(a1 == "inbound_packet.src_address" and a2 == "inbound_packet.header.message_nonce",
                     "handle_challenge(src_address, message_nonce of the WHOAREYOU packet)", "inbound|challenge-args",
                     "process_inbound_packet calls handle_challenge(%s, %s)" % (a1, a2), loc=pip.loc(t.line))
    # ---- R4
    def is_hs(e):
        return e[0] == "call" and e[1].endswith("RequestCall::handshake_sent") and derives(e, lambda x: x[0] == "call" and x[3] == rkey)
    not_sent = bool_pass_edges(g, is_hs, want_true=False)
    sent = bool_pass_edges(g, is_hs, want_true=True)
    r = b.reachable(0, removed_edges=not_sent)
    r4.check(bool(not_sent) and not any(bi in r for bi, _ in enc + ns), "handshake generated only past !handshake_sent()", "challenge|second-handshake",
             "handle_challenge can answer a second WHOAREYOU for the same request with another handshake", loc=b.loc(enc[0][1].line))
    fails = [bi for bi, t in b.calls() if (t.callee() or "") == H + "fail_request"]
    for sb, st_ in sent:
        rr = b.reachable(st_, removed_blocks=fails)
        r4.check(bool(fails) and not any(x in rr for x in b.return_blocks()), "handshake_sent() edge leads to fail_request", "challenge|second-not-failed",
                 "a second WHOAREYOU does not fail the request", loc=b.loc(b.blocks[sb].term.line))
    # after a successful encrypt_with_header every re-insertion is preceded by set_handshake_sent
    ekey = (b.path, enc[0][0])
    ok_t = []
    for bi, t, e in g.switches():
        if e[0] == "discr" and e[1][0] == "call" and e[1][3] == ekey:
            names, _ = g.variant_names(bi)
            ok_t += [tb for v, tb in t.vals if names.get(v) == "Ok"]
    reins = [bi for bi, t in b.calls() if (t.callee() or "") in (H + "insert_active_request", "crate::handler::active_requests::ActiveRequests::insert")]
    sets = [bi for bi, t in b.calls() if (t.callee() or "").endswith("RequestCall::set_handshake_sent")]
    okk = bool(ok_t) and bool(sets)
    for o in ok_t:
        rr = b.reachable(o, removed_blocks=sets)
        if any(x in rr for x in reins):
            okk = False
    r4.check(okk, "set_handshake_sent precedes the re-insertion of the request", "challenge|flag-not-set",
             "handle_challenge re-inserts the request after sending a handshake without marking it (a second WHOAREYOU would be answered again)",
             loc=b.loc(enc[0][1].line))
    # the flag is monotone: written false only where a RequestCall is constructed, and true only by set_handshake_sent
    fw = field_writes(facts, r"handler::request_call::RequestCall$", "handshake_sent")
    n_true = n_false = 0
    for wb, bi, line, kind, e in fw:
        v = fmt(e)
        fn = strip_closure(wb.path).split("::")[-1]
        if kind == "construct" and v in ("const(false)", "const(0)"):
            n_false += 1
            r4.ok("RequestCall constructed in %s with handshake_sent = false" % fn)
        elif kind == "assign" and v in ("const(true)", "const(1)"):
            n_true += 1
            r4.ok("handshake_sent := true in %s" % fn)
        else:
            r4.fail("flag|reset|%s" % fn, "RequestCall::%s writes handshake_sent := %s: the flag can be cleared (or set from data) after a handshake was sent, so a second WHOAREYOU "
                    "for the same request would be answered with another handshake instead of failing it" % (fn, fmt_short(e)), loc=wb.loc(line))
    if not n_true or not n_false:
        r4.fail("flag|writers", "writers of RequestCall.handshake_sent not found (true: %d, false: %d)" % (n_true, n_false))
    return r3, r4


def r5(ctx):
    facts = ctx.facts
    rule = Rule("C03.R5", "fresh id-nonce from the RNG; stored challenge data is the WHOAREYOU packet's authenticated data; one challenge per node", floor=4, engine="A-prov + A-dom")
    b = body_of(facts, H + "send_challenge")
    rule.analysed(b)
    prov = Prov(b, facts)
    nw = [(bi, t) for bi, t in b.calls() if (t.callee() or "") == "crate::packet::Packet::new_whoareyou"]
    if len(nw) != 1:
        raise AnchorError("send_challenge: expected one Packet::new_whoareyou")
    bi, t = nw[0]
    nkey = (b.path, bi)
    idn = roots(prov.operand(t.args[1]))
    rule.check(idn and all(x[0] == "call" and short(x[1]) == "rand::random" for x in idn), "id_nonce = rand::random()", "whoareyou|id-nonce",
               "the WHOAREYOU id-nonce derives from %s" % [fmt_short(x) for x in idn], loc=b.loc(t.line))
    rule.check(fmt_short(prov.operand(t.args[0])) == "wru_ref.1", "WHOAREYOU echoes the nonce of the packet that triggered it", "whoareyou|echo",
               "WHOAREYOU echoes %s" % fmt_short(prov.operand(t.args[0])), loc=b.loc(t.line))
    ins = [(ibi, it) for ibi, it in b.calls() if c13.classify(it) and c13.classify(it)[2] == "active_challenges.insert"]
    sends = [(sbi, st_) for sbi, st_ in b.calls() if (st_.callee() or "") == H + "send"]
    for ibi, it in ins:
        val = prov.operand(it.args[2])
        data = None
        for x in walk(val):
            if x[0] == "agg" and x[1].endswith("Challenge::Challenge"):
                data = dict(x[2])["data"]
        okk = data is not None and all(
            derives(y, lambda z: z[0] == "call" and z[1].endswith("Packet::authenticated_data") and derives(z, lambda w: w[0] == "call" and w[3] == nkey))
            for y in roots(data))
        rule.check(okk, "Challenge.data = authenticated_data() of the packet sent", "whoareyou|challenge-data",
                   "the stored challenge data is %s" % (fmt_short(data) if data else "?"), loc=b.loc(it.line))
        rule.check(fmt_short(prov.operand(it.args[1])) == "wru_ref.0", "challenge stored under the NodeAddress it was sent to", "whoareyou|key",
                   "challenge stored under %s" % fmt_short(prov.operand(it.args[1])), loc=b.loc(it.line))
    # one challenge per node at a time: while one is outstanding no second WHOAREYOU is sent and the stored one is not touched (a second
    # insert under the same key does not replace the challenge, it restarts its timer: the old WHOAREYOU would stay answerable past its expiry)
    g = Guards(b, prov, facts)
    some_e, none_e = option_edges(g, lambda e: e[0] == "call" and re.search(r"HashMapDelay(::<.*>)?::get$", short(e[1])) and "active_challenges" in fmt_short(e))
    absent = list(none_e)
    for bi2, t2, e2 in g.switches():
        m = membership_test(e2)
        if m and "active_challenges" in fmt_short(m[0]):
            f_, tr_ = g.bool_edges(bi2)
            absent.append((bi2, f_ if not m[2] else tr_))
    r_ = b.reachable(0, removed_edges=absent)
    rule.check(bool(absent) and not any(ibi in r_ for ibi, _ in ins) and not any(sbi in r_ for sbi, _ in sends) and bi not in r_,
               "send_challenge builds, sends and stores a WHOAREYOU only when no challenge is outstanding for the node", "whoareyou|outstanding",
               "send_challenge can send / store a WHOAREYOU although a challenge for that node is already outstanding: the stored challenge is not replaced, only its "
               "expiry is pushed back, so a handshake answering the first WHOAREYOU is accepted after that challenge should have expired", loc=b.loc(b.line))
    for sbi, st_ in sends:
        pk = prov.operand(st_.args[2])
        okk = all(x[0] == "call" and x[3] == nkey for x in roots(pk)) and fmt_short(prov.operand(st_.args[1])) == "wru_ref.0"
        rule.check(okk, "the packet sent is that WHOAREYOU, to that NodeAddress", "whoareyou|sent",
                   "send_challenge sends %s to %s" % (fmt_short(pk), fmt_short(prov.operand(st_.args[1]))), loc=b.loc(st_.line))
    return rule


def run(ctx):
    G = lambda l, f, *a: guarded("C03." + l, f, ctx, *a)
    return G("R1", r1) + G("R2", r2) + G("R3-R4", r3_r4) + G("R5", r5)
