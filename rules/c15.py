"""C15 — Sessions expire and the session cache is bounded."""
import re

from analysis import (Prov, Guards, fmt, walk, roots, short, comparison, linear, normalised_cmp, must_pass,
                      path_to, describe_path, find_calls, callee_matches, contains_call, _lin_add, fmt_short, const_int_of, field_writes)
from facts import AnchorError
from harness import Rule, guarded

PID = "C15"
EXPLANATION = (
    "Static rules over the type-checked MIR of LruTimeCache and its wiring in Handler. R1: every accessor that "
    "can hand out a reference to a stored value returns Some only past an age test (stored timestamp + ttl "
    "against Instant::now, sign-normalised) or by delegating to an accessor that does; R2: insert evicts from "
    "the front when len exceeds capacity, the &mut accessors move the entry to the back and refresh its "
    "timestamp, remove_expired_values pops the front only while it is older than ttl; R3: Handler.sessions is "
    "built from config.session_timeout / session_cache_capacity and is reached only through these methods. "
    "These are necessary conditions: an accessor without the age test returns a session idle for longer than "
    "the timeout (the handler reaches sessions only through get/get_mut).")
EXPLANATION += (' Added while testing: R2 also requires insert to move an existing key to the back (LinkedHashMap::insert); R3 also requires LruTimeCache::new to keep every given capacity unchanged and Config.session_timeout / session_cache_capacity to be written only by their setters and the defaults.')
NOT_DECIDED = ["wall-clock behaviour (that Instant::now advances); that the entry compared is the entry returned"]
TRUSTED = ["hashlink::LinkedHashMap: insert moves to the back, pop_front removes the oldest, to_back moves an entry"]

IMPL = r"crate::lru_time_cache::LruTimeCache::<K, V>::"


def time_atom(e):
    if e[0] == "call":
        n = short(e[1])
        if n.endswith("time::Instant::now"):
            return "now"
        if n.endswith("time::Instant::elapsed") and len(e[2]) == 1:
            inner = linear(e[2][0], time_atom)
            if inner is None:
                return None
            return _lin_add(({"now": 1}, 0), inner, -1)
    if e[0] == "field" and e[2] == "ttl" and e[1][0] == "param" and e[1][1] == 1:
        return "ttl"
    return None


def age_test(e):
    """If `e` is an age comparison return +1 when its *true* edge means "fresh", -1 when the
    false edge means fresh; None if it is not an age test."""
    nc = normalised_cmp(e, time_atom)
    if nc is None:
        return None
    d, k, op = nc
    if op in ("==", "!="):
        return None
    if "now" not in d or "ttl" not in d or k != 0:
        return None
    others = [a for a in d if a not in ("now", "ttl")]
    if len(others) != 1:
        return None
    s = d["ttl"]
    if s not in (1, -1) or d["now"] != -s or d[others[0]] != s:
        return None
    stored = others[0]
    # the stored timestamp must come out of the cache's own map
    if not any(x[0] == "field" and x[2] == "map" for x in walk(stored)):
        return None
    # expression = s * (stored + ttl - now); fresh  <=>  stored + ttl - now >= 0
    positive_true = op in (">", ">=")
    fresh_on_true = positive_true if s == 1 else not positive_true
    return 1 if fresh_on_true else -1


def fresh_edges(body, guards):
    """edges whose traversal implies the inspected entry is not older than ttl"""
    edges, tests = [], []
    for bi, t, e in guards.switches():
        pol = age_test(e)
        if pol is None:
            continue
        f, tr = guards.bool_edges(bi)
        tests.append((bi, t.line, pol))
        edges.append((bi, tr if pol == 1 else f))
    return edges, tests


def expired_edges(body, guards):
    edges = []
    for bi, t, e in guards.switches():
        pol = age_test(e)
        if pol is None:
            continue
        f, tr = guards.bool_edges(bi)
        edges.append((bi, f if pol == 1 else tr))
    return edges


def accessors(facts):
    out = []
    for b in facts.find(IMPL + r"\w+"):
        rt = b.local_ty(0)
        if re.search(r"&(mut )?V\b", rt) or re.search(r"&(mut )?\(V,", rt):
            out.append(b)
    return out


def accessor_problems(facts, b, names, verdict, stack=()):
    """problems of one accessor body (empty list = honours the age); fills b._c15"""
    if b.path in verdict:
        return verdict[b.path]
    prov = Prov(b, facts)
    g = Guards(b, prov, facts)
    fedges, tests = fresh_edges(b, g)
    expired_calls = [bi for bi, t in find_calls(b, r"LruTimeCache::remove_expired_values$")]
    problems = []
    sites = 0
    for lhs, kind, payload, blk, dline in prov.defs.get(0, ()):
        if blk not in b.live_blocks():
            continue
        if kind == "rv" and payload.k == "agg" and payload.j.get("variant") == "None":
            continue
        if kind == "rv" and payload.k == "agg" and payload.j.get("variant") == "Some":
            sites += 1
            r = b.reachable(0, removed_edges=fedges, removed_blocks=expired_calls)
            if blk in r:
                p = path_to(b, [blk], removed_edges=fedges, removed_blocks=expired_calls)
                problems.append(("returns Some at %s without passing an age test against ttl" % b.loc(dline),
                                 describe_path(b, p or [])))
            continue
        if kind == "call" and callee_matches(payload, r"option::Option<.*> as std::ops::FromResidual.*>::from_residual$",
                                             r"<std::option::Option as std::ops::FromResidual>::from_residual$"):
            # `?` on an Option: this exit returns None
            continue
        if kind == "call":
            # delegation: the value comes from another accessor of the same type
            e = prov.call(payload, blk)
            rs = roots(e, extra_transparent=lambda c: [0] if re.search(
                r"option::Option::(map|and_then|filter)$", short(c[1])) else None)
            ok = True
            for r_ in rs:
                if r_[0] == "call" and r_[1] in names and r_[1] != b.path and r_[1] not in stack:
                    sites += 1
                    sub = accessor_problems(facts, names[r_[1]], names, verdict, stack + (b.path,))
                    if sub:
                        problems.append(("delegates to %s, which does not honour the age" % short(r_[1]), []))
                elif r_[0] == "agg" and r_[1].endswith("Option::None"):
                    pass
                else:
                    ok = False
            if not ok:
                sites += 1
                problems.append(("return value derives from %s, not from an age-checked entry" % fmt(e)[:160], []))
            continue
        if kind == "rv" and payload.k == "use" and payload.ops[0].place is not None:
            e = prov.operand(payload.ops[0])
            somes = [x for x in walk(e) if x[0] == "agg" and x[1].endswith("Option::Some")]
            if somes:
                sites += 1
                r = b.reachable(0, removed_edges=fedges, removed_blocks=expired_calls)
                if blk in r:
                    problems.append(("returns a Some built elsewhere without passing an age test", []))
            continue
        sites += 1
        problems.append(("unrecognised definition of the return value in bb%d" % blk, []))
    verdict[b.path] = problems
    b._c15 = (sites, tests)
    return problems


def r1(ctx):
    facts = ctx.facts
    rule = Rule("C15.R1", "every accessor returning a reference to a stored value honours the age (ttl)", floor=3,
                engine="A-dom + A-aff")
    accs = accessors(facts)
    names = {b.path: b for b in accs}
    verdict = {}
    for b in accs:
        rule.analysed(b)
        problems = accessor_problems(facts, b, names, verdict)
        sites, tests = b._c15
        name = b.path.split("::")[-1]
        if problems:
            for msg, pth in problems:
                rule.fail("%s|%s" % (name, re.sub(r" at src/\S+", "", msg)), "LruTimeCache::%s %s" % (name, msg),
                          loc=b.loc(b.line), site="accessor %s" % name, path=pth)
        else:
            rule.ok("accessor %s" % name, "%d Some-site(s)/delegations guarded; age tests at lines %s" % (
                sites, [t[1] for t in tests]))
    return rule


def selftest(ctx):
    """the rule must fire on the bad fixtures and stay silent on the good ones"""
    fx = ctx.fixtures
    out = []
    for b in fx.find(r"crate::lru::Cache::\w+"):
        name = b.path.split("::")[-1]
        problems = accessor_problems(fx, b, {}, {})
        out.append(("C15.R1", name, name.startswith("bad_"), bool(problems)))
    return out


def cap_atom(e):
    if e[0] == "field" and e[2] == "capacity" and e[1][0] == "param" and e[1][1] == 1:
        return "cap"
    if e[0] == "call" and short(e[1]).endswith("LinkedHashMap::len") and any(
            x[0] == "field" and x[2] == "map" for x in walk(e)):
        return "len"
    return None


def r2(ctx):
    facts = ctx.facts
    rule = Rule("C15.R2", "capacity eviction, LRU refresh on access, expiry sweep pops only aged front entries",
                floor=4, engine="A-dom + A-aff")
    # (a) insert
    ins = facts.one(IMPL + "insert")
    rule.analysed(ins)
    prov = Prov(ins, facts)
    g = Guards(ins, prov, facts)
    inserts = find_calls(ins, r"LinkedHashMap::<.*>::insert$|LinkedHashMap::insert$")
    pops = [bi for bi, t in find_calls(ins, r"LinkedHashMap::<.*>::pop_front$|LinkedHashMap::pop_front$")]
    within = []   # edges that imply len <= cap
    for bi, t, e in g.switches():
        nc = normalised_cmp(e, cap_atom)
        if nc is None:
            continue
        d, k, op = nc
        if set(d) != {"len", "cap"} or d["len"] != -d["cap"] or abs(d["len"]) != 1 or op in ("==", "!="):
            continue
        s = d["len"]           # expr = s*(len - cap) + k   op 0
        f, tr = g.bool_edges(bi)
        # decide for which edge  len - cap <= 0  is implied
        # true edge: s*(len-cap)+k op 0 ; false edge: negation
        def implies_within(op_, s_, k_):
            # does  s*(x) + k  op 0  imply x <= 0 ?  (x integer)
            if s_ == 1:     # x + k op 0
                if op_ == "<":      # x < -k  => x <= -k-1
                    return -k_ - 1 <= 0
                if op_ == "<=":
                    return -k_ <= 0
                return False
            else:           # -x + k op 0  => x  (flipped) k
                if op_ == ">":      # -x + k > 0 => x < k => x <= k-1
                    return k_ - 1 <= 0
                if op_ == ">=":
                    return k_ <= 0
                return False
        neg = {"<": ">=", "<=": ">", ">": "<=", ">=": "<"}[op]
        if implies_within(op, s, k):
            within.append((bi, tr))
        if implies_within(neg, s, k):
            within.append((bi, f))
    if not inserts:
        other = sorted({short(t.callee() or "").split("::")[-1] for bi, t in ins.calls() if "LinkedHashMap" in (t.callee() or "") and
                        re.search(r"::(replace|entry|raw_entry_mut|get_mut|get_or_insert_with)$", t.callee() or "")})
        if other:
            # stated as the finding it is: LinkedHashMap::insert is what moves an existing key to the back of the list
            rule.fail("insert|not-moved-to-back", "LruTimeCache::insert stores the entry with LinkedHashMap::%s instead of insert: a key that is already present keeps its old "
                      "position in the list, so the most recently inserted session can be the one evicted at capacity and the purge (which stops at the first live "
                      "entry) no longer sees expired entries behind it" % "/".join(other), loc=ins.loc(ins.line))
            return rule
        raise AnchorError("LruTimeCache::insert does not call LinkedHashMap::insert")
    for bi, t in inserts:
        start = t.target
        rets = ins.return_blocks()
        r = ins.reachable(start, removed_edges=within, removed_blocks=pops)
        bad = [x for x in rets if x in r]
        rule.check(not bad, "insert: every path after map.insert passes `len <= capacity` or pop_front",
                   "insert|no-eviction-path",
                   "LruTimeCache::insert can return with len > capacity without evicting the front entry",
                   loc=ins.loc(t.line), detail="within-capacity edges %s, pop_front blocks %s" % (within, pops))
    # (b) &mut accessors refresh: the Some path passes to_back and a timestamp write deriving from now
    for b in accessors(facts):
        if not b.local_ty(1).startswith("&mut "):
            continue
        name = b.path.split("::")[-1]
        prov = Prov(b, facts)
        somes = [blk for lhs, kind, payload, blk, _l in prov.defs.get(0, ())
                 if kind == "rv" and payload.k == "agg" and payload.j.get("variant") == "Some" and blk in b.live_blocks()]
        if not somes:
            # pure delegation (get -> get_mut): nothing to do here
            continue
        rule.analysed(b)
        back = [bi for bi, t in find_calls(b, r"::to_back$", r"LinkedHashMap::<.*>::(insert|to_back)$")]
        # an entry found to be the back entry already needs no move
        prov_b = prov
        gb = Guards(b, prov_b, facts)
        already_back = []
        for sbi, st, se in gb.switches():
            inner = se
            while inner[0] == "un" and inner[1] == "Not":
                inner = inner[2]
            if inner[0] == "call" and any(x[0] == "call" and short(x[1]).endswith("LinkedHashMap::back") for x in walk(inner)):
                already_back.append((sbi, gb.bool_edges(sbi)[1]))
        ok_back = must_pass(b, somes, via_blocks=back, via_edges=already_back)
        stamp = []
        for blk in b.blocks:
            if blk.idx not in b.live_blocks():
                continue
            for s in blk.stmts:
                if s.k == "a" and s.lhs.proj and s.lhs.proj[0] == "*":
                    e = prov.rvalue(s.rv, blk.idx)
                    if contains_call(e, lambda n: short(n).endswith("time::Instant::now")):
                        stamp.append(blk.idx)
        ok_stamp = must_pass(b, somes, via_blocks=stamp)
        rule.check(ok_back and ok_stamp, "%s: returned entry is moved to the back and its timestamp refreshed" % name,
                   "%s|no-refresh" % name,
                   "LruTimeCache::%s returns an entry without %s" % (
                       name, "moving it to the back" if not ok_back else "refreshing its timestamp"),
                   loc=b.loc(b.line))
    # (c) remove_expired_values
    rev = facts.one(IMPL + "remove_expired_values")
    rule.analysed(rev)
    g = Guards(rev, None, facts)
    ex = expired_edges(rev, g)
    pops = find_calls(rev, r"LinkedHashMap::<.*>::pop_front$|LinkedHashMap::pop_front$")
    fronts = find_calls(rev, r"LinkedHashMap::<.*>::front$|LinkedHashMap::front$")
    if not pops:
        raise AnchorError("remove_expired_values does not pop_front")
    for bi, t in pops:
        r = rev.reachable(0, removed_edges=ex)
        rule.check(bi not in r and bool(fronts), "remove_expired_values: pop_front only past the expired edge of an age test on front()",
                   "remove_expired_values|unguarded-pop",
                   "remove_expired_values pops the front entry without having found it older than ttl",
                   loc=rev.loc(t.line))
    # the loop continues after a pop (sweeps all aged entries): the pop block reaches the front() call again
    for bi, t in pops:
        r = rev.reachable(t.target)
        rule.check(any(fb in r for fb, _ in fronts), "remove_expired_values: sweep loops back to front() after a pop",
                   "remove_expired_values|no-loop", "remove_expired_values removes at most one entry",
                   loc=rev.loc(t.line))
    return rule


def r3(ctx):
    facts = ctx.facts
    rule = Rule("C15.R3", "Handler.sessions is wired to config.session_timeout / session_cache_capacity; "
                "expiry sweep called from new_session and fail_session", floor=4, engine="A-prov + A-who")
    # constructor stores its parameters
    new = facts.one(IMPL + "new")
    rule.analysed(new)
    prov = Prov(new, facts)
    e = prov.local(0)
    aggs = [x for x in walk(e) if x[0] == "agg" and x[1].endswith("LruTimeCache::LruTimeCache")]
    if not aggs:
        raise AnchorError("LruTimeCache::new does not build the struct")
    for a in aggs:
        f = dict(a[2])
        ttl_ok = roots(f["ttl"]) == {("param", 1, "ttl")}
        cap_roots = roots(f["capacity"])
        # `capacity.unwrap_or(usize::MAX)` is the same mapping as the if-let: its value is the payload or the default
        uo = [x for x in cap_roots if x[0] == "call" and re.search(r"Option::unwrap_or$", short(x[1])) and len(x[2]) == 2 and
              roots(x[2][0]) == {("param", 2, "capacity")} and const_int_of(x[2][1]) is not None]
        if uo and len(uo) == len(cap_roots):
            cap_roots = {("field", ("as", ("param", 2, "capacity"), "Some"), "0"), uo[0][2][1]}
        cap_ok = any(x[0] in ("as", "field") and ("param", 2, "capacity") in [y for y in walk(x)] for x in cap_roots)
        # ... and every given capacity is taken as it is: the only other value is the "no limit" of None, chosen on the None edge alone
        ng = Guards(new, prov, facts)
        cmp_on_cap = [fmt_short(e2)[:80] for bi2, t2, e2 in ng.switches() if comparison(e2) and any(y == ("param", 2, "capacity") for y in walk(e2))]
        plain = all((x[0] in ("as", "field") and ("param", 2, "capacity") in list(walk(x))) or const_int_of(x) is not None for x in cap_roots)
        rule.check(cap_ok and plain and not cmp_on_cap, "LruTimeCache::new keeps every Some(capacity) unchanged", "new|capacity-altered",
                   "LruTimeCache::new does not take every given capacity as it is (it compares it: %s; stored value: %s): for some configured capacities the cache is "
                   "unbounded or bounded differently" % (cmp_on_cap, fmt_short(f["capacity"])[:120]), loc=new.loc(new.line))
        rule.check(ttl_ok and cap_ok, "LruTimeCache::new stores ttl and capacity from its parameters", "new|fields",
                   "LruTimeCache::new does not store its ttl/capacity parameters (ttl: %s, capacity: %s)" % (
                       fmt(f["ttl"]), fmt(f["capacity"])), loc=new.loc(new.line))
    # Handler construction
    found = 0
    for b in facts.find(r"crate::handler::Handler::spawn(::\{closure#\d+\})*"):
        prov = Prov(b, facts)
        for blk in b.blocks:
            for s in blk.stmts:
                if s.k == "a" and s.rv.k == "agg" and s.rv.j.get("def") == "crate::handler::Handler":
                    found += 1
                    rule.analysed(b)
                    fields = dict(zip(s.rv.j["fields"], s.rv.ops))
                    e = prov.operand(fields["sessions"])
                    calls = [x for x in roots(e) if x[0] == "call" and short(x[1]).endswith("LruTimeCache::new")]
                    ok = False
                    detail = fmt(e)[:200]
                    if len(calls) == 1 and len(roots(e)) == 1:
                        a0 = roots(calls[0][2][0])
                        a1 = roots(calls[0][2][1])
                        ok0 = all(x[0] == "field" and x[2] == "session_timeout" for x in a0) and bool(a0)
                        ok1 = bool(a1) and all(
                            any(y[0] == "field" and y[2] == "session_cache_capacity" for y in walk(x)) and
                            x[0] == "agg" and x[1].endswith("Option::Some") for x in a1)
                        ok = ok0 and ok1
                    rule.check(ok, "Handler.sessions = LruTimeCache::new(config.session_timeout, Some(config.session_cache_capacity))",
                               "spawn|sessions-wiring",
                               "Handler.sessions is not built from config.session_timeout and Some(config.session_cache_capacity): %s" % detail,
                               loc=b.loc(s.line))
    if not found:
        raise AnchorError("construction of Handler not found in Handler::spawn")
    # who sweeps
    callers = facts.callers_of(lambda n: short(n).endswith("LruTimeCache::remove_expired_values"))
    hc = sorted(set(re.sub(r"(::\{closure#\d+\})+$", "", p) for p in callers if p.startswith("crate::handler::")))
    rule.check(hc == ["crate::handler::Handler::remove_expired_sessions"], "remove_expired_values is called from remove_expired_sessions only",
               "sweep|callers", "unexpected callers of remove_expired_values in the handler: %s" % hc)
    callers = facts.callers_of(lambda n: n.endswith("Handler::remove_expired_sessions"))
    hc = sorted(set(re.sub(r"(::\{closure#\d+\})+$", "", p) for p in callers))
    want = ["crate::handler::Handler::fail_session", "crate::handler::Handler::new_session"]
    rule.check(all(w in hc for w in want), "expired sessions are swept before a session is created or failed",
               "sweep|sites", "remove_expired_sessions is no longer called from new_session and fail_session (callers: %s)" % hc)
    # every use of a session in the handler goes through an age-checked accessor
    uses = facts.call_sites(lambda t: callee_matches(t, r"LruTimeCache::<crate::node_info::NodeAddress, crate::handler::session::Session>::\w+$"))
    meths = {}
    for b, bi, t in uses:
        m = t.callee_full().split("::")[-1]
        meths.setdefault(m, []).append(b.path)
    allowed = {"get", "get_mut", "peek", "insert", "remove", "len", "remove_expired_values", "new"}
    extra = sorted(set(meths) - allowed)
    rule.check(not extra and ("get_mut" in meths or "get" in meths), "handler reaches sessions only through the cache API (%s)" % sorted(meths),
               "uses|api", "handler uses unexpected LruTimeCache methods: %s" % extra)
    # what is configured is what is used: the two settings are written only by their own setters (with the value given) and by the defaults;
    # nothing between the builder and Handler::spawn adjusts them (build() does not clamp or derive them from other settings)
    for fld, setter in (("session_timeout", "session_timeout"), ("session_cache_capacity", "session_cache_capacity")):
        odd = []
        n_set = 0
        for wb, wbi, wline, kind, e in field_writes(facts, r"crate::config::Config$", fld):
            nm = wb.path
            if nm.endswith("Clone>::clone") or (kind == "construct" and nm == "crate::config::ConfigBuilder::new"):
                continue
            if kind == "assign" and nm == "crate::config::ConfigBuilder::" + setter and roots(e) == {("param", 2, wb.local_name(2))}:
                n_set += 1
                continue
            odd.append("%s (%s %s)" % (nm.split("::")[-1], kind, fmt_short(e)[:60]))
        rule.check(n_set == 1 and not odd, "Config.%s is written only by its setter (the value given) and the default" % fld, "config|%s" % fld,
                   "Config.%s is also written by %s: the value the session cache is built with is not the configured one" % (fld, "; ".join(odd) or "nobody (setter not found)"))
    return rule


def run(ctx):
    G = lambda l, f, *a: guarded("C15." + l, f, ctx, *a)
    return G("R1", r1) + G("R2", r2) + G("R3", r3)
