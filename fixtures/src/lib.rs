//! Tiny functions reproducing each rule's violating shape next to a repaired twin. The rule engine
//! must fire on `bad_*` and stay silent on `good_*` in every run (checker self-validation, E4).
#![allow(dead_code)]
pub mod lru;
