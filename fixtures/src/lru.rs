//! C15: age-checked accessors.
use std::collections::HashMap;
use std::time::{Duration, Instant};

pub struct Cache {
    map: HashMap<u32, (u64, Instant)>,
    ttl: Duration,
}

impl Cache {
    pub fn bad_get(&mut self, k: &u32) -> Option<&u64> {
        match self.map.get(k) {
            Some((v, _t)) => Some(v),
            None => None,
        }
    }

    pub fn good_get(&mut self, k: &u32) -> Option<&u64> {
        match self.map.get(k) {
            Some((v, t)) => {
                if *t + self.ttl < Instant::now() {
                    return None;
                }
                Some(v)
            }
            None => None,
        }
    }

    /// inverted comparison: returns only entries that are too old
    pub fn bad_inverted(&mut self, k: &u32) -> Option<&u64> {
        if let Some((v, t)) = self.map.get(k) {
            if *t + self.ttl < Instant::now() {
                return Some(v);
            }
        }
        None
    }

    pub fn good_elapsed(&mut self, k: &u32) -> Option<&u64> {
        if let Some((v, t)) = self.map.get(k) {
            if t.elapsed() <= self.ttl {
                return Some(v);
            }
        }
        None
    }
}
